//! C20 end-to-end: `e2e keyspace n=<nodes> sh=<shards> cs=<0|1> udelay=<ms> seed=<s> ops=<op.op...>`
//!
//! ops, executed in order on one Session (keyspaces `ka`, `kb`; requests are `SELECT pk, v FROM t WHERE pk = 0x<id>`,
//! i.e. they NEED the connection's keyspace):
//!   `ua` / `ub` / `uA`   session.use_keyspace("ka" / "kb" / "Ka", cs)      `va` / `vb` / `vA`  the same with the OTHER flag
//!   `ui` / `uI` / `uJ`   session.use_keyspace(<invalid name>, cs): "bad name" / "k;DROP" / 49 characters
//!   `da<k>` / `db<k>` / `dA<k>`  TWO use_keyspace calls for the same name concurrently; as soon as the first returns Ok,
//!                 k requests are submitted (while the other call may still be running)
//!   `<m><n>[q]`   the USER sends a `USE` statement through the api `m` (`y` query_unpaged, `z` query_single_page,
//!                 `i` query_iter - the pager, `p` execute_unpaged and `j` execute_iter of the PREPARED statement) for the name
//!                 `n` (`a` ka, `b` kb, `A` Ka), quoted with `q` (`iAq` = query_iter("USE \"Ka\"")): one connection switches,
//!                 then the session itself calls use_keyspace(<name the server returned>, true) before the call returns.
//!                 Afterwards every request must run in EXACTLY the keyspace the server resolved the statement to.
//! `init=<n><0|1>`: the session is BUILT with SessionBuilder::use_keyspace(name, flag) (`x` = a keyspace that does not
//!                 exist: the build must fail).
//! The nodes resolve `USE` as a server does: a quoted name exactly, an unquoted one folded to lower case; the answer
//! carries the resolved name; Invalid if no such keyspace exists (existing: ka, kb and the case twin Ka).
//!   `f1` / `f0`   from now on the nodes answer `USE` with an Invalid error / normally again
//!   `h<i>`        from now on node i alone does not answer `USE` (its pool's USE times out after `ct` ms while the other
//!                 nodes acknowledge; its connections stay published); `t0` ends it
//!   `t1` / `t0`   from now on the nodes do not answer `USE` at all (the call times out after `ct` ms) / normally again
//!   `q<k>`        k requests, one after another      `g<i>`  two requests TARGETED at node i (single-target policy)
//!   `r`           Session::prepare of a fresh statement: every PREPARE frame is judged like a request
//! `zt=<mask>`: bit i = node i owns NO tokens (known and pooled, outside the ring; only targeted requests reach it).
//!   `c<k>`        k requests concurrently
//!   `xa<k>`/`xb<k>` use_keyspace CONCURRENTLY with k requests
//!   `k<i>`        node i closes all its pool connections;  `K` every node does
//!   `add`         a node joins (topology change + session.refresh_metadata())
//!   `w`           wait until all pools are full again;  `s<ms>` sleep
//! `udelay`: every second connection answers `USE` only after that many milliseconds (widens the window in which a
//! connection exists but has no keyspace yet).
//!
//! ORACLE at the nodes (C20's statement): each request frame records the keyspace its connection had ACKNOWLEDGED when
//! the frame arrived. For a request submitted after `use_keyspace(k)` returned Ok and while no other use_keyspace call
//! was running, that keyspace must be k (the keyspace a server selects: an unquoted name is lower-cased) - whatever
//! happened before: an earlier call for the same name that failed or timed out, the same name with the other flag.
//! An invalid name is rejected every time it is passed, and no frame ever contains it. (For a request submitted while a later use_keyspace(k') was still running,
//! k or k' are both accepted.) Requests submitted before the first successful use_keyspace are unconstrained.
use super::common::*;
use crate::mockcluster::*;
use crate::mocknode::{Parsed, RESP_RESULT, ShardMode, body_set_keyspace};
use crate::rng::Rng;
use crate::{Ctx, Tier};
use std::time::Duration;

/// Histories that REPEAT a name: after a failed / timed-out call, concurrently, an invalid name several times, the
/// same name with the other case_sensitive flag.
fn generate_repeats(rng: &mut Rng, tier: Tier, emit: &mut dyn FnMut(String)) {
    let n_cases = if tier == Tier::Quick { 60 } else { 600 };
    for c in 0..n_cases {
        let n = 1 + rng.below(3);
        let name = *rng.pick(&["a", "b", "A"]);
        let other = if name == "b" { "a" } else { "b" };
        let rq = |rng: &mut Rng| format!("{}{}", rng.pick(&["q", "c"]), 2 + rng.below(4));
        let mut ops: Vec<String> = Vec::new();
        let mut ct = 0u64;
        let mut udelay = *rng.pick(&[0u64, 0, 5, 20]);
        if rng.bool() {
            ops.push(format!("u{}", other));
            ops.push(rq(rng));
        }
        let mut init = String::new();
        match c % 10 {
            // every entry point for a user-issued USE statement, on the case twins ka / Ka: the session's follow-up must
            // name EXACTLY the keyspace the server resolved
            8 => {
                for _ in 0..2 + rng.below(2) {
                    let m = *rng.pick(&["y", "z", "i", "p", "j"]);
                    let nm = *rng.pick(&["A", "A", "a", "b"]);
                    let q = if rng.chance(2, 3) { "q" } else { "" };
                    ops.push(format!("{}{}{}", m, nm, q));
                    ops.push(rq(rng));
                }
                ops.push(if rng.bool() { "K".to_owned() } else { format!("k{}", rng.below(n)) });
                ops.push(rq(rng));
            }
            // the session is built with a keyspace
            9 => {
                init = format!(" init={}{}", rng.pick(&["a", "b", "A", "A", "x"]), rng.below(2));
                ops.clear();
                ops.push(rq(rng));
                ops.push(if rng.bool() { "K".to_owned() } else { format!("k{}", rng.below(n)) });
                ops.push(rq(rng));
                if rng.bool() {
                    ops.push("add".into());
                    ops.push(rq(rng));
                }
            }
            // ONE node does not answer the USE (its pool times out, stays published), the others acknowledge
            7 => {
                ct = 300;
                ops.push(format!("h{}", rng.below(n)));
                ops.push(format!("u{}", name));
                ops.push(rq(rng));
                ops.push("c6".into());
                ops.push("t0".into());
                ops.push(format!("u{}", name));
                ops.push(rq(rng));
            }
            // a user-issued USE statement (the session follows up by itself), also after a failed call for the same name
            6 => {
                if rng.bool() {
                    ops.push("f1".into());
                    ops.push(format!("u{}", if name == "b" { "b" } else { "a" }));
                    ops.push("f0".into());
                }
                ops.push(format!("y{}", if name == "b" { "b" } else { "a" }));
                ops.push(rq(rng));
                ops.push(format!("y{}", other));
                ops.push(rq(rng));
                ops.push(if rng.bool() { "K".to_owned() } else { format!("k{}", rng.below(n)) });
                ops.push(rq(rng));
            }
            // the server rejects the USE; the retry with the same name must send it again
            0 => {
                ops.push("f1".into());
                for _ in 0..1 + rng.below(2) {
                    ops.push(format!("u{}", name));
                    ops.push(rq(rng));
                }
                ops.push("f0".into());
                ops.push(format!("u{}", name));
                ops.push(rq(rng));
            }
            // the USE is not answered: the call times out; retry with the same name
            1 => {
                ct = 250;
                ops.push("t1".into());
                ops.push(format!("u{}", name));
                ops.push("t0".into());
                ops.push(format!("u{}", name));
                ops.push(rq(rng));
            }
            // an invalid name, repeatedly
            2 => {
                let bad = *rng.pick(&["i", "I", "J"]);
                for _ in 0..2 + rng.below(2) {
                    ops.push(format!("u{}", bad));
                    if rng.bool() {
                        ops.push(rq(rng));
                    }
                }
                ops.push(format!("u{}", name));
                ops.push(rq(rng));
                ops.push(format!("u{}", bad));
                ops.push(rq(rng));
            }
            // the same name with the other case_sensitive flag (`Ka` unquoted is keyspace ka, quoted is Ka)
            3 => {
                ops.push("uA".into());
                ops.push(rq(rng));
                ops.push("vA".into());
                ops.push(rq(rng));
                ops.push("uA".into());
                ops.push(rq(rng));
            }
            // two concurrent calls for the same name, USE answers delayed
            4 => {
                udelay = *rng.pick(&[20u64, 40]);
                ops.push(format!("d{}{}", name, 3 + rng.below(4)));
                ops.push(rq(rng));
            }
            // the same name again after connection loss / for a new node
            _ => {
                ops.push(format!("u{}", name));
                ops.push(if rng.bool() { "K".to_owned() } else { format!("k{}", rng.below(n)) });
                ops.push(format!("u{}", name));
                ops.push(rq(rng));
                ops.push("f1".into());
                ops.push(format!("u{}", other));
                ops.push("f0".into());
                ops.push(format!("u{}", other));
                ops.push(rq(rng));
            }
        }
        ops.push("w".into());
        ops.push("c6".into());
        emit(format!(
            "e2e keyspace n={} sh={} cs={} udelay={} ct={}{} seed={} ops={}",
            n,
            *rng.pick(&[0u64, 0, 2]),
            rng.below(2),
            udelay,
            ct,
            init,
            rng.below(1 << 32),
            ops.join(".")
        ));
    }
}

pub fn generate(rng: &mut Rng, tier: Tier, emit: &mut dyn FnMut(String)) {
    generate_repeats(rng, tier, emit);
    let n_cases = if tier == Tier::Quick { 40 } else { 400 };
    for _ in 0..n_cases {
        let n = 1 + rng.below(3);
        let mut nodes = n;
        let mut ops: Vec<String> = Vec::new();
        if rng.chance(1, 3) {
            ops.push(format!("q{}", 1 + rng.below(3)));
        }
        ops.push(if rng.chance(1, 4) { format!("xa{}", 2 + rng.below(4)) } else { "ua".into() });
        let len = 3 + rng.below(6);
        for _ in 0..len {
            let op = match rng.below(15) {
                12 | 13 => format!("g{}", rng.below(nodes)),
                14 => "r".to_owned(),
                0 | 1 => format!("q{}", 1 + rng.below(4)),
                2 | 3 => format!("c{}", 2 + rng.below(6)),
                4 | 5 => format!("k{}", rng.below(nodes)),
                6 => "K".to_owned(),
                7 if nodes < 5 => {
                    nodes += 1;
                    "add".to_owned()
                }
                8 => "w".to_owned(),
                9 => format!("s{}", 1 + rng.below(30)),
                10 => (*rng.pick(&["ua", "ub", "uA", "vA", "ya", "yb", "zAq", "iAq", "iA", "ibq", "pAq", "jAq", "ja"])).to_owned(),
                _ => format!("x{}{}", rng.pick(&["a", "b"]), 2 + rng.below(4)),
            };
            let is_fault = op.starts_with('k') || op == "K" || op == "add";
            ops.push(op);
            if is_fault {
                // requests right after the disturbance are the interesting ones
                ops.push(format!("{}{}", rng.pick(&["q", "c"]), 2 + rng.below(5)));
            }
        }
        ops.push("w".into());
        ops.push("c6".into());
        // every third cluster of two or more nodes has token-less nodes (one initial node keeps its tokens; a node that
        // joins may be token-less too): every one of them is targeted at the end
        let mut zt = String::new();
        if n >= 2 && rng.chance(1, 3) {
            let keep = rng.below(n);
            let mask = (1 + rng.below((1 << nodes) - 1)) & !(1u64 << keep);
            if mask != 0 {
                zt = format!(" zt={}", mask);
                for i in (0..nodes).filter(|i| mask >> i & 1 == 1) {
                    ops.push(format!("g{}", i));
                }
                ops.push("r".into());
            }
        }
        emit(format!(
            "e2e keyspace n={}{} sh={} cs={} udelay={} seed={} ops={}",
            n,
            zt,
            *rng.pick(&[0u64, 0, 2, 3]),
            rng.below(2),
            *rng.pick(&[0u64, 0, 5, 20]),
            rng.below(1 << 32),
            ops.join(".")
        ));
    }
}

#[derive(Clone, Debug)]
struct Submitted {
    /// keyspaces the request may legitimately run in; empty = unconstrained
    allowed: Vec<String>,
    op: usize,
}

const INVALID_I: &str = "bad name";
const INVALID_SEMI: &str = "k;DROP";
const INVALID_LONG: &str = "a23456789_123456789_123456789_123456789_123456789";

/// (name, case_sensitive) of a `u?` / `v?` / `d?` op: `v` uses the other flag.
fn name_of(head: &str, cs: bool) -> (&'static str, bool) {
    let flag = if head.starts_with('v') { !cs } else { cs };
    let name = match &head[1..] {
        "a" => "ka",
        "b" => "kb",
        "A" => "Ka",
        "i" => INVALID_I,
        "I" => INVALID_SEMI,
        _ => INVALID_LONG,
    };
    (name, flag)
}

/// The keyspace a server selects for a valid name (`None` = the name is not a valid identifier of 1..48 characters).
fn server_keyspace(name: &str, case_sensitive: bool) -> Option<String> {
    let n = name.chars().count();
    if !(1..=48).contains(&n) || !name.chars().all(|c| c.is_ascii_alphanumeric() || c == '_') {
        return None;
    }
    Some(if case_sensitive { name.to_owned() } else { name.to_ascii_lowercase() })
}

fn req_text(id: usize) -> String {
    format!("SELECT pk, v FROM t WHERE pk = 0x{:08x}", id)
}

fn req_id(text: &str) -> Option<usize> {
    usize::from_str_radix(text.strip_prefix("SELECT pk, v FROM t WHERE pk = 0x")?, 16).ok()
}

pub fn run(words: &[&str], ctx: &mut Ctx) -> String {
    let Some(p) = Params::parse(words) else { return "bad-case".into() };
    let (Some(n), Some(sh), Some(cs), Some(udelay), Some(seed), Some(ct)) =
        (p.num("n"), p.num_or("sh", 0), p.num_or("cs", 0), p.num_or("udelay", 0), p.num_or("seed", 1), p.num_or("ct", 0))
    else {
        return "bad-case".into();
    };
    if ct > 5000 {
        return "bad-case".into();
    }
    // keyspace given at build time
    let init: Option<(&'static str, bool)> = match p.str("init") {
        None => None,
        Some(v) if v.len() == 2 => {
            let name = match &v[..1] {
                "a" => "ka",
                "b" => "kb",
                "A" => "Ka",
                "x" => "kx",
                _ => return "bad-case".into(),
            };
            Some((name, &v[1..] == "1"))
        }
        _ => return "bad-case".into(),
    };
    let Some(ops_s) = p.str("ops") else { return "bad-case".into() };
    let ops: Vec<&str> = ops_s.split('.').filter(|o| !o.is_empty()).collect();
    if !(1..=8).contains(&n) || sh > 8 || udelay > 500 || ops.len() > 200 {
        return "bad-case".into();
    }
    let n = n as usize;
    let shape = Shape { nodes: n, dcs: 1, racks: 1, shards: sh as u16, msb: 12, vnodes: 2, strat: Strat::Simple(1), seed };
    let mut topo = shape.topology();
    // `zt=<mask>`: bit i = node i owns NO tokens (a coordinator-only node: known and pooled, outside the ring)
    let Some(zt) = p.num_or("zt", 0) else { return "bad-case".into() };
    if zt >= 256 || (zt != 0 && (0..n).all(|i| zt >> i & 1 == 1)) {
        return "bad-case".into();
    }
    for (i, node) in topo.nodes.iter_mut().enumerate() {
        if zt >> i & 1 == 1 {
            node.tokens.clear();
        }
    }
    for k in ["ka", "kb", "Ka"] {
        topo.keyspaces.push(KeyspaceSpec { name: k.into(), replication: simple_strategy(1), tables: vec![std_table()], initial_tablets: None });
    }
    // (reject USE with an Invalid error, do not answer USE at all)
    let faults: std::sync::Arc<std::sync::Mutex<(bool, bool)>> = Default::default();
    let faults_h = std::sync::Arc::clone(&faults);
    // nodes that alone do not answer USE
    let held_nodes: std::sync::Arc<std::sync::Mutex<Vec<usize>>> = Default::default();
    let held_h = std::sync::Arc::clone(&held_nodes);
    const EXISTING: [&str; 3] = ["ka", "kb", "Ka"];
    // the USE statements a prepared EXECUTE may stand for
    let prepared_use: Vec<(Vec<u8>, String)> = EXISTING
        .iter()
        .flat_map(|k| [format!("USE {}", k), format!("USE \"{}\"", k)])
        .map(|t| (stmt_id(&t), t))
        .collect();
    let handler = with_std_prepare(move |r: &Req| {
        let use_text: Option<String> = match &r.parsed {
            Parsed::Query { text, .. } if parse_use(text).is_some() => Some(text.clone()),
            Parsed::Execute { id, .. } => prepared_use.iter().find(|(i, _)| i == id).map(|(_, t)| t.clone()),
            _ => None,
        };
        if let Some(text) = use_text {
            // the keyspace a server selects: a quoted name as it is, an unquoted one lower-cased
            let raw = text.trim()[4..].trim().trim_end_matches(';').trim().to_owned();
            let k = if raw.starts_with('"') { raw.trim_matches('"').to_owned() } else { raw.to_ascii_lowercase() };
            let (reject, mute) = *faults_h.lock().unwrap();
            if mute || held_h.lock().unwrap().contains(&r.node) {
                return vec![];
            }
            if reject || !EXISTING.contains(&k.as_str()) {
                return vec![act_error(0x2200, "Keyspace does not exist", &[])];
            }
            let mut acts = Vec::new();
            if udelay > 0 && (r.conn + r.node) % 2 == 1 {
                acts.push(Act::Delay(Duration::from_millis(udelay)));
            }
            acts.push(Act::Respond(RESP_RESULT, body_set_keyspace(&k)));
            acts.push(Act::AckKeyspace(k));
            return acts;
        }
        match &r.parsed {
            Parsed::Query { .. } | Parsed::Execute { .. } => vec![Act::Respond(RESP_RESULT, rows_body(&row_specs(), true, None, &[]))],
            _ => vec![act_void()],
        }
    });
    let rt = runtime(1);
    rt.block_on(async {
        let cluster = MockCluster::start(topo, handler).await;
        cluster.set_auto_use(false);
        let customise = |b: scylla::client::session_builder::SessionBuilder| {
            let b = if ct > 0 { b.connection_timeout(Duration::from_millis(ct)) } else { b };
            match init {
                Some((name, flag)) => b.use_keyspace(name, flag),
                None => b,
            }
        };
        let session = match connect(&cluster, customise).await {
            Ok(s) => {
                if let Some((name, flag)) = init
                    && !server_keyspace(name, flag).is_some_and(|k| EXISTING.contains(&k.as_str()))
                {
                    ctx.fail(format!("e2e keyspace: the session was built with use_keyspace({:?}, {}) although that keyspace does not exist (the node answered Invalid)", name, flag));
                }
                s
            }
            Err(skip) => {
                if init.is_some_and(|(name, flag)| !server_keyspace(name, flag).is_some_and(|k| EXISTING.contains(&k.as_str()))) && skip.contains("session-build-failed") {
                    return "keyspace build-failed-as-it-must".to_owned();
                }
                ctx.fail(format!("e2e keyspace: the session could not be set up ({})", skip));
                return skip;
            }
        };
        let mut submitted: Vec<Submitted> = Vec::new();
        let mut results: Vec<bool> = Vec::new();
        // a session built with a keyspace: every request from the start must run in it
        let mut confirmed: Option<String> = init.and_then(|(name, flag)| server_keyspace(name, flag));
        let mut uses_ok = 0;
        let mut uses_err = 0;
        let mut rng = Rng::new(seed ^ 0x6b73);
        for (oi, op) in ops.iter().enumerate() {
            let (head, arg) = {
                let split = op.find(|c: char| c.is_ascii_digit()).unwrap_or(op.len());
                (&op[..split], op[split..].parse::<usize>().ok())
            };
            // submits k requests (concurrently or not) whose allowed keyspaces are `allowed`
            macro_rules! requests {
                ($k:expr, $allowed:expr, $concurrent:expr) => {{
                    let k: usize = $k;
                    let first = submitted.len();
                    for _ in 0..k {
                        submitted.push(Submitted { allowed: $allowed, op: oi });
                    }
                    let session = &session;
                    async move {
                        let mut res = Vec::new();
                        if $concurrent {
                            let futs = (first..first + k).map(|id| async move { session.query_unpaged(req_text(id), ()).await.is_ok() });
                            res = futures::future::join_all(futs).await;
                        } else {
                            for id in first..first + k {
                                res.push(session.query_unpaged(req_text(id), ()).await.is_ok());
                            }
                        }
                        res
                    }
                }};
            }
            let allowed_now: Vec<String> = confirmed.iter().cloned().collect();
            match (head, arg) {
                ("ua" | "ub" | "uA" | "va" | "vb" | "vA" | "ui" | "uI" | "uJ", None) => {
                    let (name, flag) = name_of(head, cs != 0);
                    let valid = server_keyspace(name, flag).is_some();
                    match session.use_keyspace(name, flag).await {
                        Ok(()) => {
                            if !valid {
                                ctx.fail(format!("e2e keyspace: use_keyspace({:?}) (op #{} `{}`) returned Ok for an invalid name", name, oi, op));
                            }
                            if valid && !held_nodes.lock().unwrap().is_empty() {
                                ctx.fail(format!(
                                    "e2e keyspace: use_keyspace({:?}) (op #{} `{}`) returned Ok although node(s) {:?} never answered the USE (their pools timed out; their connections stay published without the keyspace)",
                                    name, oi, op, held_nodes.lock().unwrap()
                                ));
                            }
                            confirmed = server_keyspace(name, flag);
                            uses_ok += 1;
                        }
                        Err(_) => {
                            // an invalid name is rejected locally: nothing changes. Otherwise the session keyspace is
                            // now undetermined (some connections may have switched)
                            if valid {
                                confirmed = None;
                            }
                            uses_err += 1;
                        }
                    }
                }
                (h, None) if h.len() >= 2 && h.len() <= 3 && "yzipj".contains(&h[..1]) && "abA".contains(&h[1..2]) && (h.len() == 2 || &h[2..] == "q") => {
                    // session.rs run_request / pager.rs new_from_first_page: the follow-up use_keyspace(<returned name>, true)
                    // is awaited inside the call
                    let name = match &h[1..2] {
                        "a" => "ka",
                        "b" => "kb",
                        _ => "Ka",
                    };
                    let quoted = h.len() == 3;
                    let stmt = if quoted { format!("USE \"{}\"", name) } else { format!("USE {}", name) };
                    // what a server resolves the statement to
                    let target = if quoted { name.to_owned() } else { name.to_ascii_lowercase() };
                    let ok = match &h[..1] {
                        "y" => session.query_unpaged(stmt.clone(), ()).await.is_ok(),
                        "z" => session.query_single_page(stmt.clone(), (), scylla::response::PagingState::start()).await.is_ok(),
                        "i" => session.query_iter(stmt.clone(), ()).await.is_ok(),
                        m => match session.prepare(stmt.clone()).await {
                            Ok(prepared) => {
                                if m == "p" {
                                    session.execute_unpaged(&prepared, ()).await.is_ok()
                                } else {
                                    session.execute_iter(prepared, ()).await.is_ok()
                                }
                            }
                            Err(_) => false,
                        },
                    };
                    if ok {
                        confirmed = Some(target);
                        uses_ok += 1;
                    } else {
                        confirmed = None;
                        uses_err += 1;
                    }
                }
                ("da" | "db" | "dA", Some(k)) if k <= 64 => {
                    // two calls for the same name at once; requests go out as soon as the first one has returned Ok
                    let (name, flag) = name_of(head, cs != 0);
                    let target = server_keyspace(name, flag);
                    let c1 = Box::pin(session.use_keyspace(name, flag));
                    let c2 = Box::pin(session.use_keyspace(name, flag));
                    let (first, other) = match futures::future::select(c1, c2).await {
                        futures::future::Either::Left((r, o)) => (r, o),
                        futures::future::Either::Right((r, o)) => (r, o),
                    };
                    match first {
                        Ok(()) => {
                            uses_ok += 1;
                            let reqs = requests!(k, target.iter().cloned().collect::<Vec<String>>(), true);
                            let (second, r) = tokio::join!(other, reqs);
                            results.extend(r);
                            match second {
                                Ok(()) => {
                                    confirmed = target;
                                    uses_ok += 1;
                                }
                                Err(_) => {
                                    confirmed = None;
                                    uses_err += 1;
                                }
                            }
                        }
                        Err(_) => {
                            uses_err += 1;
                            match other.await {
                                Ok(()) => {
                                    confirmed = target;
                                    uses_ok += 1;
                                }
                                Err(_) => {
                                    confirmed = None;
                                    uses_err += 1;
                                }
                            }
                        }
                    }
                }
                ("f", Some(v)) if v <= 1 => faults.lock().unwrap().0 = v == 1,
                ("t", Some(v)) if v <= 1 => {
                    faults.lock().unwrap().1 = v == 1;
                    if v == 0 {
                        held_nodes.lock().unwrap().clear();
                    }
                }
                ("h", Some(i)) => {
                    if i < cluster.n_nodes() {
                        held_nodes.lock().unwrap().push(i);
                    }
                }
                // two requests TARGETED at node i (SingleTargetLoadBalancingPolicy): the only way to reach a token-less node
                ("g", Some(i)) if i < 12 => {
                    use scylla::policies::load_balancing::{NodeIdentifier, SingleTargetLoadBalancingPolicy};
                    for _ in 0..2 {
                        let id = submitted.len();
                        submitted.push(Submitted { allowed: allowed_now.clone(), op: oi });
                        let mut stmt = scylla::statement::Statement::new(req_text(id));
                        stmt.set_load_balancing_policy(Some(SingleTargetLoadBalancingPolicy::new(NodeIdentifier::HostId(uuid::Uuid::from_bytes(host_id_of(i))), None)));
                        results.push(session.query_unpaged(stmt, ()).await.is_ok());
                    }
                }
                // Session::prepare of a fresh statement: its PREPARE frames (one connection of every known node) are
                // judged like requests - a PREPARE in another keyspace binds the statement to that keyspace
                ("r", None) => {
                    let id = submitted.len();
                    submitted.push(Submitted { allowed: allowed_now.clone(), op: oi });
                    results.push(session.prepare(req_text(id)).await.is_ok());
                }
                ("q", Some(k)) if k <= 64 => results.extend(requests!(k, allowed_now.clone(), false).await),
                ("c", Some(k)) if k <= 64 => results.extend(requests!(k, allowed_now.clone(), true).await),
                ("xa", Some(k)) | ("xb", Some(k)) if k <= 64 => {
                    let target = if head == "xa" { "ka" } else { "kb" };
                    // concurrent with the switch: the old or the new keyspace; nothing is promised before the first use
                    let allowed: Vec<String> = match &confirmed {
                        None => vec![],
                        Some(c) => vec![c.clone(), target.to_owned()],
                    };
                    let reqs = requests!(k, allowed.clone(), true);
                    let (u, r) = tokio::join!(session.use_keyspace(target, cs != 0), reqs);
                    results.extend(r);
                    match u {
                        Ok(()) => {
                            confirmed = Some(target.to_owned());
                            uses_ok += 1;
                        }
                        Err(_) => {
                            confirmed = None;
                            uses_err += 1;
                        }
                    }
                }
                ("k", Some(i)) => {
                    if i < cluster.n_nodes() {
                        cluster.kill_connections(i, false);
                    }
                }
                ("K", None) => {
                    for i in 0..cluster.n_nodes() {
                        cluster.kill_connections(i, false);
                    }
                }
                ("add", None) => {
                    if cluster.n_nodes() < 12 {
                        let i = cluster.n_nodes();
                        let tokens: Vec<i64> = (0..2).map(|_| rng.next() as i64).collect();
                        cluster
                            .add_node(NodeSpec {
                                host_id: host_id_of(i),
                                dc: Shape::dc_name(0),
                                rack: "r1".into(),
                                tokens: if zt >> i & 1 == 1 { vec![] } else { tokens },
                                shards: if sh == 0 { ShardMode::None } else { ShardMode::ByPort(sh as u16, 12) },
                            })
                            .await;
                        let _ = session.refresh_metadata().await;
                    }
                }
                ("w", None) => {
                    cluster.wait_pools_full(&session, Duration::from_secs(3)).await;
                }
                ("s", Some(ms)) if ms <= 1000 => tokio::time::sleep(Duration::from_millis(ms as u64)).await,
                _ => return "bad-case".to_owned(),
            }
        }
        // ------------------------------------------------------------------ oracle
        let mut checked = 0;
        let mut frames_seen = 0;
        for f in cluster.user_frames() {
            let (Parsed::Query { text, .. } | Parsed::Prepare { text }) = &f.parsed else { continue };
            let Some(id) = req_id(text) else { continue };
            let Some(sub) = submitted.get(id) else { continue };
            frames_seen += 1;
            if sub.allowed.is_empty() {
                continue;
            }
            checked += 1;
            let ok = f.keyspace.as_ref().is_some_and(|k| sub.allowed.contains(k));
            if !ok {
                ctx.fail(format!(
                    "e2e keyspace: request {} (op #{} `{}`), submitted after use_keyspace({}) had returned Ok, arrived at node {} on connection {} which had acknowledged keyspace {:?} (accepted: {:?}); the connection was opened at clock {} and acknowledged {:?}",
                    id,
                    sub.op,
                    ops[sub.op],
                    sub.allowed[0],
                    f.node,
                    f.conn,
                    f.keyspace,
                    sub.allowed,
                    cluster.conn(f.node, f.conn).opened,
                    cluster.conn(f.node, f.conn).keyspace_acks
                ));
            }
        }
        for f in cluster.frames() {
            let text = match &f.parsed {
                Parsed::Query { text, .. } | Parsed::Prepare { text } => text,
                _ => continue,
            };
            for bad in [INVALID_I, INVALID_SEMI, INVALID_LONG] {
                if text.contains(bad) {
                    ctx.fail(format!("e2e keyspace: the invalid keyspace name {:?} reached node {} inside {:?}", bad, f.node, text));
                }
            }
            if parse_use(text).is_some() && !f.internal && !["USE ka", "USE kb", "USE Ka", "USE \"ka\"", "USE \"kb\"", "USE \"Ka\""].contains(&text.as_str()) {
                ctx.fail(format!("e2e keyspace: node {} received the statement {:?}", f.node, text));
            }
        }
        let ok_results = results.iter().filter(|r| **r).count();
        format!(
            "keyspace requests={} ok={} frames={} checked={} uses={}/{} nodes={}",
            submitted.len(),
            ok_results,
            frames_seen,
            checked,
            uses_ok,
            uses_ok + uses_err,
            cluster.n_nodes()
        )
    })
}

//! C18 end-to-end: `e2e timestamp n=<nodes> sh=<shards> threads=<t> tasks=<W> per=<k> explicit=<every m-th|0>
//! gen=<mono|script> evict=<M|0> ov=<F|0> spec=<0|1> via=<session|caching> mix=<1|2> seed=<s>`
//!
//! A Session with `SessionBuilder::timestamp_generator(..)` - the MonotonicTimestampGenerator, or a scripted generator
//! (`gen=script`: base + k*step, every value handed out is recorded) - on a `threads`-thread runtime; W tasks run
//! concurrently, each performing `per` writes one after another (EXECUTE / QUERY / BATCH in turn). Every `explicit`-th
//! write of a task carries `set_timestamp(Some(t))` with a boundary-heavy t. Fault histories, all through the real
//! Session / pool / connection:
//!   `evict=M`  every node forgets its prepared statements before each M-th EXECUTE/BATCH frame it receives, so that
//!              frame is answered UNPREPARED and the driver re-prepares and RE-SENDS it;
//!   `ov=F`     every F-th statement frame (cluster-wide) is answered Overloaded; the statements are marked idempotent,
//!              so the retry policy sends the request AGAIN on another target;
//!   `spec=1`   speculative execution (2 extra executions, 3 ms apart; statements idempotent) while every 4th frame is
//!              answered only after 12 ms, so SPECULATIVE COPIES are sent.
//!
//! `mix=2` (plain Session; every generated case): the writes cycle through TWELVE entry points instead of three:
//! execute_unpaged / query_unpaged(text, ()) / batch(prepared)  (= `mix=1`), and
//!   batch with an UNPREPARED statement WITH VALUES, and mixed with a prepared one (`Connection::prepare_batch` rebuilds
//!     the batch with `Batch::new_from` before its timestamp is read);
//!   query_unpaged / query_single_page with NON-EMPTY values (per attempt `Connection::prepare(statement)` then EXECUTE:
//!     the statement's timestamp must survive Statement -> PreparedStatement);
//!   query_iter with values (prepare on all nodes, then the EXECUTE pager) and without (the QUERY pager);
//!   execute_iter, execute_single_page, query_single_page(text, ()).
//!
//! Batch TYPE: every batch is Logged, Unlogged or COUNTER by (seed, task, i) - plain Session and CachingSession alike,
//! prepared / unprepared-with-values / mixed statements, with and without an explicit timestamp.
//!
//! `pg=<k>` (default 1): every SELECT is answered in k PAGES (page j of a statement returns the paging state `[j+1]`
//! unless it is the last), so the pagers (query_iter with and without values, execute_iter, CachingSession::execute_iter)
//! send k page requests per execution and the three `*_single_page` entry points (and CachingSession::
//! execute_single_page) are called in a loop with the paging state of the previous answer - requests 2..k carry a
//! NON-START paging state. The oracle below judges the frames of ALL pages.
//!
//! `via=caching`: the same writes go through a `CachingSession` (cache of 2 statements, so it keeps re-preparing):
//! `execute_unpaged(text, values)`, `execute_iter(SELECT text, values)`, and `batch` with an UNPREPARED statement
//! with values (-> `prepare_batch`), with a prepared one, and with both mixed. Every write also sets its own
//! consistency and serial consistency on the statement / batch (from the seed).
//!
//! ORACLE at the nodes (C18's statement), over EVERY frame of a write that arrives at any node - first send, retries,
//! re-sent after re-preparation, speculative copies:
//!  * every frame of a write with an explicitly set timestamp carries exactly that timestamp;
//!  * every other write frame carries a timestamp (with `gen=script`: one the generator handed out); no timestamp is
//!    carried by two different writes; along each task's own sequence of writes the generated timestamps strictly
//!    increase (every timestamp of a later write exceeds every timestamp of an earlier one);
//!  * every frame of a write carries the consistency and the serial consistency the caller set on that statement or
//!    batch (the statement's own configuration must reach the wire whichever wrapper it went through).
use super::common::*;
use crate::mockcluster::*;
use crate::mocknode::{BatchStmt, Parsed, RESP_ERROR, body_unprepared};
use crate::rng::Rng;
use crate::{Ctx, Tier};
use std::collections::HashSet;
use std::sync::atomic::{AtomicI64, Ordering};
use std::sync::{Arc, Mutex};
use std::time::Duration;

pub fn generate(rng: &mut Rng, tier: Tier, emit: &mut dyn FnMut(String)) {
    let n_cases = if tier == Tier::Quick { 24 } else { 240 };
    for _ in 0..n_cases {
        emit(format!(
            "e2e timestamp n={} sh={} threads={} tasks={} per={} explicit={} mix=2 pg={} seed={}",
            1 + rng.below(3),
            *rng.pick(&[0u64, 0, 2, 4]),
            *rng.pick(&[1u64, 2, 4, 4]),
            1 + rng.below(8),
            12 + rng.below(if tier == Tier::Quick { 14 } else { 60 }),
            *rng.pick(&[0u64, 1, 3, 5]),
            2 + rng.below(2),
            rng.below(1 << 32)
        ));
    }
    // fault histories: re-sent after UNPREPARED, retried after Overloaded, speculative copies
    let n_fault = if tier == Tier::Quick { 24 } else { 240 };
    for i in 0..n_fault {
        let (evict, ov, spec) = match i % 4 {
            0 => (2 + rng.below(4), 0, 0),
            1 => (0, 2 + rng.below(5), 0),
            2 => (0, 0, 1),
            _ => (2 + rng.below(4), 3 + rng.below(5), rng.below(2)),
        };
        emit(format!(
            "e2e timestamp n={} sh={} threads={} tasks={} per={} explicit={} gen={} evict={} ov={} spec={} mix=2 pg={} seed={}",
            1 + rng.below(3),
            *rng.pick(&[0u64, 0, 2]),
            *rng.pick(&[1u64, 2, 4]),
            1 + rng.below(4),
            12 + rng.below(if tier == Tier::Quick { 12 } else { 30 }),
            *rng.pick(&[1u64, 2, 2, 3, 4]),
            rng.pick(&["mono", "script"]),
            evict,
            ov,
            spec,
            1 + rng.below(3),
            rng.below(1 << 32)
        ));
    }
    // the same writes through a CachingSession (statement / batch configuration must survive prepare_batch & co.)
    let n_caching = if tier == Tier::Quick { 20 } else { 200 };
    for i in 0..n_caching {
        let (evict, ov) = match i % 4 {
            0 | 1 => (0, 0),
            2 => (2 + rng.below(4), 0),
            _ => (0, 3 + rng.below(4)),
        };
        emit(format!(
            "e2e timestamp n={} sh={} threads={} tasks={} per={} explicit={} gen={} evict={} ov={} spec=0 via=caching pg={} seed={}",
            1 + rng.below(3),
            *rng.pick(&[0u64, 0, 2]),
            *rng.pick(&[1u64, 2, 4]),
            1 + rng.below(4),
            10 + rng.below(if tier == Tier::Quick { 10 } else { 30 }),
            *rng.pick(&[1u64, 2, 2, 3]),
            rng.pick(&["mono", "script"]),
            evict,
            ov,
            1 + rng.below(3),
            rng.below(1 << 32)
        ));
    }
}

/// The consistency / serial consistency write (task, i) sets on its statement or batch: (value, wire code).
fn cl_of(seed: u64, task: usize, i: usize) -> (scylla::statement::Consistency, u16) {
    use scylla::statement::Consistency::*;
    let mut r = Rng::new(seed ^ ((task as u64) << 24) ^ ((i as u64) << 4) ^ 0x636c);
    *r.pick(&[(One, 1u16), (Two, 2), (Quorum, 4), (All, 5), (LocalQuorum, 6), (LocalOne, 10)])
}

fn sc_of(seed: u64, task: usize, i: usize) -> (Option<scylla::statement::SerialConsistency>, Option<u16>) {
    use scylla::statement::SerialConsistency::*;
    let mut r = Rng::new(seed ^ ((task as u64) << 24) ^ ((i as u64) << 4) ^ 0x7363);
    *r.pick(&[(Some(Serial), Some(8u16)), (Some(LocalSerial), Some(9)), (None, None)])
}

fn bt_of(seed: u64, task: usize, i: usize) -> scylla::statement::batch::BatchType {
    use scylla::statement::batch::BatchType::*;
    [Logged, Unlogged, Counter, Counter][((seed >> 5) as usize + task * 7 + i / 2) % 4]
}

fn key_of(task: usize, i: usize) -> Vec<u8> {
    vec![0xC1, task as u8, (i >> 8) as u8, i as u8]
}

fn text_of(task: usize, i: usize) -> String {
    format!("INSERT INTO ks.t (pk, v) VALUES (0x{}, 0)", crate::util::hex(&key_of(task, i)))
}

/// `mix=2`: a SELECT with the key inline (QUERY frame through the pager / single page)
fn text_sel_of(task: usize, i: usize) -> String {
    format!("SELECT pk, v FROM ks.t WHERE pk = 0x{}", crate::util::hex(&key_of(task, i)))
}

fn explicit_ts(seed: u64, task: usize, i: usize) -> i64 {
    let mut r = Rng::new(seed ^ ((task as u64) << 32) ^ i as u64 ^ 0x7473);
    r.i64_boundary()
}

/// (consistency, serial consistency) on the wire
fn wire_cl(r: &Req) -> Option<(u16, Option<u16>)> {
    match &r.parsed {
        Parsed::Execute { params, .. } | Parsed::Query { params, .. } => Some((params.consistency, params.serial_consistency)),
        Parsed::Batch { consistency, serial_consistency, .. } => Some((*consistency, *serial_consistency)),
        _ => None,
    }
}

/// (task, index, timestamp on the wire)
fn write_of(r: &Req) -> Option<(usize, usize, Option<i64>)> {
    let from_key = |k: &[u8]| (k.len() == 4 && k[0] == 0xC1).then(|| (k[1] as usize, ((k[2] as usize) << 8) | k[3] as usize));
    match &r.parsed {
        Parsed::Execute { params, .. } => {
            let (t, i) = from_key(params.values.first()?.as_deref()?)?;
            Some((t, i, params.timestamp))
        }
        Parsed::Query { text, params } => {
            let hex = match text.strip_prefix("INSERT INTO ks.t (pk, v) VALUES (0x") {
                Some(rest) => rest.split(',').next()?,
                None => text.strip_prefix("SELECT pk, v FROM ks.t WHERE pk = 0x")?,
            };
            let (t, i) = from_key(&crate::util::unhex(hex)?)?;
            Some((t, i, params.timestamp))
        }
        Parsed::Batch { statements, timestamp, .. } => statements.iter().find_map(|s| match s {
            BatchStmt::Prepared(_, v) => {
                let (t, i) = from_key(v.first()?.as_deref()?)?;
                Some((t, i, *timestamp))
            }
            _ => None,
        }),
        _ => None,
    }
}

/// `gen=script`: base + k*step; records what it hands out.
struct ScriptedGenerator {
    next: AtomicI64,
    step: i64,
    handed: Mutex<HashSet<i64>>,
}

impl scylla::policies::timestamp_generator::TimestampGenerator for ScriptedGenerator {
    fn next_timestamp(&self) -> i64 {
        let v = self.next.fetch_add(self.step, Ordering::SeqCst);
        self.handed.lock().unwrap().insert(v);
        v
    }
}

struct NodeState {
    held: Vec<HashSet<Vec<u8>>>,
    stmt_frames: Vec<u64>,
    /// writes whose frame was already chosen for an eviction (each write triggers at most one: a node that evicts again
    /// and again before the re-sent BATCH arrives keeps the driver's batch re-prepare loop spinning forever)
    evicted_for: HashSet<(usize, usize)>,
    all_frames: u64,
    unprepared: u64,
    overloaded: u64,
}

pub fn run(words: &[&str], ctx: &mut Ctx) -> String {
    let Some(p) = Params::parse(words) else { return "bad-case".into() };
    let (Some(n), Some(sh), Some(threads), Some(tasks), Some(per), Some(explicit), Some(seed)) = (
        p.num("n"),
        p.num_or("sh", 0),
        p.num_or("threads", 2),
        p.num_or("tasks", 2),
        p.num_or("per", 8),
        p.num_or("explicit", 0),
        p.num_or("seed", 1),
    ) else {
        return "bad-case".into();
    };
    let (Some(evict), Some(ov), Some(spec)) = (p.num_or("evict", 0), p.num_or("ov", 0), p.num_or("spec", 0)) else { return "bad-case".into() };
    let gen_kind = p.str("gen").unwrap_or("mono");
    let via = p.str("via").unwrap_or("session");
    if !["session", "caching"].contains(&via) {
        return "bad-case".into();
    }
    let caching = via == "caching";
    let Some(mix) = p.num_or("mix", 1) else { return "bad-case".into() };
    let Some(pg) = p.num_or("pg", 1) else { return "bad-case".into() };
    if !(1..=16).contains(&pg) {
        return "bad-case".into();
    }
    // page j of a SELECT (request paging state: none = 0, `[j]` = j) is followed by page j+1 unless it is the last
    let next_state = move |ps: &Option<Vec<u8>>| -> Option<Vec<u8>> {
        let page = ps.as_ref().map_or(0, |b| b.first().copied().unwrap_or(0) as u64);
        (page + 1 < pg).then(|| vec![(page + 1) as u8])
    };
    if !(1..=2).contains(&mix) {
        return "bad-case".into();
    }
    // hard=1 (never generated): the node may evict for the same write again and again
    let Some(hard) = p.num_or("hard", 0) else { return "bad-case".into() };
    if !(1..=8).contains(&n) || sh > 8 || !(1..=8).contains(&threads) || !(1..=64).contains(&tasks) || !(1..=2000).contains(&per) {
        return "bad-case".into();
    }
    if !["mono", "script"].contains(&gen_kind) || evict == 1 || ov == 1 || spec > 1 {
        // (evict=1 / ov=1 would refuse every frame: no request could ever complete)
        return "bad-case".into();
    }
    let (tasks, per, explicit) = (tasks as usize, per as usize, explicit as usize);
    let n = n as usize;
    let shape = Shape { nodes: n, dcs: 1, racks: 1, shards: sh as u16, msb: 12, vnodes: 2, strat: Strat::Simple(n.min(2)), seed };
    let idempotent = ov != 0 || spec != 0;
    let state = Arc::new(Mutex::new(NodeState { held: vec![HashSet::new(); n], stmt_frames: vec![0; n], evicted_for: HashSet::new(), all_frames: 0, unprepared: 0, overloaded: 0 }));
    let st_h = Arc::clone(&state);
    let handler: ClusterHandler = Box::new(move |r: &Req| {
        let mut st = st_h.lock().unwrap();
        let ids: Vec<Vec<u8>> = match &r.parsed {
            Parsed::Prepare { text } => {
                st.held[r.node].insert(stmt_id(text));
                return vec![Act::Respond(crate::mocknode::RESP_RESULT, std_prepared(text))];
            }
            Parsed::Execute { id, .. } => vec![id.clone()],
            Parsed::Batch { statements, .. } => statements.iter().filter_map(|s| if let BatchStmt::Prepared(id, _) = s { Some(id.clone()) } else { None }).collect(),
            Parsed::Query { .. } => vec![],
            _ => return vec![act_void()],
        };
        st.all_frames += 1;
        if !ids.is_empty() {
            st.stmt_frames[r.node] += 1;
            if evict != 0 && st.stmt_frames[r.node] % evict == 0 {
                let w = write_of(r).map(|(t, i, _)| (t, i));
                if hard != 0 || w.is_none_or(|w| st.evicted_for.insert(w)) {
                    st.held[r.node].clear();
                }
            }
            if let Some(missing) = ids.iter().find(|id| !st.held[r.node].contains(*id)) {
                st.unprepared += 1;
                return vec![Act::Respond(RESP_ERROR, body_unprepared(missing))];
            }
        }
        if ov != 0 && st.all_frames % ov == 0 {
            st.overloaded += 1;
            return vec![act_error(0x1001, "overloaded", &[])];
        }
        if spec != 0 && st.all_frames % 4 == 0 {
            return vec![Act::Delay(Duration::from_millis(12)), act_void()];
        }
        if let Parsed::Execute { id, params, .. } = &r.parsed {
            if *id == stmt_id(SELECT) {
                return vec![Act::Respond(crate::mocknode::RESP_RESULT, rows_body(&row_specs(), !params.skip_metadata, next_state(&params.paging_state).as_deref(), &[]))];
            }
        }
        if let Parsed::Query { text, params } = &r.parsed {
            if text.starts_with("SELECT pk, v FROM ks.t WHERE pk = 0x") {
                return vec![Act::Respond(crate::mocknode::RESP_RESULT, rows_body(&row_specs(), true, next_state(&params.paging_state).as_deref(), &[]))];
            }
        }
        vec![act_void()]
    });
    let scripted = Arc::new(ScriptedGenerator {
        next: AtomicI64::new(*Rng::new(seed ^ 0x6765_6e).pick(&[0i64, 1, -1000, 1_700_000_000_000_000, i64::MAX / 2])),
        step: 1 + (seed % 1000) as i64,
        handed: Mutex::new(HashSet::new()),
    });
    let rt = runtime(threads as usize);
    rt.block_on(async {
        use scylla::policies::timestamp_generator::{MonotonicTimestampGenerator, TimestampGenerator};
        use scylla::statement::batch::{Batch, BatchType};
        use scylla::statement::unprepared::Statement;
        let cluster = MockCluster::start(shape.topology(), handler).await;
        let generator: Arc<dyn TimestampGenerator> = if gen_kind == "script" { scripted.clone() } else { Arc::new(MonotonicTimestampGenerator::new()) };
        let session = match connect(&cluster, |b| {
            let b = b.timestamp_generator(Arc::clone(&generator));
            if spec != 0 {
                use scylla::client::execution_profile::ExecutionProfile;
                use scylla::policies::speculative_execution::SimpleSpeculativeExecutionPolicy;
                let pol = SimpleSpeculativeExecutionPolicy { max_retry_count: 2, retry_interval: Duration::from_millis(3) };
                b.default_execution_profile_handle(ExecutionProfile::builder().speculative_execution_policy(Some(Arc::new(pol))).build().into_handle())
            } else {
                b
            }
        })
        .await
        {
            Ok(s) => Arc::new(s),
            Err(skip) => return skip,
        };
        let mut ps = match session.prepare(INSERT).await {
            Ok(ps) => ps,
            Err(_) => return "e2e-skip prepare-failed".to_owned(),
        };
        ps.set_is_idempotent(idempotent);
        let mut ps_sel = match session.prepare(SELECT).await {
            Ok(ps) => ps,
            Err(_) => return "e2e-skip prepare-failed".to_owned(),
        };
        ps_sel.set_is_idempotent(idempotent);
        let is_explicit = move |i: usize| explicit != 0 && i % explicit == explicit - 1;
        // via=caching: the Session is owned by the CachingSession (tiny cache: constant client-side re-preparation)
        enum Via {
            Plain(Arc<scylla::client::session::Session>),
            Caching(Arc<scylla::client::caching_session::CachingSession>),
        }
        let via_obj = if caching {
            match Arc::try_unwrap(session) {
                Ok(s) => Via::Caching(Arc::new(scylla::client::caching_session::CachingSession::from(s, 2))),
                Err(_) => return "e2e-skip session-shared".to_owned(),
            }
        } else {
            Via::Plain(session)
        };
        let mut handles = Vec::new();
        for task in 0..tasks {
            let ps = ps.clone();
            let ps_sel = ps_sel.clone();
            let via_t = match &via_obj {
                Via::Plain(s) => Via::Plain(Arc::clone(s)),
                Via::Caching(c) => Via::Caching(Arc::clone(c)),
            };
            handles.push(tokio::spawn(async move {
                use futures::StreamExt;
                let mut errors = 0;
                for i in 0..per {
                    let ts = is_explicit(i).then(|| explicit_ts(seed, task, i));
                    let (cl, _) = cl_of(seed, task, i);
                    let (sc, _) = sc_of(seed, task, i);
                    let key = key_of(task, i);
                    let configured_ps = || {
                        let mut h = ps.clone();
                        h.set_timestamp(ts);
                        h.set_consistency(cl);
                        h.set_serial_consistency(sc);
                        h
                    };
                    let configured_stmt = |text: &str| {
                        let mut st = Statement::new(text);
                        st.set_timestamp(ts);
                        st.set_consistency(cl);
                        st.set_serial_consistency(sc);
                        st.set_is_idempotent(idempotent);
                        st
                    };
                    let configured_batch = |stmts: Vec<scylla::statement::batch::BatchStatement>| {
                        let mut b = Batch::new_with_statements(bt_of(seed, task, i), stmts);
                        b.set_timestamp(ts);
                        b.set_consistency(cl);
                        b.set_serial_consistency(sc);
                        b.set_is_idempotent(idempotent);
                        b
                    };
                    let configured_sel = || {
                        let mut h = ps_sel.clone();
                        h.set_timestamp(ts);
                        h.set_consistency(cl);
                        h.set_serial_consistency(sc);
                        h
                    };
                    // drains a pager (the frames are what is judged; rows are empty)
                    async fn drain(pager: Result<scylla::client::pager::QueryPager, scylla::errors::PagerExecutionError>) -> bool {
                        use futures::StreamExt;
                        match pager {
                            Ok(pager) => match pager.rows_stream::<(Vec<u8>, i32)>() {
                                Ok(mut rows) => {
                                    let mut ok = true;
                                    while let Some(r) = rows.next().await {
                                        ok &= r.is_ok();
                                    }
                                    ok
                                }
                                Err(_) => false,
                            },
                            Err(_) => false,
                        }
                    }
                    let start = scylla::response::PagingState::start;
                    let ok = match &via_t {
                        Via::Plain(session) => match (task + i) % (if mix == 2 { 12 } else { 3 }) {
                            0 => session.execute_unpaged(&configured_ps(), (key, 0i32)).await.is_ok(),
                            1 => session.query_unpaged(configured_stmt(&text_of(task, i)), ()).await.is_ok(),
                            2 => session.batch(&configured_batch(vec![ps.clone().into()]), ((key, 0i32),)).await.is_ok(),
                            // an UNPREPARED statement with values: Connection::prepare_batch rebuilds the batch (Batch::new_from)
                            3 => session.batch(&configured_batch(vec![Statement::new(INSERT).into()]), ((key, 0i32),)).await.is_ok(),
                            4 => session
                                .batch(&configured_batch(vec![ps.clone().into(), Statement::new(INSERT).into()]), ((key.clone(), 0i32), (key, 1i32)))
                                .await
                                .is_ok(),
                            // a Statement WITH VALUES: Connection::prepare(statement), then EXECUTE of the result
                            5 => session.query_unpaged(configured_stmt(INSERT), (key, 0i32)).await.is_ok(),
                            6 => drain(session.query_iter(configured_stmt(SELECT), (key,)).await).await,
                            7 => drain(session.query_iter(configured_stmt(&text_sel_of(task, i)), ()).await).await,
                            8 => drain(session.execute_iter(configured_sel(), (key,)).await).await,
                            // the three single-page entry points, called the way a caller pages by hand: again with the
                            // paging state of the previous answer until NoMorePages (requests 2.. carry a non-start state)
                            9 => {
                                let (h, mut state) = (configured_sel(), start());
                                loop {
                                    match session.execute_single_page(&h, (key.clone(),), state).await {
                                        Ok((_, resp)) => match resp.into_paging_control_flow() {
                                            std::ops::ControlFlow::Break(()) => break true,
                                            std::ops::ControlFlow::Continue(s) => state = s,
                                        },
                                        Err(_) => break false,
                                    }
                                }
                            }
                            10 => {
                                let (st, mut state) = (configured_stmt(&text_sel_of(task, i)), start());
                                loop {
                                    match session.query_single_page(st.clone(), (), state).await {
                                        Ok((_, resp)) => match resp.into_paging_control_flow() {
                                            std::ops::ControlFlow::Break(()) => break true,
                                            std::ops::ControlFlow::Continue(s) => state = s,
                                        },
                                        Err(_) => break false,
                                    }
                                }
                            }
                            _ => {
                                let (st, mut state) = (configured_stmt(SELECT), start());
                                loop {
                                    match session.query_single_page(st.clone(), (key.clone(),), state).await {
                                        Ok((_, resp)) => match resp.into_paging_control_flow() {
                                            std::ops::ControlFlow::Break(()) => break true,
                                            std::ops::ControlFlow::Continue(s) => state = s,
                                        },
                                        Err(_) => break false,
                                    }
                                }
                            }
                        },
                        Via::Caching(cs) => match (task + i) % 6 {
                            0 => cs.execute_unpaged(configured_stmt(INSERT), (key, 0i32)).await.is_ok(),
                            1 => match cs.execute_iter(configured_stmt(SELECT), (key,)).await {
                                Ok(pager) => match pager.rows_stream::<(Vec<u8>, i32)>() {
                                    Ok(mut rows) => {
                                        let mut ok = true;
                                        while let Some(r) = rows.next().await {
                                            ok &= r.is_ok();
                                        }
                                        ok
                                    }
                                    Err(_) => false,
                                },
                                Err(_) => false,
                            },
                            // an UNPREPARED statement with values: CachingSession::batch goes through prepare_batch
                            2 => cs.batch(&configured_batch(vec![Statement::new(INSERT).into()]), ((key, 0i32),)).await.is_ok(),
                            3 => cs.batch(&configured_batch(vec![ps.clone().into()]), ((key, 0i32),)).await.is_ok(),
                            // CachingSession::execute_single_page, paged by hand
                            5 => {
                                let (st, mut state) = (configured_stmt(SELECT), start());
                                loop {
                                    match cs.execute_single_page(st.clone(), (key.clone(),), state).await {
                                        Ok((_, resp)) => match resp.into_paging_control_flow() {
                                            std::ops::ControlFlow::Break(()) => break true,
                                            std::ops::ControlFlow::Continue(s) => state = s,
                                        },
                                        Err(_) => break false,
                                    }
                                }
                            }
                            _ => cs
                                .batch(&configured_batch(vec![ps.clone().into(), Statement::new(INSERT).into()]), ((key.clone(), 0i32), (key, 1i32)))
                                .await
                                .is_ok(),
                        },
                    };
                    if !ok {
                        errors += 1;
                    }
                }
                errors
            }));
        }
        let mut errors = 0;
        let mut unfinished = 0;
        let deadline = tokio::time::Instant::now() + Duration::from_secs(20);
        for mut h in handles {
            match tokio::time::timeout_at(deadline, &mut h).await {
                Ok(Ok(e)) => errors += e,
                // not what C18 judges (the frames that did arrive are judged below)
                _ => {
                    h.abort();
                    unfinished += 1;
                }
            }
        }
        // speculative copies that lost the race may still be on their way
        if spec != 0 {
            tokio::time::sleep(Duration::from_millis(30)).await;
        }
        // ------------------------------------------------------------------ oracle
        // per write: the timestamps of all its frames
        let mut seen: Vec<Vec<Vec<i64>>> = vec![vec![Vec::new(); per]; tasks];
        let mut n_frames = 0;
        let mut n_explicit = 0;
        let handed = scripted.handed.lock().unwrap().clone();
        for f in cluster.user_frames() {
            let Some((task, i, ts)) = write_of(&f) else { continue };
            if task >= tasks || i >= per {
                continue;
            }
            n_frames += 1;
            if let Some((cl, sc)) = wire_cl(&f) {
                let (want_cl, want_sc) = (cl_of(seed, task, i).1, sc_of(seed, task, i).1);
                if cl != want_cl || sc != want_sc {
                    ctx.fail(format!(
                        "e2e timestamp: write {} of task {} (via {}) set consistency {} / serial consistency {:?} on its statement or batch; a frame of it arrived at node {} with consistency {} / serial consistency {:?}",
                        i, task, via, want_cl, want_sc, f.node, cl, sc
                    ));
                }
            }
            let Some(ts) = ts else {
                ctx.fail(format!("e2e timestamp: write {} of task {} arrived without a timestamp although the session has a timestamp generator", i, task));
                continue;
            };
            if is_explicit(i) {
                n_explicit += 1;
                let want = explicit_ts(seed, task, i);
                if ts != want {
                    let nth = seen[task][i].len() + 1;
                    ctx.fail(format!(
                        "e2e timestamp: write {} of task {} was given set_timestamp(Some({})); its frame #{} ({}) arrived at node {} with {}",
                        i,
                        task,
                        want,
                        nth,
                        if nth == 1 { "first send" } else { "a re-send: retry / after re-preparation / speculative copy" },
                        f.node,
                        ts
                    ));
                }
                seen[task][i].push(ts);
            } else {
                if gen_kind == "script" && !handed.contains(&ts) {
                    ctx.fail(format!("e2e timestamp: write {} of task {} arrived with timestamp {}, which the session's generator never handed out", i, task, ts));
                }
                seen[task][i].push(ts);
            }
        }
        let mut generated: Vec<(i64, usize, usize)> = Vec::new();
        for task in 0..tasks {
            let mut prev: Option<(usize, i64)> = None; // (write, its largest timestamp)
            for i in 0..per {
                if is_explicit(i) || seen[task][i].is_empty() {
                    continue;
                }
                let mut v = seen[task][i].clone();
                v.sort();
                v.dedup();
                for t in &v {
                    generated.push((*t, task, i));
                }
                if let Some((pi, pmax)) = prev {
                    if v[0] <= pmax {
                        ctx.fail(format!("e2e timestamp: task {}: write {} was sent with timestamp {}, its later write {} with {}", task, pi, pmax, i, v[0]));
                    }
                }
                prev = Some((i, *v.last().unwrap()));
            }
        }
        generated.sort();
        for w in generated.windows(2) {
            if w[0].0 == w[1].0 {
                ctx.fail(format!(
                    "e2e timestamp: the generated timestamp {} was used by two writes: write {} of task {} and write {} of task {}",
                    w[0].0, w[0].2, w[0].1, w[1].2, w[1].1
                ));
                break;
            }
        }
        let st = state.lock().unwrap();
        format!(
            "timestamp writes={} frames={} explicit={} unprepared={} overloaded={} failed={} unfinished={}",
            tasks * per,
            n_frames,
            n_explicit,
            st.unprepared,
            st.overloaded,
            errors,
            unfinished
        )
    })
}

//! C18 end-to-end: `e2e timestamp n=<nodes> sh=<shards> threads=<t> tasks=<W> per=<k> explicit=<every m-th|0> seed=<s>`
//!
//! A Session with `SessionBuilder::timestamp_generator(MonotonicTimestampGenerator)` on a `threads`-thread runtime; W
//! tasks run concurrently, each performing `per` non-idempotent writes one after another (EXECUTE / QUERY / BATCH in
//! turn). Every `explicit`-th write of a task instead carries `set_timestamp(Some(t))` with a boundary-heavy t.
//!
//! ORACLE at the nodes (C18's statement):
//!  * every write frame carries a timestamp; the generated ones are pairwise distinct over the whole cluster;
//!  * along each task's own sequence of writes the generated timestamps strictly increase;
//!  * a write with an explicitly set timestamp arrives with exactly that timestamp.
use super::common::*;
use crate::mockcluster::*;
use crate::mocknode::{BatchStmt, Parsed};
use crate::rng::Rng;
use crate::{Ctx, Tier};
use std::sync::Arc;
use std::time::Duration;

pub fn generate(rng: &mut Rng, tier: Tier, emit: &mut dyn FnMut(String)) {
    let n_cases = if tier == Tier::Quick { 24 } else { 240 };
    for _ in 0..n_cases {
        emit(format!(
            "e2e timestamp n={} sh={} threads={} tasks={} per={} explicit={} seed={}",
            1 + rng.below(3),
            *rng.pick(&[0u64, 0, 2, 4]),
            *rng.pick(&[1u64, 2, 4, 4]),
            1 + rng.below(8),
            4 + rng.below(if tier == Tier::Quick { 20 } else { 60 }),
            *rng.pick(&[0u64, 3, 5]),
            rng.below(1 << 32)
        ));
    }
}

fn key_of(task: usize, i: usize) -> Vec<u8> {
    vec![0xC1, task as u8, (i >> 8) as u8, i as u8]
}

fn text_of(task: usize, i: usize) -> String {
    format!("INSERT INTO ks.t (pk, v) VALUES (0x{}, 0)", crate::util::hex(&key_of(task, i)))
}

fn explicit_ts(seed: u64, task: usize, i: usize) -> i64 {
    let mut r = Rng::new(seed ^ ((task as u64) << 32) ^ i as u64 ^ 0x7473);
    r.i64_boundary()
}

/// (task, index, timestamp on the wire)
fn write_of(r: &Req) -> Option<(usize, usize, Option<i64>)> {
    let from_key = |k: &[u8]| (k.len() == 4 && k[0] == 0xC1).then(|| (k[1] as usize, ((k[2] as usize) << 8) | k[3] as usize));
    match &r.parsed {
        Parsed::Execute { params, .. } => {
            let (t, i) = from_key(params.values.first()?.as_deref()?)?;
            Some((t, i, params.timestamp))
        }
        Parsed::Query { text, params } => {
            let hex = text.strip_prefix("INSERT INTO ks.t (pk, v) VALUES (0x")?.split(',').next()?;
            let (t, i) = from_key(&crate::util::unhex(hex)?)?;
            Some((t, i, params.timestamp))
        }
        Parsed::Batch { statements, timestamp, .. } => statements.iter().find_map(|s| match s {
            BatchStmt::Prepared(_, v) => {
                let (t, i) = from_key(v.first()?.as_deref()?)?;
                Some((t, i, *timestamp))
            }
            _ => None,
        }),
        _ => None,
    }
}

pub fn run(words: &[&str], ctx: &mut Ctx) -> String {
    let Some(p) = Params::parse(words) else { return "bad-case".into() };
    let (Some(n), Some(sh), Some(threads), Some(tasks), Some(per), Some(explicit), Some(seed)) = (
        p.num("n"),
        p.num_or("sh", 0),
        p.num_or("threads", 2),
        p.num_or("tasks", 2),
        p.num_or("per", 8),
        p.num_or("explicit", 0),
        p.num_or("seed", 1),
    ) else {
        return "bad-case".into();
    };
    if !(1..=8).contains(&n) || sh > 8 || !(1..=8).contains(&threads) || !(1..=64).contains(&tasks) || !(1..=2000).contains(&per) {
        return "bad-case".into();
    }
    let (tasks, per, explicit) = (tasks as usize, per as usize, explicit as usize);
    let shape = Shape { nodes: n as usize, dcs: 1, racks: 1, shards: sh as u16, msb: 12, vnodes: 2, strat: Strat::Simple(1), seed };
    let rt = runtime(threads as usize);
    rt.block_on(async {
        use scylla::policies::timestamp_generator::MonotonicTimestampGenerator;
        use scylla::statement::batch::{Batch, BatchType};
        use scylla::statement::unprepared::Statement;
        let cluster = MockCluster::start(shape.topology(), with_std_prepare(|_| vec![act_void()])).await;
        let session = match connect(&cluster, |b| b.timestamp_generator(Arc::new(MonotonicTimestampGenerator::new()))).await {
            Ok(s) => Arc::new(s),
            Err(skip) => return skip,
        };
        let ps = match session.prepare(INSERT).await {
            Ok(ps) => ps,
            Err(_) => return "e2e-skip prepare-failed".to_owned(),
        };
        let is_explicit = move |i: usize| explicit != 0 && i % explicit == explicit - 1;
        let mut handles = Vec::new();
        for task in 0..tasks {
            let (session, ps) = (Arc::clone(&session), ps.clone());
            handles.push(tokio::spawn(async move {
                let mut errors = 0;
                for i in 0..per {
                    let ts = is_explicit(i).then(|| explicit_ts(seed, task, i));
                    let ok = match (task + i) % 3 {
                        0 => {
                            let mut ps = ps.clone();
                            ps.set_timestamp(ts);
                            session.execute_unpaged(&ps, (key_of(task, i), 0i32)).await.is_ok()
                        }
                        1 => {
                            let mut st = Statement::new(text_of(task, i));
                            st.set_timestamp(ts);
                            session.query_unpaged(st, ()).await.is_ok()
                        }
                        _ => {
                            let mut b = Batch::new(BatchType::Unlogged);
                            b.append_statement(ps.clone());
                            b.set_timestamp(ts);
                            session.batch(&b, ((key_of(task, i), 0i32),)).await.is_ok()
                        }
                    };
                    if !ok {
                        errors += 1;
                    }
                }
                errors
            }));
        }
        let mut errors = 0;
        for h in handles {
            match tokio::time::timeout(Duration::from_secs(30), h).await {
                Ok(Ok(e)) => errors += e,
                _ => ctx.fail("e2e timestamp: a writer task did not finish"),
            }
        }
        // ------------------------------------------------------------------ oracle
        let mut generated: Vec<(i64, usize, usize)> = Vec::new();
        let mut per_task: Vec<Vec<(usize, i64)>> = vec![Vec::new(); tasks];
        let mut n_frames = 0;
        let mut n_explicit = 0;
        for f in cluster.user_frames() {
            let Some((task, i, ts)) = write_of(&f) else { continue };
            if task >= tasks || i >= per {
                continue;
            }
            n_frames += 1;
            let Some(ts) = ts else {
                ctx.fail(format!("e2e timestamp: write {} of task {} arrived without a timestamp although the session has a timestamp generator", i, task));
                continue;
            };
            if is_explicit(i) {
                n_explicit += 1;
                let want = explicit_ts(seed, task, i);
                if ts != want {
                    ctx.fail(format!("e2e timestamp: write {} of task {} was given set_timestamp(Some({})) and arrived with {}", i, task, want, ts));
                }
            } else {
                generated.push((ts, task, i));
                per_task[task].push((i, ts));
            }
        }
        generated.sort();
        for w in generated.windows(2) {
            if w[0].0 == w[1].0 {
                ctx.fail(format!(
                    "e2e timestamp: the generated timestamp {} was used twice: write {} of task {} and write {} of task {}",
                    w[0].0, w[0].2, w[0].1, w[1].2, w[1].1
                ));
                break;
            }
        }
        for (task, v) in per_task.iter_mut().enumerate() {
            v.sort();
            for w in v.windows(2) {
                if w[1].1 <= w[0].1 {
                    ctx.fail(format!(
                        "e2e timestamp: task {}: write {} got timestamp {}, its later write {} got {}",
                        task, w[0].0, w[0].1, w[1].0, w[1].1
                    ));
                    break;
                }
            }
        }
        format!("timestamp writes={} generated={} explicit={} failed={}", n_frames, generated.len(), n_explicit, errors)
    })
}

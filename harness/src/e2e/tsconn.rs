//! C18 hook-level variant of the timestamp family: `e2e tsconn gen=<mono|script|none> bt=<l|u|c|mix> seed=<s> ops=<op.op...>`
//!
//! `bt` = the TYPE of every batch the case sends: Logged / Unlogged / Counter, or `mix` = by position (all three);
//! absent = Unlogged. Batches are built alternately with `Batch::new` + `append_statement` and with
//! `Batch::new_with_statements`. Setter histories (by position): a statement without an explicit timestamp may first
//! get `set_timestamp(Some(junk))` and then `set_timestamp(None)`; one with an explicit timestamp may first get another
//! value, and a batch may be CLONED after the setter and the clone sent. The oracle is unchanged: what was set last is
//! what every frame carries.
//!
//! INNER statements of a batch (ops b/u/m, by position: every other op): the `Statement` / `PreparedStatement` appended to
//! the batch carries its OWN `set_timestamp(Some(-777000 - op))`. The BATCH frame has one timestamp field, filled from
//! `batch.get_timestamp().or_else(generator)` (connection.rs:1201): the inner value is never sent
//! (`inner_statement_timestamps_are_ignored`); the oracle stays "the batch's explicit one, else a generated one".
//!
//! ONE real driver connection (`verif_hooks::connection::VerifConn`, generator set in its connection config) against
//! one scripted node (mocknode), statements sent one after another:
//!   `e` EXECUTE   `b` BATCH (one prepared statement)   `q` QUERY    - timestamp from the generator
//!   `u` BATCH holding one UNPREPARED statement WITH VALUES: `Connection::batch_with_consistency` first runs
//!       `prepare_batch`, which prepares it and REBUILDS the batch (`Batch::new_from(init_batch)` + the statements) before
//!       the batch's timestamp is read (connection.rs:1184-1201, 1248-1290, batch.rs:45-53)
//!   `m` BATCH mixing a prepared statement and an unprepared one with values (the same rebuild)
//!   `p` a `Statement` sent the way `Session::query_*` sends one WITH VALUES: `Connection::prepare(&statement)` and then
//!       EXECUTE of the result (session.rs:1424-1438) - the statement's configuration travels Statement -> PreparedStatement
//!   `E` / `B` / `Q` / `U` / `M` / `P` the same with an explicit `set_timestamp(Some(t))` (boundary-heavy t)
//!   `v` the node forgets every prepared statement (the next EXECUTE / BATCH is answered UNPREPARED, re-prepared, re-sent)
//!
//! ORACLE on EVERY statement frame the node receives (first sends and re-sends alike):
//!  * a statement with an explicit timestamp carries exactly it on each of its frames;
//!  * with a generator, every other frame carries a timestamp and the timestamps of a later statement exceed those of
//!    every earlier one (one connection, sequential sends); with `gen=script` they are values the generator handed out;
//!    without a generator (`gen=none`) they carry none;
//!  * the generator is a COUNTING one (`gen=script`): a statement with an explicit timestamp does not advance it (it is
//!    not consulted), every other statement advances it by exactly one step however many frames it took (re-sends
//!    included) - `explicit_leaves_generator_untouched` / `frames_ask_at_most_once` of Props/C18.lean.
use super::common::*;
use crate::mocknode::*;
use crate::rng::Rng;
use crate::{Ctx, Tier};
use scylla::policies::timestamp_generator::{MonotonicTimestampGenerator, TimestampGenerator};
use scylla::verif_hooks::connection::{VerifConn, VerifConnOptions};
use scylla_cql_core::frame::response::result::{ColumnType, NativeType};
use scylla_cql_core::serialize::row::SerializedValues;
use std::collections::HashSet;
use std::sync::atomic::{AtomicI64, Ordering};
use std::sync::{Arc, Mutex};

pub fn generate(rng: &mut Rng, tier: Tier, emit: &mut dyn FnMut(String)) {
    let n_cases = if tier == Tier::Quick { 60 } else { 600 };
    for i in 0..n_cases {
        let len = 3 + rng.below(14);
        let mut ops = Vec::new();
        for _ in 0..len {
            ops.push(*rng.pick(&["e", "E", "E", "b", "B", "q", "Q", "v", "v", "u", "U", "U", "m", "M", "p", "P"]));
        }
        // the history of interest at least once: explicit timestamp, eviction, re-send
        ops.push("v");
        ops.push(*rng.pick(&["E", "B", "U", "M"]));
        // the connection-level batch rebuild with an explicit timestamp, in every case
        ops.push("U");
        emit(format!(
            "e2e tsconn gen={} bt={} seed={} ops={}",
            ["mono", "script", "mono", "script", "none"][i % 5],
            ["mix", "c", "mix", "l", "c", "mix", "u"][i % 7],
            rng.below(1 << 32),
            ops.join(".")
        ));
    }
}

struct ScriptedGenerator {
    next: AtomicI64,
    step: i64,
    handed: Mutex<HashSet<i64>>,
    calls: AtomicI64,
}

impl TimestampGenerator for ScriptedGenerator {
    fn next_timestamp(&self) -> i64 {
        self.calls.fetch_add(1, Ordering::SeqCst);
        let v = self.next.fetch_add(self.step, Ordering::SeqCst);
        self.handed.lock().unwrap().insert(v);
        v
    }
}

fn key_of(op: usize) -> Vec<u8> {
    vec![0xC8, (op >> 8) as u8, op as u8]
}

pub fn run(words: &[&str], ctx: &mut Ctx) -> String {
    let Some(p) = Params::parse(words) else { return "bad-case".into() };
    let (Some(seed), Some(ops_s)) = (p.num_or("seed", 1), p.str("ops")) else { return "bad-case".into() };
    let gen_kind = p.str("gen").unwrap_or("mono");
    let bt = p.str("bt").unwrap_or("u");
    if !["l", "u", "c", "mix"].contains(&bt) {
        return "bad-case".into();
    }
    let ops: Vec<&str> = ops_s.split('.').filter(|o| !o.is_empty()).collect();
    if !["mono", "script", "none"].contains(&gen_kind) || ops.len() > 500 || ops.iter().any(|o| !["e", "E", "b", "B", "q", "Q", "v", "u", "U", "m", "M", "p", "P"].contains(o)) {
        return "bad-case".into();
    }
    let held: Arc<Mutex<HashSet<Vec<u8>>>> = Arc::new(Mutex::new(HashSet::new()));
    let held_h = Arc::clone(&held);
    let unprepared = Arc::new(Mutex::new(0usize));
    let unprepared_h = Arc::clone(&unprepared);
    let handler: Handler = Box::new(move |r: &Request| {
        let mut held = held_h.lock().unwrap();
        let ids: Vec<Vec<u8>> = match &r.parsed {
            Parsed::Prepare { text } => {
                held.insert(stmt_id(text));
                return vec![Action::Respond(RESP_RESULT, std_prepared(text))];
            }
            Parsed::Execute { id, .. } => vec![id.clone()],
            Parsed::Batch { statements, .. } => statements.iter().filter_map(|s| if let BatchStmt::Prepared(id, _) = s { Some(id.clone()) } else { None }).collect(),
            _ => vec![],
        };
        if let Some(missing) = ids.iter().find(|id| !held.contains(*id)) {
            *unprepared_h.lock().unwrap() += 1;
            return vec![Action::Respond(RESP_ERROR, body_unprepared(missing))];
        }
        vec![Action::Respond(RESP_RESULT, body_void())]
    });
    let scripted = Arc::new(ScriptedGenerator {
        next: AtomicI64::new(*Rng::new(seed ^ 0x6765_6e).pick(&[0i64, 1, -1000, 1_700_000_000_000_000, i64::MAX / 2])),
        step: 1 + (seed % 1000) as i64,
        handed: Mutex::new(HashSet::new()),
        calls: AtomicI64::new(0),
    });
    let rt = crate::mockcluster::runtime(1);
    rt.block_on(async {
        use scylla::statement::batch::{Batch, BatchType};
        use scylla::statement::unprepared::Statement;
        let node = MockNode::start(false, None, handler).await;
        let generator: Option<Arc<dyn TimestampGenerator>> = match gen_kind {
            "script" => Some(scripted.clone()),
            "mono" => Some(Arc::new(MonotonicTimestampGenerator::new())),
            _ => None,
        };
        let options = VerifConnOptions { timestamp_generator: generator, ..Default::default() };
        let Ok(conn) = VerifConn::open(node.addr, options).await else { return "e2e-skip connection-failed".to_owned() };
        let Ok(ps) = conn.prepare(&Statement::new(INSERT)).await else { return "e2e-skip prepare-failed".to_owned() };
        let mut rng = Rng::new(seed ^ 0x7463);
        // per statement op: explicit timestamp (if any)
        let mut explicit: Vec<Option<i64>> = Vec::new();
        let mut errors = 0;
        for (oi, op) in ops.iter().enumerate() {
            let ts = op.chars().next().unwrap().is_ascii_uppercase().then(|| rng.i64_boundary());
            explicit.push(ts);
            let batch_type = match bt {
                "l" => BatchType::Logged,
                "u" => BatchType::Unlogged,
                "c" => BatchType::Counter,
                _ => [BatchType::Logged, BatchType::Unlogged, BatchType::Counter][(seed as usize + oi) % 3],
            };
            // setter history (see the header): 0 = another value first, 1 = (batches) clone after the setter, 2 = plain
            let sv = (seed as usize / 3 + oi) % 3;
            let junk = -(4242 + oi as i64);
            let build_batch = |stmts: Vec<scylla::statement::batch::BatchStatement>| {
                let mut b = if (seed as usize + oi) % 2 == 0 {
                    let mut b = Batch::new(batch_type);
                    for st in stmts {
                        b.append_statement(st);
                    }
                    b
                } else {
                    Batch::new_with_statements(batch_type, stmts)
                };
                if sv == 0 {
                    b.set_timestamp(Some(junk));
                }
                b.set_timestamp(ts);
                if sv == 1 { b.clone() } else { b }
            };
            // inner statements with a timestamp of their own (never a value the generator hands out; below every
            // generated one of `gen=mono`)
            let inner_ts = ((seed as usize + oi) % 2 == 1).then_some(-777_000 - oi as i64);
            let inner_ps = || {
                let mut h = ps.clone();
                if inner_ts.is_some() {
                    h.set_timestamp(inner_ts);
                }
                h
            };
            let inner_st = || {
                let mut st = Statement::new(INSERT);
                if inner_ts.is_some() {
                    st.set_timestamp(inner_ts);
                }
                st
            };
            let calls_before = scripted.calls.load(Ordering::SeqCst);
            let ok = match op.to_ascii_lowercase().as_str() {
                "v" => {
                    held.lock().unwrap().clear();
                    true
                }
                "e" => {
                    let mut h = ps.clone();
                    if sv == 0 {
                        h.set_timestamp(Some(junk));
                    }
                    h.set_timestamp(ts);
                    let mut values = SerializedValues::new();
                    let _ = values.add_value(&key_of(oi), &ColumnType::Native(NativeType::Blob));
                    let _ = values.add_value(&0i32, &ColumnType::Native(NativeType::Int));
                    conn.execute(&h, &values, None, scylla::response::PagingState::start()).await.is_ok()
                }
                "b" => {
                    let b = build_batch(vec![inner_ps().into()]);
                    conn.batch(&b, ((key_of(oi), 0i32),)).await.is_ok()
                }
                "u" => {
                    let b = build_batch(vec![inner_st().into()]);
                    conn.batch(&b, ((key_of(oi), 0i32),)).await.is_ok()
                }
                "m" => {
                    let b = build_batch(vec![inner_ps().into(), inner_st().into()]);
                    conn.batch(&b, ((key_of(oi), 0i32), (key_of(oi), 1i32))).await.is_ok()
                }
                "p" => {
                    let mut st = Statement::new(INSERT);
                    if sv == 0 {
                        st.set_timestamp(Some(junk));
                    }
                    st.set_timestamp(ts);
                    match conn.prepare(&st).await {
                        Ok(h) => {
                            let mut values = SerializedValues::new();
                            let _ = values.add_value(&key_of(oi), &ColumnType::Native(NativeType::Blob));
                            let _ = values.add_value(&0i32, &ColumnType::Native(NativeType::Int));
                            conn.execute(&h, &values, None, scylla::response::PagingState::start()).await.is_ok()
                        }
                        Err(_) => false,
                    }
                }
                _ => {
                    let mut st = Statement::new(format!("INSERT INTO ks.t (pk, v) VALUES (0x{}, 0)", crate::util::hex(&key_of(oi))));
                    if sv == 0 {
                        st.set_timestamp(Some(junk));
                    }
                    st.set_timestamp(ts);
                    conn.query(&st, None, scylla::response::PagingState::start()).await.is_ok()
                }
            };
            if !ok {
                errors += 1;
            }
            // the counting generator: not consulted for an explicit timestamp, asked once otherwise
            if gen_kind == "script" && *op != "v" && ok {
                let asked = scripted.calls.load(Ordering::SeqCst) - calls_before;
                match ts {
                    Some(t) if asked != 0 => ctx.fail(format!(
                        "e2e tsconn: statement #{} (`{}`) was given set_timestamp(Some({})), yet sending it asked the connection's timestamp generator {} time(s) (a generated timestamp was burnt)",
                        oi, op, t, asked
                    )),
                    None if asked != 1 => ctx.fail(format!(
                        "e2e tsconn: statement #{} (`{}`) without an explicit timestamp asked the connection's timestamp generator {} times in one call (expected exactly once, re-sent frames included)",
                        oi, op, asked
                    )),
                    _ => {}
                }
            }
        }
        // ------------------------------------------------------------------ oracle
        let op_of_key = |k: &[u8]| (k.len() == 3 && k[0] == 0xC8).then(|| ((k[1] as usize) << 8) | k[2] as usize);
        let handed = scripted.handed.lock().unwrap().clone();
        let mut frames = 0;
        let mut last_generated: Option<(usize, i64)> = None;
        for r in node.requests() {
            let (oi, ts) = match &r.parsed {
                Parsed::Execute { params, .. } => (params.values.first().and_then(|v| v.as_deref()).and_then(op_of_key), params.timestamp),
                Parsed::Batch { statements, timestamp, .. } => (
                    statements.iter().find_map(|s| if let BatchStmt::Prepared(_, v) = s { v.first().and_then(|v| v.as_deref()).and_then(op_of_key) } else { None }),
                    *timestamp,
                ),
                Parsed::Query { text, params } => (
                    text.strip_prefix("INSERT INTO ks.t (pk, v) VALUES (0x").and_then(|t| t.split(',').next()).and_then(crate::util::unhex).and_then(|k| op_of_key(&k)),
                    params.timestamp,
                ),
                _ => continue,
            };
            let Some(oi) = oi else { continue };
            if oi >= ops.len() {
                continue;
            }
            frames += 1;
            match (explicit[oi], ts) {
                (Some(want), got) if got != Some(want) => ctx.fail(format!(
                    "e2e tsconn: statement #{} (`{}`) was given set_timestamp(Some({})); a frame of it (frame {} of the connection) carries {:?}",
                    oi, ops[oi], want, r.seq, got
                )),
                (Some(_), _) => {}
                (None, None) if gen_kind == "none" => {}
                (None, Some(t)) if gen_kind == "none" => ctx.fail(format!("e2e tsconn: statement #{} carries timestamp {} although neither the statement nor the connection provides one", oi, t)),
                (None, None) => ctx.fail(format!("e2e tsconn: statement #{} arrived without a timestamp although the connection has a generator", oi)),
                (None, Some(t)) => {
                    if gen_kind == "script" && !handed.contains(&t) {
                        ctx.fail(format!("e2e tsconn: statement #{} carries timestamp {}, which the generator never handed out", oi, t));
                    }
                    if let Some((po, pt)) = last_generated {
                        if po != oi && t <= pt {
                            ctx.fail(format!("e2e tsconn: statement #{} was sent with timestamp {}, the later statement #{} with {}", po, pt, oi, t));
                        }
                    }
                    last_generated = Some((oi, last_generated.filter(|(po, _)| *po == oi).map_or(t, |(_, pt)| pt.max(t))));
                }
            }
        }
        format!("tsconn ops={} frames={} unprepared={} failed={}", ops.len(), frames, *unprepared.lock().unwrap(), errors)
    })
}

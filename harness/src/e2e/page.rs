//! C07 end-to-end: `e2e page n=<nodes> sh=<shards> kind=<query|exec> idem=<0|1> pages=<s0.s1...> faults=<none|kind@page,..>
//! slow=<0|1> seed=<s>`
//!
//! The result set is rows 0..N-1 (`pk` = 4-byte index, `v` = index) split into pages of the given sizes (0 = an empty
//! page); page j < last is returned with a paging state P_j (random bytes, distinct), the last one without. The cluster
//! answers a request carrying no paging state with page 0 and one carrying P_{j-1} with page j - whichever node gets
//! it. `faults`: the FIRST request for page j is answered with `un` Unavailable / `bs` IsBootstrapping / `rt`
//! ReadTimeout / `ov` Overloaded / `inv` Invalid instead, or the connection is closed (`drop`).
//! The stream (`Session::query_iter` / `execute_iter` -> `rows_stream`) is consumed to its end or first error.
//!
//! ORACLE (C07's statement; the page script is the reference, no model involved):
//!  * a stream that ends without error delivered exactly the rows of all pages, in order, each once;
//!  * a stream that ends with an error delivered exactly the rows of the pages before the faulted page the error
//!    belongs to, in order, each once (a failure surfaces after all rows of earlier pages, and only where a fault
//!    was injected);
//!  * every request carries either no paging state or one of the P_j (never anything else); the first carries none;
//!    the request sent after page j was served carries exactly P_j; a request is repeated only after a fault.
use super::common::*;
use crate::mockcluster::*;
use crate::mocknode::{Parsed, RESP_RESULT};
use crate::rng::Rng;
use crate::{Ctx, Tier};
use futures::StreamExt;
use std::sync::{Arc, Mutex};
use std::time::Duration;

const FAULTS: &[&str] = &["un", "bs", "rt", "ov", "inv", "drop"];

pub fn generate(rng: &mut Rng, tier: Tier, emit: &mut dyn FnMut(String)) {
    let mut cases: Vec<(Vec<usize>, String)> = Vec::new();
    // all compositions of <= 3 rows into <= 3 pages (incl. empty pages), no fault
    for pages in 1..=3usize {
        let mut sizes = vec![0usize; pages];
        loop {
            if sizes.iter().sum::<usize>() <= 3 {
                cases.push((sizes.clone(), "none".into()));
            }
            let mut i = 0;
            while i < pages {
                sizes[i] += 1;
                if sizes[i] <= 3 {
                    break;
                }
                sizes[i] = 0;
                i += 1;
            }
            if i == pages {
                break;
            }
        }
    }
    if tier == Tier::Quick {
        // a deterministic third of them
        cases = cases.into_iter().enumerate().filter(|(i, _)| i % 3 == 0).map(|(_, c)| c).collect();
    }
    let n_random = if tier == Tier::Quick { 50 } else { 600 };
    for _ in 0..n_random {
        let pages = 1 + rng.below(6) as usize;
        let sizes: Vec<usize> = (0..pages).map(|_| if rng.chance(1, 4) { 0 } else { rng.below(6) as usize }).collect();
        let mut faults = Vec::new();
        if rng.chance(3, 4) {
            let k = 1 + rng.below(2);
            let mut used = Vec::new();
            for _ in 0..k {
                let pg = rng.below(pages as u64);
                if !used.contains(&pg) {
                    used.push(pg);
                    faults.push(format!("{}@{}", rng.pick(FAULTS), pg));
                }
            }
        }
        cases.push((sizes, if faults.is_empty() { "none".into() } else { faults.join(",") }));
    }
    for (sizes, faults) in cases {
        emit(format!(
            "e2e page n={} sh={} kind={} idem={} pages={} faults={} slow={} seed={}",
            1 + rng.below(3),
            *rng.pick(&[0u64, 0, 2]),
            rng.pick(&["query", "exec"]),
            rng.below(2),
            sizes.iter().map(|s| s.to_string()).collect::<Vec<_>>().join("."),
            faults,
            if rng.chance(1, 5) { 1 } else { 0 },
            rng.below(1 << 32)
        ));
    }
}

fn fault_acts(kind: &str) -> Vec<Act> {
    match kind {
        "un" => vec![err_unavailable(0x0006, 2, 1)],
        "bs" => vec![act_error(0x1002, "bootstrapping", &[])],
        "rt" => vec![err_read_timeout(0x0006, 2, 2, false)],
        "ov" => vec![act_error(0x1001, "overloaded", &[])],
        "inv" => vec![act_error(0x2200, "invalid", &[])],
        _ => vec![Act::Close],
    }
}

/// What the nodes saw, in arrival order.
#[derive(Clone, Debug, PartialEq)]
enum Seen {
    /// page j requested and served
    Served(usize),
    /// page j requested and faulted
    Faulted(usize),
    /// a paging state that was never handed out
    Unknown(Vec<u8>),
}

pub fn run(words: &[&str], ctx: &mut Ctx) -> String {
    let Some(p) = Params::parse(words) else { return "bad-case".into() };
    let (Some(n), Some(sh), Some(idem), Some(slow), Some(seed)) =
        (p.num("n"), p.num_or("sh", 0), p.num_or("idem", 0), p.num_or("slow", 0), p.num_or("seed", 1))
    else {
        return "bad-case".into();
    };
    let kind = p.str("kind").unwrap_or("query");
    if !(1..=8).contains(&n) || sh > 8 || !["query", "exec"].contains(&kind) {
        return "bad-case".into();
    }
    let Some(sizes) = p.str("pages").and_then(|s| s.split('.').map(|x| x.parse::<usize>().ok()).collect::<Option<Vec<usize>>>()) else {
        return "bad-case".into();
    };
    if sizes.is_empty() || sizes.len() > 64 || sizes.iter().any(|s| *s > 1000) {
        return "bad-case".into();
    }
    let mut faults: Vec<(String, usize)> = Vec::new();
    match p.str("faults") {
        None | Some("none") => {}
        Some(s) => {
            for f in s.split(',') {
                let Some((k, pg)) = f.split_once('@') else { return "bad-case".into() };
                let Ok(pg) = pg.parse::<usize>() else { return "bad-case".into() };
                if !FAULTS.contains(&k) || pg >= sizes.len() || faults.iter().any(|x| x.1 == pg) {
                    return "bad-case".into();
                }
                faults.push((k.to_owned(), pg));
            }
        }
    }
    let n = n as usize;
    // page script
    let mut rng = Rng::new(seed ^ 0x7061_6765);
    let mut pages: Vec<Vec<i32>> = Vec::new();
    let mut next = 0i32;
    for s in &sizes {
        pages.push((next..next + *s as i32).collect());
        next += *s as i32;
    }
    let states: Vec<Vec<u8>> = (0..sizes.len().saturating_sub(1))
        .map(|j| {
            let len = rng.below(20) as usize;
            let mut st = rng.bytes(len);
            st.push(j as u8); // distinct, and never empty
            st.push((j >> 8) as u8);
            st
        })
        .collect();
    let shape = Shape { nodes: n, dcs: 1, racks: 1, shards: sh as u16, msb: 12, vnodes: 2, strat: Strat::Simple(1), seed };
    let seen: Arc<Mutex<Vec<Seen>>> = Arc::new(Mutex::new(Vec::new()));
    let (seen_h, pages_h, states_h, faults_h) = (Arc::clone(&seen), pages.clone(), states.clone(), faults.clone());
    let mut fired: Vec<usize> = Vec::new();
    let handler = with_std_prepare(move |r: &Req| {
        let params = match &r.parsed {
            Parsed::Query { text, params } if text == SELECT_ALL => params,
            Parsed::Execute { params, .. } => params,
            _ => return vec![act_void()],
        };
        let j = match &params.paging_state {
            None => 0,
            Some(ps) => match states_h.iter().position(|s| s == ps) {
                Some(j) => j + 1,
                None => {
                    seen_h.lock().unwrap().push(Seen::Unknown(ps.clone()));
                    return vec![act_error(0x2200, "unknown paging state", &[])];
                }
            },
        };
        if let Some((k, _)) = faults_h.iter().find(|f| f.1 == j) {
            if !fired.contains(&j) {
                fired.push(j);
                seen_h.lock().unwrap().push(Seen::Faulted(j));
                return fault_acts(k);
            }
        }
        seen_h.lock().unwrap().push(Seen::Served(j));
        let rows: Vec<Vec<Cell>> = pages_h[j].iter().map(|i| vec![Some(i.to_be_bytes().to_vec()), c_int(*i)]).collect();
        vec![Act::Respond(RESP_RESULT, rows_body(&row_specs(), !params.skip_metadata, states_h.get(j).map(|s| &s[..]), &rows))]
    });
    let rt = runtime(1);
    rt.block_on(async {
        use scylla::statement::unprepared::Statement;
        let cluster = MockCluster::start(shape.topology(), handler).await;
        let session = match connect(&cluster, |b| b).await {
            Ok(s) => s,
            Err(skip) => return skip,
        };
        let pager = if kind == "query" {
            let mut st = Statement::new(SELECT_ALL);
            st.set_is_idempotent(idem != 0);
            st.set_page_size(3);
            session.query_iter(st, ()).await
        } else {
            let mut ps = match session.prepare(SELECT_ALL).await {
                Ok(ps) => ps,
                Err(_) => return "e2e-skip prepare-failed".to_owned(),
            };
            ps.set_is_idempotent(idem != 0);
            ps.set_page_size(3);
            session.execute_iter(ps, ()).await
        };
        let mut got: Vec<i32> = Vec::new();
        let mut failed = false;
        let consume = async {
            match pager {
                Err(_) => failed = true,
                Ok(pager) => match pager.rows_stream::<(Vec<u8>, i32)>() {
                    Err(_) => {
                        ctx.fail("e2e page: the result metadata sent by the node was rejected by rows_stream::<(Vec<u8>, i32)>");
                        failed = true;
                    }
                    Ok(mut stream) => {
                        while let Some(item) = stream.next().await {
                            match item {
                                Ok((pk, v)) => {
                                    if pk != v.to_be_bytes() {
                                        ctx.fail(format!("e2e page: row with pk {:?} carries v {}", pk, v));
                                    }
                                    got.push(v);
                                    if slow != 0 {
                                        tokio::time::sleep(Duration::from_millis(1)).await;
                                    }
                                }
                                Err(_) => {
                                    failed = true;
                                    break;
                                }
                            }
                        }
                    }
                },
            }
        };
        if tokio::time::timeout(Duration::from_secs(40), consume).await.is_err() {
            ctx.fail("e2e page: the row stream neither ended nor failed within 40 s");
            return "hang".to_owned();
        }
        // ------------------------------------------------------------------ oracle
        let seen = seen.lock().unwrap().clone();
        let all: Vec<i32> = pages.iter().flatten().copied().collect();
        let what = format!("pages {:?} faults {:?}", sizes, faults);
        // (1) requests: page indexes in order, a repeat only after a fault
        let mut expect = 0usize; // the page the next request must ask for
        let mut last_faulted: Option<usize> = None;
        for (i, s) in seen.iter().enumerate() {
            match s {
                Seen::Unknown(ps) => {
                    ctx.fail(format!("e2e page: request {} carried a paging state {:?} that no page returned; {}", i, crate::util::hex(ps), what));
                    break;
                }
                Seen::Served(j) | Seen::Faulted(j) => {
                    if *j != expect {
                        ctx.fail(format!(
                            "e2e page: request {} asked for page {} (paging state {}), but the state returned last was that of page {}; seen {:?}; {}",
                            i,
                            j,
                            if *j == 0 { "none".to_owned() } else { crate::util::hex(&states[*j - 1]) },
                            expect as i64 - 1,
                            seen,
                            what
                        ));
                        break;
                    }
                    if matches!(s, Seen::Served(_)) {
                        expect = j + 1;
                        last_faulted = None;
                    } else {
                        last_faulted = Some(*j);
                    }
                }
            }
        }
        // (2) rows
        if !failed {
            if got != all {
                ctx.fail(format!("e2e page: the stream ended normally with rows {:?}, the pages hold {:?}; {}", got, all, what));
            }
        } else {
            match last_faulted {
                None => ctx.fail(format!("e2e page: the stream failed although the last request was served; rows {:?}; seen {:?}; {}", got, seen, what)),
                Some(k) => {
                    let before: Vec<i32> = pages[..k].iter().flatten().copied().collect();
                    if got != before {
                        ctx.fail(format!(
                            "e2e page: the failure on page {} surfaced after rows {:?}; the earlier pages hold {:?}; {}",
                            k, got, before, what
                        ));
                    }
                }
            }
        }
        format!("page rows={} requests={} {}", got.len(), seen.len(), if failed { "err" } else { "end" })
    })
}

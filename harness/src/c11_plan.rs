//! C11: the OTHER place where the driver produces a shard number - `Plan::with_random_shard_if_unknown`
//! (`scylla/src/policies/load_balancing/plan.rs:94-107`): a policy returned `(node, None)` and the plan draws
//! `random_range(0..nr_shards)` (1 for a node without a sharder).
//!
//! `planfill <nr_shards per node, 0 = unsharded> <pick: none|node index> <reps>`: the REAL `Plan::new` (public) over C13's
//! scripted policy (`c13_lbscript::ScriptedLb`, every entry without a shard) on a hook-built cluster with per-node
//! sharders, iterated `reps` times. Output: `max <largest shard seen per node> yields <entries yielded>`.
//! Oracle: every yielded shard is below its node's shard count (0 for an unsharded node).
use crate::c13_lbscript::{NodeKey, ScriptedLb};
use crate::rng::Rng;
use crate::{Ctx, Tier};
use scylla::policies::load_balancing::{Plan, RoutingInfo};
use scylla::verif_hooks::cluster::{NodeSpec, cluster_from_topology, set_sharders};

fn host_id(i: usize) -> uuid::Uuid {
    uuid::Uuid::from_u128(0xC11_0000_0000_0000_0000_0000_0000_0000u128 + i as u128 + 1)
}

pub fn generate(rng: &mut Rng, tier: Tier, emit: &mut dyn FnMut(String)) {
    let scale: u64 = if tier == Tier::Quick { 1 } else { 12 };
    // every node shape on its own, then mixed clusters
    for k in [0u16, 1, 2, 3, 7, 64, 65535] {
        for pick in ["none", "0"] {
            // an off-by-one in the range shows with probability 1/(k+1) per draw: many more draws for the largest count
            emit(format!("planfill {} {} {}", k, pick, if k == 65535 { 250_000 } else { 3000 }));
        }
    }
    for _ in 0..40 * scale {
        let n = rng.range(1, 6) as usize;
        let shards: Vec<String> = (0..n)
            .map(|_| match rng.below(6) {
                0 => 0u16,
                1 => 1,
                2 => *rng.pick(&[64u16, 255, 256, 65535]),
                _ => rng.range(2, 9) as u16,
            })
            .map(|k| k.to_string())
            .collect();
        let pick = if rng.bool() { "none".to_owned() } else { rng.below(n as u64).to_string() };
        emit(format!("planfill {} {} {}", shards.join(","), pick, rng.range(500, 2000)));
    }
}

pub fn run(w: &[&str], ctx: &mut Ctx) -> Option<String> {
    if w[0] != "planfill" {
        return None;
    }
    Some(run_planfill(w, ctx))
}

fn run_planfill(w: &[&str], ctx: &mut Ctx) -> String {
    if w.len() != 4 {
        return "bad-case".into();
    }
    let Some(shards) = w[1].split(',').map(|x| x.parse::<u16>().ok()).collect::<Option<Vec<u16>>>() else { return "bad-case".into() };
    let n = shards.len();
    if n == 0 || n > 8 {
        return "bad-case".into();
    }
    let pick: Option<usize> = match w[2] {
        "none" => None,
        t => match t.parse::<usize>() {
            Ok(i) if i < n => Some(i),
            _ => return "bad-case".into(),
        },
    };
    let Ok(reps) = w[3].parse::<u32>() else { return "bad-case".into() };
    let nodes: Vec<NodeSpec> = (0..n)
        .map(|i| NodeSpec {
            host_id: host_id(i),
            datacenter: Some("dc1".to_owned()),
            rack: Some("r1".to_owned()),
            tokens: vec![(i as i64 + 1) * 1000],
            enabled: true,
            connected: true,
        })
        .collect();
    let rt = crate::mockcluster::runtime(1);
    let cs = rt.block_on(cluster_from_topology(&nodes, &[]));
    let sharders: std::collections::HashMap<uuid::Uuid, (u16, u8)> =
        shards.iter().enumerate().filter(|(_, k)| **k > 0).map(|(i, k)| (host_id(i), (*k, 12u8))).collect();
    set_sharders(&cs, &sharders);
    let policy = ScriptedLb {
        pick: pick.map(|i| (NodeKey::Host(host_id(i)), None)),
        fallback: (0..n).map(|i| (NodeKey::Host(host_id(i)), None)).collect(),
    };
    let ri = RoutingInfo::default();
    let mut max: Vec<Option<u32>> = vec![None; n];
    let mut yields = 0u64;
    let mut reported = false;
    for _ in 0..reps {
        for (nd, s) in Plan::new(&policy, &ri, &cs) {
            let Some(i) = (0..n).find(|i| host_id(*i) == nd.host_id) else {
                ctx.fail("Plan yields a node the policy did not name".to_owned());
                continue;
            };
            yields += 1;
            // the sharder the node REALLY has (not the case's word for it)
            let count = nd.sharder().map(|sh| sh.nr_shards.get() as u32).unwrap_or(1);
            if count != if shards[i] == 0 { 1 } else { shards[i] as u32 } {
                return "skip sharder-not-installed".into();
            }
            if s >= count && !reported {
                reported = true;
                ctx.fail(format!(
                    "Plan filled in shard {s} for a node with {count} shard(s) (sharder: {}): a produced shard must be below the shard count",
                    if shards[i] == 0 { "none".to_owned() } else { shards[i].to_string() }
                ));
            }
            max[i] = Some(max[i].map_or(s, |m| m.max(s)));
        }
    }
    format!("max {} yields {}", max.iter().map(|m| m.map_or("-".to_owned(), |m| m.to_string())).collect::<Vec<_>>().join(","), yields)
}

//! SplitMix64: every random choice of the harness derives from one seed, so a case file replays exactly.
pub struct Rng(u64);

impl Rng {
    pub fn new(seed: u64) -> Self {
        Rng(seed ^ 0x9E37_79B9_7F4A_7C15)
    }
    pub fn next(&mut self) -> u64 {
        self.0 = self.0.wrapping_add(0x9E37_79B9_7F4A_7C15);
        let mut z = self.0;
        z = (z ^ (z >> 30)).wrapping_mul(0xBF58_476D_1CE4_E5B9);
        z = (z ^ (z >> 27)).wrapping_mul(0x94D0_49BB_1331_11EB);
        z ^ (z >> 31)
    }
    /// uniform in [0, n)
    pub fn below(&mut self, n: u64) -> u64 {
        if n == 0 { 0 } else { self.next() % n }
    }
    /// uniform in [lo, hi]
    pub fn range(&mut self, lo: i64, hi: i64) -> i64 {
        let span = (hi as i128 - lo as i128 + 1) as u128;
        (lo as i128 + (self.next() as u128 % span) as i128) as i64
    }
    pub fn bool(&mut self) -> bool {
        self.next() & 1 == 1
    }
    pub fn chance(&mut self, num: u64, den: u64) -> bool {
        self.below(den) < num
    }
    pub fn pick<'a, T>(&mut self, xs: &'a [T]) -> &'a T {
        &xs[self.below(xs.len() as u64) as usize]
    }
    pub fn bytes(&mut self, n: usize) -> Vec<u8> {
        (0..n).map(|_| self.next() as u8).collect()
    }
    pub fn shuffle<T>(&mut self, xs: &mut [T]) {
        for i in (1..xs.len()).rev() {
            let j = self.below(i as u64 + 1) as usize;
            xs.swap(i, j);
        }
    }
    /// boundary-heavy i64
    pub fn i64_boundary(&mut self) -> i64 {
        match self.below(8) {
            0 => *self.pick(&[0, 1, -1, i64::MIN, i64::MAX, i64::MIN + 1, i64::MAX - 1]),
            1 => {
                let k = self.below(63) as u32;
                let b = 1i64 << k;
                *self.pick(&[b, b - 1, b.wrapping_add(1), -b, (-b).wrapping_sub(1), -b + 1])
            }
            2 => self.range(-300, 300),
            _ => self.next() as i64,
        }
    }
}

//! C11 — shard of a token and shard-aware source ports.
use crate::rng::Rng;
use crate::util::nat_list;
use crate::{Ctx, Tier};
use scylla::routing::{ShardAwarePortRange, ShardCount, Sharder, Token};
use scylla::verif_hooks::sharding as hooks;
use std::collections::HashMap;

fn shard_count(rng: &mut Rng) -> u16 {
    match rng.below(6) {
        0 => rng.range(1, 64) as u16,
        1 => *rng.pick(&[1, 2, 3, 255, 256, 257, 1023, 1024, 32767, 32768, 65534, 65535]),
        2 => rng.range(1, 65535) as u16,
        _ => rng.range(1, 300) as u16,
    }
}

/// `msb_ignore`: all of `u8` - ScyllaDB sends 12; 64..=255 is accepted by `ShardInfo::new` as well.
fn msb_ignore(rng: &mut Rng) -> u8 {
    match rng.below(12) {
        0..=3 => 12,
        4 => *rng.pick(&[63u8, 64, 65, 127, 128, 255]),
        5 => rng.range(64, 255) as u8,
        _ => rng.below(64) as u8,
    }
}

fn port_range(rng: &mut Rng, n: u16) -> (u16, u16) {
    match rng.below(6) {
        // short range near the top (shorter than n, ending at 65535)
        0 => {
            let len = rng.range(0, (n as i64 * 2).min(400)) as u16;
            (65535 - len, 65535)
        }
        1 => (49152, 65535),
        2 => {
            let lo = rng.range(1024, 65535) as u16;
            let hi = rng.range(lo as i64, (lo as i64 + 3 * n as i64 + 2).min(65535)) as u16;
            (lo, hi)
        }
        3 => {
            let lo = rng.range(65400, 65535) as u16;
            (lo, rng.range(lo as i64, 65535) as u16)
        }
        _ => {
            let lo = rng.range(1024, 65535) as u16;
            (lo, rng.range(lo as i64, 65535) as u16)
        }
    }
}

pub fn generate(rng: &mut Rng, tier: Tier, emit: &mut dyn FnMut(String)) {
    let scale = if tier == Tier::Quick { 1 } else { 25 };
    // shard_of: exhaustive small n x msb grid on boundary tokens, then random
    let boundary: [i64; 9] = [i64::MIN, i64::MIN + 1, -1, 0, 1, i64::MAX - 1, i64::MAX, 1 << 62, -(1 << 62)];
    for n in 1..=64u16 {
        // 64..=255: values `ShardInfo::new` accepts (SCYLLA_SHARDING_IGNORE_MSB is parsed as a u8, no range test); every
        // bit of the token is ignored then, the shard is 0, and nothing may overflow
        for msb in [0u8, 1, 7, 12, 31, 32, 62, 63, 64, 65, 127, 128, 200, 255] {
            for t in boundary {
                emit(format!("shard {} {} {}", n, msb, t));
                // the same token through `FromStr` (no normalisation of i64::MIN: biased token 0)
                emit(format!("shardraw {} {} {}", n, msb, t));
            }
        }
    }
    for _ in 0..2_000 * scale {
        let n = shard_count(rng);
        let msb = msb_ignore(rng);
        emit(format!("shardraw {} {} {}", n, msb, rng.i64_boundary()));
    }
    for _ in 0..20_000 * scale {
        let n = shard_count(rng);
        let msb = msb_ignore(rng);
        emit(format!("shard {} {} {}", n, msb, rng.i64_boundary()));
    }
    // tokens at the shard boundaries: the smallest biased token whose shifted value reaches
    // ceil(k * 2^64 / n), and its two neighbours - for every k when n is small, sampled k otherwise.
    // (A boundary is where any loss of precision in the 128-bit multiply shows; for powers of two
    // every boundary is a multiple of 2^48, so non-powers of two matter most.)
    let mut boundary_ns: Vec<u16> = (1..=40).collect();
    boundary_ns.extend_from_slice(&[48, 63, 64, 65, 96, 100, 127, 128, 129, 255, 256, 257, 1000, 4095, 4097, 32767, 32769, 65535]);
    for &n in &boundary_ns {
        for msb in [0u8, 1, 12, 31, 47, 63] {
            let ks: Vec<u64> = if n <= 40 { (1..n as u64).collect() } else { (0..24).map(|_| 1 + rng.below(n as u64 - 1)).collect() };
            for k in ks {
                // b = ceil(k * 2^64 / n) in the shifted space
                let b = (((k as u128) << 64) + (n as u128 - 1)) / n as u128;
                // shifted values are multiples of 2^msb: round b up to one
                let step = 1u128 << msb;
                let sb = (b + step - 1) / step * step;
                if sb >= 1u128 << 64 {
                    continue;
                }
                let low = (sb >> msb) as u64; // low (64 - msb) bits of the biased token
                let high = if msb == 0 { 0 } else { rng.next() << (64 - msb as u32) };
                let biased = high | low;
                for d in [-1i64, 0, 1] {
                    let t = biased.wrapping_add(d as u64).wrapping_sub(1u64 << 63) as i64;
                    emit(format!("shard {} {} {}", n, msb, t));
                }
            }
        }
    }
    // the algorithm of the property statement on unbounded naturals (model `shardOfSpec`) against the same
    // algorithm written out here in u128 arithmetic and against `shard_of` on the raw token
    for _ in 0..1_000 * scale {
        let n = shard_count(rng);
        let msb = msb_ignore(rng);
        emit(format!("shardspec {} {} {}", n, msb, rng.i64_boundary()));
    }
    for _ in 0..2_000 * scale {
        emit(format!("port {} {}", shard_count(rng), rng.below(65536)));
    }
    // ports: exhaustive corner sweep (n <= 12, lo,hi in 65500..=65535), then random
    let top = if tier == Tier::Quick { 65520u16 } else { 65480 };
    for n in 1..=12u16 {
        for lo in top..=65535 {
            for hi in lo..=65535 {
                let s = ((lo as u32 + hi as u32) % n as u32) as u16; // one shard per cell (varies)
                emit(format!("lowest {} {} {} {}", n, s, lo, hi));
                if (lo as u32 + hi as u32) % 3 == 0 {
                    emit(format!("iter {} {} {} {}", n, s, lo, hi));
                }
            }
        }
    }
    for _ in 0..3_000 * scale {
        let n = shard_count(rng);
        let s = rng.below(n as u64);
        let (lo, hi) = port_range(rng, n);
        emit(format!("lowest {} {} {} {}", n, s, lo, hi));
        emit(format!("iter {} {} {} {}", n, s, lo, hi));
        emit(format!("draw {} {} {} {} {}", n, s, lo, hi, 40));
    }
    // SUPPORTED parsing
    for _ in 0..2_000 * scale {
        let n = match rng.below(5) {
            0 => 0,
            1 => 65536,
            _ => shard_count(rng) as u32,
        };
        let shard = match rng.below(5) {
            0 => n,
            1 => n.saturating_sub(1),
            2 => 65536,
            _ => rng.below(n.max(1) as u64 + 2) as u32,
        };
        let msb = *rng.pick(&[0u32, 12, 63, 64, 255, 256]);
        emit(format!("shardinfo {} {} {}", shard, n, msb));
    }
    // the whole `try_from`: every combination of {absent, empty list, not a number, boundary numbers, the corners of
    // `parse::<u16>`'s accept set: `+5` and `007` are numbers, `1_0` and the empty string are not} per entry
    let words = crate::c11_conn::NUM_WORDS;
    for a in words {
        for b in words {
            for c in words {
                emit(format!("shardopts {} {} {}", a, b, c));
            }
        }
    }
    // second layer: the consumer loop, the public wrappers, ShardAwarePortRange::new, SUPPORTED as open_connection keeps it
    crate::c11_conn::generate(rng, tier, emit);
    // the random shard fill-in of the load-balancing plan
    crate::c11_plan::generate(rng, tier, emit);
}

/// `(x * 2^k) mod 2^64` for ANY `k` (0..=255 here), without a 64-bit shift: zero as soon as `k >= 64`.
fn shl64(x: u64, k: u32) -> u64 {
    if k >= 64 { 0 } else { (((x as u128) << k) & ((1u128 << 64) - 1)) as u64 }
}

fn opt(p: Option<u16>) -> String {
    p.map(|p| p.to_string()).unwrap_or_else(|| "none".to_owned())
}

pub fn run(case: &str, ctx: &mut Ctx) -> String {
    let w: Vec<&str> = case.split_whitespace().collect();
    if w.is_empty() {
        return "bad-case".to_owned();
    }
    if let Some(out) = crate::c11_conn::run(&w, ctx) {
        return out;
    }
    if let Some(out) = crate::c11_plan::run(&w, ctx) {
        return out;
    }
    let num = |i: usize| -> i64 { w[i].parse().unwrap() };
    match w[0] {
        "shard" => {
            let n = num(1) as u16;
            let sharder = Sharder::new(ShardCount::new(n).unwrap(), num(2) as u8);
            let s = sharder.shard_of(Token::new(num(3)));
            if s >= n as u32 {
                ctx.fail(format!("shard_of {} >= nr_shards {}", s, n));
            }
            // ScyllaDB's algorithm written out literally (the property statement): bias by 2^63, shift left
            // by the ignored bits, multiply by the shard count, take the high 64 bits
            let tok = Token::new(num(3)).value();
            let biased = (tok as u64).wrapping_add(1u64 << 63);
            // (in u128, so that nothing depends on how a 64-bit shift treats an amount of 64 or more: what leaves the
            // 64-bit word is dropped, and with msb_ignore >= 64 everything leaves it)
            let shifted = shl64(biased, num(2) as u32);
            let expected = ((shifted as u128 * n as u128) >> 64) as u32;
            if s != expected {
                ctx.fail(format!("shard_of = {} but ScyllaDB's algorithm gives {} (nr_shards {}, msb_ignore {}, token {})", s, expected, n, num(2), tok));
            }
            s.to_string()
        }
        "shardraw" => {
            // the token comes from `FromStr` (sharding.rs:78-83), which does NOT normalise i64::MIN
            let n = num(1) as u16;
            let sharder = Sharder::new(ShardCount::new(n).unwrap(), num(2) as u8);
            let token: Token = w[3].parse().unwrap();
            let s = sharder.shard_of(token);
            if s >= n as u32 {
                ctx.fail(format!("shard_of {} >= nr_shards {}", s, n));
            }
            let biased = (token.value() as u64).wrapping_add(1u64 << 63);
            let shifted = shl64(biased, num(2) as u32);
            let expected = ((shifted as u128 * n as u128) >> 64) as u32;
            if s != expected {
                ctx.fail(format!("shard_of = {} but ScyllaDB's algorithm gives {} (nr_shards {}, msb_ignore {}, raw token {})", s, expected, n, num(2), token.value()));
            }
            s.to_string()
        }
        "shardspec" => {
            // (((token + 2^63) * 2^msb) mod 2^64 * n) / 2^64 with nothing but u128 arithmetic; msb 0..=255
            let (n, msb, tok) = (num(1) as u16, num(2) as u32, num(3));
            if msb > 255 {
                return "bad-case".to_owned();
            }
            let biased = (tok as i128 + (1i128 << 63)) as u128; // 0 ..= 2^64 - 1
            // biased < 2^64: shifting by 64 or more leaves nothing below 2^64 (and u128 holds a shift below 64 exactly)
            let shifted = if msb >= 64 { 0 } else { (biased << msb) & ((1u128 << 64) - 1) };
            let spec = ((shifted * n as u128) >> 64) as u32;
            let token: Token = w[3].parse().unwrap();
            let s = Sharder::new(ShardCount::new(n).unwrap(), msb as u8).shard_of(token);
            if s != spec {
                ctx.fail(format!("shard_of = {} but ScyllaDB's algorithm on naturals gives {} (nr_shards {}, msb_ignore {}, raw token {})", s, spec, n, msb, tok));
            }
            spec.to_string()
        }
        "port" => {
            let n = num(1) as u16;
            let sharder = Sharder::new(ShardCount::new(n).unwrap(), 0);
            sharder.shard_of_source_port(num(2) as u16).to_string()
        }
        "lowest" | "iter" | "draw" => {
            let n = num(1) as u16;
            let s = num(2) as u16;
            let (lo, hi) = (num(3) as u16, num(4) as u16);
            let sharder = Sharder::new(ShardCount::new(n).unwrap(), 0);
            let range = ShardAwarePortRange::new(lo..=hi).unwrap();
            // model-independent oracle: brute-force set of valid ports
            let valid: Vec<u16> = (lo..=hi).filter(|p| p % n == s).collect();
            match w[0] {
                "lowest" => {
                    let p = hooks::lowest_port_for_shard_in_range(&sharder, s, &range);
                    if p != valid.first().copied() {
                        ctx.fail(format!("lowest port {:?}, brute force says {:?}", p, valid.first()));
                    }
                    opt(p)
                }
                "iter" => {
                    let ps = hooks::iter_source_ports_for_shard_from_range(&sharder, s as u32, &range);
                    let mut sorted = ps.clone();
                    sorted.sort_unstable();
                    if sorted != valid {
                        ctx.fail(format!(
                            "iterator visits {} ports, valid set has {} (first difference matters)",
                            ps.len(),
                            valid.len()
                        ));
                    }
                    nat_list(&ps)
                }
                _ => {
                    let k = num(5);
                    let mut seen: Vec<u16> = Vec::new();
                    let mut none = false;
                    for _ in 0..k {
                        match hooks::draw_source_port_for_shard_from_range(&sharder, s as u32, &range) {
                            Some(p) => {
                                if !valid.contains(&p) {
                                    ctx.fail(format!("drawn port {} not valid for shard {} mod {} in [{},{}]", p, s, n, lo, hi));
                                }
                                seen.push(p)
                            }
                            None => none = true,
                        }
                    }
                    if none != valid.is_empty() {
                        ctx.fail(format!("draw returned None={} but valid ports empty={}", none, valid.is_empty()));
                    }
                    if none && seen.is_empty() {
                        "none".to_owned()
                    } else {
                        seen.sort_unstable();
                        seen.dedup();
                        nat_list(&seen)
                    }
                }
            }
        }
        "shardinfo" => {
            let mut options: HashMap<String, Vec<String>> = HashMap::new();
            options.insert("SCYLLA_SHARD".into(), vec![w[1].into()]);
            options.insert("SCYLLA_NR_SHARDS".into(), vec![w[2].into()]);
            options.insert("SCYLLA_SHARDING_IGNORE_MSB".into(), vec![w[3].into()]);
            match hooks::shard_info_from_options(&options) {
                Ok((s, n, m)) => {
                    if s >= n || n == 0 {
                        ctx.fail(format!("accepted shard info shard={} nr_shards={}", s, n));
                    }
                    format!("ok {} {} {}", s, n, m)
                }
                Err(e) => format!("err {}", e),
            }
        }
        "shardopts" => {
            // the whole `ShardInfo::try_from`: `-` = key absent, `e` = empty value list, else the first value
            let mut options: HashMap<String, Vec<String>> = HashMap::new();
            for (key, word) in ["SCYLLA_SHARD", "SCYLLA_NR_SHARDS", "SCYLLA_SHARDING_IGNORE_MSB"].iter().zip(&w[1..4]) {
                match *word {
                    "-" => {}
                    "e" => {
                        options.insert((*key).into(), vec![]);
                    }
                    v => {
                        // a second value must be ignored: only the first one counts; `""` stands for the empty string
                        let v = if v == "\"\"" { "" } else { v };
                        options.insert((*key).into(), vec![v.into(), "7".into()]);
                    }
                }
            }
            match hooks::shard_info_from_options(&options) {
                Ok((s, n, m)) => {
                    if s >= n || n == 0 {
                        ctx.fail(format!("accepted shard info shard={} nr_shards={}", s, n));
                    }
                    // a number here: ASCII digits after at most one `+` (written out, not through `parse`)
                    let is_number = |x: &&str| {
                        let d = x.strip_prefix('+').unwrap_or(x);
                        !d.is_empty() && d.bytes().all(|b| b.is_ascii_digit())
                    };
                    if !w[1..4].iter().all(is_number) {
                        ctx.fail(format!("accepted shard info although an entry is missing or not a number: {:?}", &w[1..4]));
                    }
                    format!("ok {} {} {}", s, n, m)
                }
                Err(e) => {
                    if e == "noShardInfo" && w[1..4].iter().any(|x| *x != "-") {
                        ctx.fail("reported `no sharding info` (a Cassandra node) although an entry is present".to_owned());
                    }
                    format!("err {}", e)
                }
            }
        }
        _ => "bad-case".to_owned(),
    }
}

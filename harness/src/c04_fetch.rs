//! C04, metadata glue: `system.local` / `system.peers` rows -> `Peer` -> ring, replication option map -> `Strategy`
//! (`scylla/src/cluster/metadata/fetching.rs`, through the `verif_hooks::fetching` pass-throughs).
//!
//! Cases (Lean side: `lean/ScyllaVerif/Drive/C04Fetch.lean`):
//! * `p <L|P> <row>`      one row through `create_peer_from_row`; output `skip` | `peer id=.. dc=.. rack=.. tokens=..`
//! * `v <token counts|->` `validate_peers`; output `ok` | `err empty-peers` | `err empty-token-lists`
//! * `s <options>`        `strategy_from_string_map`; output `simple rf` | `nts dc=rf,..` | `local` | `other name n` | `err ..`
//! * `m <rows> <options|options|..> <keyspace index> <dc|-> <token>`  rows + keyspace rows -> `ClusterState` (hook
//!   `cluster_state_general`) -> the replica set of that keyspace's strategy; output
//!   `dummies=<id:token,..|-> len=.. iter=.. ..` | `invalid <empty-peers|empty-token-lists|strategy>` (a refused fetch:
//!   `validate_peers` failed, or some replication map is unreadable - that fails the WHOLE fetch in `query_keyspaces`).
//!
//! text := lowercase hex of the ASCII bytes, `-` = empty string; tokens := `null` | `[]` | text,text,..;
//! row := host:dc:rack:tokens (decimal or `-` = null); options := text=text,.. | `-`.
//!
//! Oracle, from the property (the servers place data only on token owners, by the strategy the keyspace row
//! states): the harness reads rows and option maps with its OWN few-line readers (below) - a null / empty token
//! list owns nothing, decimal tokens are owned exactly, an unreadable list yields exactly one token - and judges the
//! state built from rows with the placement rules and against a cluster built from scratch from that reading.
use crate::c04::check_state;
use crate::rng::Rng;
use crate::topology::*;
use crate::util::{hex, unhex};
use crate::{Ctx, Tier};
use scylla::cluster::metadata::{Peer, Strategy};
use scylla::verif_hooks::cluster::{KeyspaceSpec, NodeSpec, cluster_state_general};
use scylla::verif_hooks::fetching::{peer_from_row, strategy_from_options, validate_peers};
use std::collections::HashMap;
use std::net::{IpAddr, Ipv4Addr};

#[derive(Clone, Debug)]
struct Row {
    host: Option<u64>,
    dc: Option<u32>,
    rack: Option<u32>,
    tokens: Option<Vec<String>>,
}

fn text(s: &str) -> Option<String> {
    let b = unhex(s)?;
    if b.iter().all(|c| *c < 128) { String::from_utf8(b).ok() } else { None }
}

fn parse_tokens_field(s: &str) -> Option<Option<Vec<String>>> {
    match s {
        "null" => Some(None),
        "[]" => Some(Some(vec![])),
        _ => s.split(',').map(text).collect::<Option<Vec<_>>>().map(Some),
    }
}

fn opt_u<T: std::str::FromStr>(s: &str) -> Option<Option<T>> {
    if s == "-" { Some(None) } else { s.parse().ok().map(Some) }
}

fn parse_row(s: &str) -> Option<Row> {
    let f: Vec<&str> = s.split(':').collect();
    if f.len() != 4 {
        return None;
    }
    Some(Row { host: opt_u(f[0])?, dc: opt_u(f[1])?, rack: opt_u(f[2])?, tokens: parse_tokens_field(f[3])? })
}

fn parse_rows(s: &str) -> Option<Vec<Row>> {
    if s == "-" { Some(vec![]) } else { s.split(';').map(parse_row).collect() }
}

fn parse_options(s: &str) -> Option<Vec<(String, String)>> {
    if s == "-" {
        return Some(vec![]);
    }
    let mut out: Vec<(String, String)> = Vec::new();
    for p in s.split(',') {
        let (k, v) = p.split_once('=')?;
        let (k, v) = (text(k)?, text(v)?);
        if out.iter().any(|e| e.0 == k) {
            return None;
        }
        out.push((k, v));
    }
    Some(out)
}

fn fmt_tokens(t: &Option<Vec<String>>) -> String {
    match t {
        None => "null".into(),
        Some(v) if v.is_empty() => "[]".into(),
        Some(v) => v.iter().map(|s| hex(s.as_bytes())).collect::<Vec<_>>().join(","),
    }
}

fn fmt_opt<T: ToString>(o: &Option<T>) -> String {
    o.as_ref().map(|x| x.to_string()).unwrap_or_else(|| "-".into())
}

fn fmt_row(r: &Row) -> String {
    format!("{}:{}:{}:{}", fmt_opt(&r.host), fmt_opt(&r.dc), fmt_opt(&r.rack), fmt_tokens(&r.tokens))
}

fn fmt_options(m: &[(String, String)]) -> String {
    if m.is_empty() {
        "-".into()
    } else {
        m.iter().map(|(k, v)| format!("{}={}", hex(k.as_bytes()), hex(v.as_bytes()))).collect::<Vec<_>>().join(",")
    }
}

// ---------------------------------------------------------------------------------------------
// the oracle's own readers (written from the property / the CQL documentation, not from the driver)

/// A decimal 64-bit signed integer: optional sign, digits only, in range.
fn oracle_i64(s: &str) -> Option<i64> {
    let (neg, digits) = match s.as_bytes().first() {
        Some(b'-') => (true, &s[1..]),
        Some(b'+') => (false, &s[1..]),
        _ => (false, s),
    };
    if digits.is_empty() || !digits.bytes().all(|b| b.is_ascii_digit()) {
        return None;
    }
    let mut v: i128 = 0;
    for b in digits.bytes() {
        v = v * 10 + (b - b'0') as i128;
        if v > (1i128 << 64) {
            return None;
        }
    }
    let v = if neg { -v } else { v };
    i64::try_from(v).ok()
}

/// A decimal unsigned 64-bit integer: optional `+`, digits only, in range.
fn oracle_usize(s: &str) -> Option<usize> {
    let d = s.strip_prefix('+').unwrap_or(s);
    if d.is_empty() || d.len() > 30 || !d.bytes().all(|b| b.is_ascii_digit()) {
        return None;
    }
    d.parse::<u128>().ok().and_then(|v| u64::try_from(v).ok()).map(|v| v as usize)
}

enum Owned {
    Nothing,
    Exactly(Vec<i64>),
    OneUnknown,
}

fn oracle_tokens(t: &Option<Vec<String>>) -> Owned {
    match t {
        None => Owned::Nothing,
        Some(v) if v.is_empty() => Owned::Nothing,
        Some(v) => match v.iter().map(|s| oracle_i64(s)).collect::<Option<Vec<i64>>>() {
            Some(l) => Owned::Exactly(l),
            None => Owned::OneUnknown,
        },
    }
}

/// The strategy a keyspace row states; `None` = the row is not understood (the keyspace's fetch fails).
pub(crate) fn oracle_strategy(m: &[(String, String)]) -> Option<Strat> {
    let class = &m.iter().find(|e| e.0 == "class")?.1;
    let short = class.strip_prefix("org.apache.cassandra.locator.").unwrap_or(class);
    match short {
        "SimpleStrategy" => m.iter().find(|e| e.0 == "replication_factor").and_then(|e| oracle_usize(&e.1)).map(Strat::Simple),
        "NetworkTopologyStrategy" => {
            let mut v: Vec<(u32, usize)> = Vec::new();
            for (i, (k, val)) in m.iter().filter(|e| e.0 != "class").enumerate() {
                let rf = oracle_usize(val)?;
                // datacenter names other than dc<n> match no ring datacenter
                // only the exact spelling dc<canonical decimal> names a ring datacenter ("dc01", "dc1_0" are other names)
                let dc = k.strip_prefix("dc").and_then(|n| n.parse::<u32>().ok().filter(|v| v.to_string() == n && *v < 1_000_000));
                v.push((dc.unwrap_or(1_000_000 + i as u32), rf));
            }
            Some(Strat::Nts(v))
        }
        "LocalStrategy" => Some(Strat::Local),
        _ => Some(Strat::Other),
    }
}

// ---------------------------------------------------------------------------------------------

async fn row_to_peer(local: bool, idx: usize, r: &Row) -> Option<Peer> {
    peer_from_row(
        local,
        r.host.map(host_id),
        IpAddr::V4(Ipv4Addr::new(127, 0, (idx / 250) as u8, (idx % 250) as u8 + 1)),
        r.dc.map(dc_name),
        r.rack.map(rack_name),
        r.tokens.clone(),
        9042,
    )
    .await
}

fn name_num(s: &Option<String>, prefix: &str) -> String {
    match s {
        None => "-".into(),
        Some(n) => n.strip_prefix(prefix).unwrap_or("?").to_owned(),
    }
}

/// Checks one `Peer` against the oracle's reading of its row; returns the dummy token if one was drawn.
fn judge_peer(r: &Row, p: &Option<Peer>, ctx: &mut Ctx) -> Option<i64> {
    match (r.host, p) {
        (None, None) => None,
        (None, Some(_)) => {
            ctx.fail("a row without host id produced a peer");
            None
        }
        (Some(h), None) => {
            ctx.fail(format!("the row of host {} produced no peer", h));
            None
        }
        (Some(h), Some(p)) => {
            if node_id(p.host_id) != h || p.datacenter != r.dc.map(dc_name) || p.rack != r.rack.map(rack_name) {
                ctx.fail(format!("peer of host {} does not carry the row's host id / datacenter / rack", h));
            }
            let got: Vec<i64> = p.tokens.iter().map(|t| t.value()).collect();
            match oracle_tokens(&r.tokens) {
                Owned::Nothing => {
                    if !got.is_empty() {
                        ctx.fail(format!("host {}: the row has no tokens (null or empty), the peer owns {:?}", h, got));
                    }
                    None
                }
                Owned::Exactly(l) => {
                    if got != l {
                        ctx.fail(format!("host {}: the row states tokens {:?}, the peer owns {:?}", h, l, got));
                    }
                    None
                }
                Owned::OneUnknown => {
                    if got.len() != 1 {
                        ctx.fail(format!("host {}: unreadable token list, expected exactly one dummy token, the peer owns {:?}", h, got));
                    }
                    got.first().copied()
                }
            }
        }
    }
}

fn strategy_line(m: &[(String, String)], r: &Result<Strategy, String>) -> String {
    match r {
        Ok(Strategy::SimpleStrategy { replication_factor }) => format!("simple {}", replication_factor),
        Ok(Strategy::NetworkTopologyStrategy { datacenter_repfactors }) => {
            let mut v: Vec<(&String, &usize)> = datacenter_repfactors.iter().collect();
            v.sort();
            if v.is_empty() {
                "nts -".into()
            } else {
                format!("nts {}", v.iter().map(|(k, rf)| format!("{}={}", hex(k.as_bytes()), rf)).collect::<Vec<_>>().join(","))
            }
        }
        Ok(Strategy::LocalStrategy) => "local".into(),
        Ok(Strategy::Other { name, data }) => format!("other {} {}", hex(name.as_bytes()), data.len()),
        Ok(_) => "other-variant".into(),
        Err(e) => {
            if e.contains("missing a 'class'") {
                "err missing-class".into()
            } else if e.contains("Missing replication factor") {
                "err missing-rf".into()
            } else if e.contains("Failed to parse a replication factor") {
                "err rf-parse".into()
            } else if let Some((k, _)) = m.iter().find(|(k, v)| *e == format!("Unexpected NetworkTopologyStrategy option: '{}': '{}'", k, v)) {
                format!("err nts-option {}", hex(k.as_bytes()))
            } else {
                format!("err unknown {}", hex(e.as_bytes()))
            }
        }
    }
}

fn judge_strategy(m: &[(String, String)], r: &Result<Strategy, String>, ctx: &mut Ctx) {
    let want = oracle_strategy(m);
    let got: Option<Strat> = match r {
        Ok(Strategy::SimpleStrategy { replication_factor }) => Some(Strat::Simple(*replication_factor)),
        Ok(Strategy::NetworkTopologyStrategy { datacenter_repfactors }) => {
            // compare as the map the row states: same datacenter names, same factors
            let mut a: Vec<(String, usize)> = datacenter_repfactors.iter().map(|(k, v)| (k.clone(), *v)).collect();
            a.sort();
            let mut b: Vec<(String, usize)> =
                m.iter().filter(|e| e.0 != "class").filter_map(|(k, v)| oracle_usize(v).map(|rf| (k.clone(), rf))).collect();
            b.sort();
            if a != b {
                ctx.fail(format!("NetworkTopologyStrategy factors {:?}, the keyspace row states {:?}", a, b));
            }
            want.clone()
        }
        Ok(Strategy::LocalStrategy) => Some(Strat::Local),
        Ok(_) => Some(Strat::Other),
        Err(_) => None,
    };
    let kind = |s: &Option<Strat>| match s {
        None => "rejected".to_owned(),
        Some(Strat::Nts(_)) => "NetworkTopologyStrategy".to_owned(),
        Some(o) => fmt_strategy(o),
    };
    if kind(&got) != kind(&want) {
        ctx.fail(format!("replication options {:?} read as {}, the row states {}", m, kind(&got), kind(&want)));
    }
}

pub fn run(w: &[&str], ctx: &mut Ctx) -> String {
    match (w[0], w.len()) {
        ("p", 3) => {
            let (local, Some(r)) = (w[1] == "L", parse_row(w[2])) else { return "bad-case".into() };
            if w[1] != "L" && w[1] != "P" {
                return "bad-case".into();
            }
            let p = block_on(row_to_peer(local, 0, &r));
            judge_peer(&r, &p, ctx);
            match p {
                None => "skip".into(),
                Some(p) => format!(
                    "peer id={} dc={} rack={} tokens={}",
                    node_id(p.host_id),
                    name_num(&p.datacenter, "dc"),
                    name_num(&p.rack, "r"),
                    crate::util::nat_list(&p.tokens.iter().map(|t| t.value()).collect::<Vec<_>>())
                ),
            }
        }
        ("v", 2) => {
            let counts: Vec<usize> = if w[1] == "-" {
                vec![]
            } else {
                match w[1].split(',').map(|c| c.parse().ok()).collect::<Option<Vec<usize>>>() {
                    Some(c) => c,
                    None => return "bad-case".into(),
                }
            };
            let peers: Vec<Peer> = counts
                .iter()
                .enumerate()
                .filter_map(|(i, c)| {
                    let r = Row { host: Some(i as u64), dc: None, rack: None, tokens: Some((0..*c).map(|t| t.to_string()).collect()) };
                    block_on(row_to_peer(false, i, &r))
                })
                .collect();
            let res = validate_peers(&peers);
            let usable = counts.iter().any(|c| *c > 0);
            if res.is_ok() != usable {
                ctx.fail(format!("validate_peers = {:?} for token counts {:?}: a cluster is usable iff some peer owns a token", res, counts));
            }
            match res {
                Ok(()) => "ok".into(),
                Err(e) if e.contains("Peers list is empty") => "err empty-peers".into(),
                Err(e) if e.contains("empty token lists") => "err empty-token-lists".into(),
                Err(e) => format!("err unknown {}", hex(e.as_bytes())),
            }
        }
        ("s", 2) => {
            let Some(m) = parse_options(w[1]) else { return "bad-case".into() };
            let r = strategy_from_options(m.iter().cloned().collect::<HashMap<_, _>>());
            judge_strategy(&m, &r, ctx);
            strategy_line(&m, &r)
        }
        ("m", 6) => run_rows(w, ctx),
        _ => "bad-case".into(),
    }
}

fn run_rows(w: &[&str], ctx: &mut Ctx) -> String {
    let opts: Option<Vec<Vec<(String, String)>>> = if w[2] == "-" { Some(vec![]) } else { w[2].split('|').map(parse_options).collect() };
    let (Some(rows), Some(opts), Ok(ks_idx), Ok(tok)) = (parse_rows(w[1]), opts, w[3].parse::<usize>(), w[5].parse::<i64>()) else {
        return "bad-case".into();
    };
    let dc: Option<u32> = match opt_u(w[4]) {
        Some(d) => d,
        None => return "bad-case".into(),
    };
    {
        let mut ids: Vec<u64> = rows.iter().filter_map(|r| r.host).collect();
        let n = ids.len();
        ids.sort_unstable();
        ids.dedup();
        if ids.len() != n {
            return "bad-case".into();
        }
    }
    // rows -> peers (the first row is system.local)
    let mut peers: Vec<Peer> = Vec::new();
    let mut dummies: Vec<(u64, i64)> = Vec::new();
    let mut reading: Vec<PeerSpec> = Vec::new(); // the oracle's reading of the rows
    for (i, r) in rows.iter().enumerate() {
        let p = block_on(row_to_peer(i == 0, i, r));
        let d = judge_peer(r, &p, ctx);
        if let (Some(h), Some(d)) = (r.host, d) {
            dummies.push((h, d));
        }
        if let Some(h) = r.host {
            let tokens = match oracle_tokens(&r.tokens) {
                Owned::Nothing => vec![],
                Owned::Exactly(l) => l,
                Owned::OneUnknown => d.into_iter().collect(),
            };
            reading.push(PeerSpec { id: h, dc: r.dc, rack: r.rack, tokens, flags: String::new() });
        }
        if let Some(p) = p {
            peers.push(p);
        }
    }
    if let Err(e) = validate_peers(&peers) {
        if reading.iter().any(|p| !p.tokens.is_empty()) {
            ctx.fail(format!("the fetch was refused ({}) although a peer owns tokens", e));
        }
        return format!("invalid {}", if e.contains("Peers list is empty") { "empty-peers" } else { "empty-token-lists" });
    }
    if !reading.iter().any(|p| !p.tokens.is_empty()) {
        ctx.fail("a fetch in which nobody owns a token was accepted");
    }
    // keyspace rows -> strategies; ONE unreadable replication map fails the whole fetch (`query_keyspaces` propagates
    // `KeyspacesMetadataError::Strategy` as a `MetadataError`): nothing is published
    let mut specs: Vec<KeyspaceSpec> = Vec::new();
    let failed: Vec<String> = Vec::new();
    let mut stated: Vec<Option<Strat>> = Vec::new();
    let mut refused = false;
    for (i, m) in opts.iter().enumerate() {
        let r = strategy_from_options(m.iter().cloned().collect::<HashMap<_, _>>());
        judge_strategy(m, &r, ctx);
        stated.push(oracle_strategy(m));
        match r {
            Ok(s) => specs.push(KeyspaceSpec { name: format!("k{}", i), strategy: s }),
            Err(_) => refused = true,
        }
    }
    if refused {
        return "invalid strategy".into();
    }
    // peers -> cluster state, through ClusterState::new
    let nodes: Vec<NodeSpec> = peers
        .iter()
        .map(|p| NodeSpec {
            host_id: p.host_id,
            datacenter: p.datacenter.clone(),
            rack: p.rack.clone(),
            tokens: p.tokens.iter().map(|t| t.value()).collect(),
            enabled: true,
            connected: true,
        })
        .collect();
    let state = block_on(cluster_state_general(None, &nodes, &specs, &HashMap::new(), &HashMap::new(), &failed, false));
    // judge it against the oracle's reading: placement rules + a cluster built from scratch from that reading
    let strat = stated.get(ks_idx).cloned().flatten().unwrap_or(Strat::Local);
    let topo_s = fmt_topology(&reading);
    let pre_s = fmt_fetched(&stated);
    let obs = check_state(&state, Some("state built from rows"), &topo_s, &reading, &pre_s, &stated, &fmt_strategy(&strat), &strat, dc, tok, ctx);
    let d = if dummies.is_empty() { "-".to_owned() } else { dummies.iter().map(|(h, t)| format!("{}:{}", h, t)).collect::<Vec<_>>().join(",") };
    format!("dummies={} {}", d, obs)
}

// ---------------------------------------------------------------------------------------------
// generators

const TOKEN_TEXTS: [&str; 22] = [
    "0", "5", "-5", "+5", "0007", "-0", "+0", "9223372036854775807", "-9223372036854775808", "9223372036854775808",
    "-9223372036854775809", "", " 5", "5 ", "-", "+", "1_0", "0x10", "5.0", "1e3", "abc", "18446744073709551616",
];

fn gen_token_text(rng: &mut Rng, used: &mut Vec<i64>) -> String {
    if rng.chance(1, 5) {
        return (*rng.pick(&TOKEN_TEXTS)).to_owned();
    }
    loop {
        let t = rng.range(-80, 80);
        if !used.contains(&t) {
            used.push(t);
            return match rng.below(6) {
                0 if t >= 0 => format!("+{}", t),
                1 => format!("{}{:03}", if t < 0 { "-" } else { "" }, t.abs()),
                _ => t.to_string(),
            };
        }
    }
}

fn gen_tokens(rng: &mut Rng, used: &mut Vec<i64>) -> Option<Vec<String>> {
    match rng.below(10) {
        0 | 1 => None,
        2 => Some(vec![]),
        _ => Some((0..rng.range(1, 3)).map(|_| gen_token_text(rng, used)).collect()),
    }
}

fn gen_options(rng: &mut Rng, dcs: &[u32], sloppy: bool) -> Vec<(String, String)> {
    let long = rng.chance(1, 2);
    let q = |s: &str| if long { format!("org.apache.cassandra.locator.{}", s) } else { s.to_owned() };
    let num = |rng: &mut Rng| -> String {
        match if sloppy { rng.below(12) } else { *rng.pick(&[3u64, 4, 6, 7, 8, 9, 10, 11]) } {
            0 => "x".into(),
            1 => "".into(),
            2 => "-1".into(),
            3 => format!("+{}", rng.below(4)),
            4 => format!("0{}", rng.below(4)),
            5 => " 2".into(),
            _ => rng.below(5).to_string(),
        }
    };
    let mut m: Vec<(String, String)> = Vec::new();
    match if sloppy { rng.below(14) } else { 1 + rng.below(13) } {
        0 => {
            m.push(("replication_factor".into(), num(rng))); // no class
        }
        1 | 2 | 3 => {
            m.push(("class".into(), q("SimpleStrategy")));
            if !sloppy || !rng.chance(1, 8) {
                m.push(("replication_factor".into(), num(rng)));
            }
        }
        4 => m.push(("class".into(), q("LocalStrategy"))),
        5 => {
            m.push(("class".into(), (*rng.pick(&["EverywhereStrategy", "org.apache.cassandra.locator.simplestrategy", "", "Simple Strategy"])).to_owned()));
            m.push(("replication_factor".into(), num(rng)));
        }
        _ => {
            m.push(("class".into(), q("NetworkTopologyStrategy")));
            for d in dcs {
                if rng.chance(4, 5) {
                    m.push((dc_name(*d), num(rng)));
                }
            }
            if rng.chance(1, 6) {
                m.push(((*rng.pick(&["eu-west", "DC1", "dc", "replication_factor", "dc01", "dc1_0", "dc+1", "dc00"])).to_owned(), num(rng)));
            }
        }
    }
    if rng.chance(1, 2) {
        rng.shuffle(&mut m);
    }
    m
}

pub fn generate(rng: &mut Rng, tier: Tier, emit: &mut dyn FnMut(String)) {
    let scale = if tier == Tier::Quick { 1 } else { 20 };
    // every token text alone, in pairs with a good token, null / empty, null host / dc / rack
    for src in ["L", "P"] {
        for t in TOKEN_TEXTS {
            emit(format!("p {} 3:0:1:{}", src, fmt_tokens(&Some(vec![t.to_owned()]))));
            emit(format!("p {} 3:0:1:{}", src, fmt_tokens(&Some(vec!["7".to_owned(), t.to_owned()]))));
            emit(format!("p {} 3:-:-:{}", src, fmt_tokens(&Some(vec![t.to_owned(), "-3".to_owned()]))));
        }
        for toks in ["null", "[]"] {
            for row in ["3:0:1", "3:-:1", "3:0:-", "-:0:1", "-:-:-"] {
                emit(format!("p {} {}:{}", src, row, toks));
            }
        }
        emit(format!("p {} -:0:1:{}", src, fmt_tokens(&Some(vec!["5".to_owned()]))));
        emit(format!("p {} -:0:1:{}", src, fmt_tokens(&Some(vec!["x".to_owned()]))));
    }
    for _ in 0..600 * scale {
        let mut used = Vec::new();
        let r = Row {
            host: if rng.chance(1, 10) { None } else { Some(rng.below(50)) },
            dc: if rng.chance(1, 6) { None } else { Some(rng.below(3) as u32) },
            rack: if rng.chance(1, 6) { None } else { Some(rng.below(3) as u32) },
            tokens: gen_tokens(rng, &mut used),
        };
        emit(format!("p {} {}", if rng.bool() { "L" } else { "P" }, fmt_row(&r)));
    }
    // validate_peers: every count vector up to 3 peers x {0,1,2}
    emit("v -".to_owned());
    for n in 1..=3u32 {
        for a in 0..3u32.pow(n) {
            let c: Vec<String> = (0..n).map(|i| ((a / 3u32.pow(i)) % 3).to_string()).collect();
            emit(format!("v {}", c.join(",")));
        }
    }
    // option maps
    for _ in 0..1500 * scale {
        let dcs: Vec<u32> = (0..rng.range(0, 3) as u32).collect();
        emit(format!("s {}", fmt_options(&gen_options(rng, &dcs, true))));
    }
    // rows + keyspace rows -> cluster state
    for _ in 0..700 * scale {
        let n = rng.range(1, 7) as usize;
        let dcs: Vec<u32> = (0..rng.range(1, 2) as u32).collect();
        let mut used = Vec::new();
        let mut rows: Vec<Row> = (0..n)
            .map(|i| Row {
                host: if rng.chance(1, 14) { None } else { Some(i as u64 * 3 + 1) },
                dc: if rng.chance(1, 12) { None } else { Some(*rng.pick(&dcs)) },
                rack: if rng.chance(1, 8) { None } else { Some(rng.below(3) as u32) },
                tokens: gen_tokens(rng, &mut used),
            })
            .collect();
        if rng.chance(1, 3) {
            rng.shuffle(&mut rows);
        }
        let sloppy = rng.chance(1, 6);
        let ks: Vec<Vec<(String, String)>> = (0..rng.range(1, 3)).map(|_| gen_options(rng, &dcs, sloppy)).collect();
        let rows_s = if rows.is_empty() { "-".to_owned() } else { rows.iter().map(fmt_row).collect::<Vec<_>>().join(";") };
        let ks_s = ks.iter().map(|m| fmt_options(m)).collect::<Vec<_>>().join("|");
        let mut toks: Vec<i64> = used.iter().flat_map(|t| [*t, t - 1, t + 1]).collect();
        toks.extend([i64::MIN, i64::MAX, 0]);
        for _ in 0..4 {
            let dc = if rng.chance(2, 3) { "-".to_owned() } else { rng.pick(&dcs).to_string() };
            emit(format!("m {} {} {} {} {}", rows_s, ks_s, rng.below(ks.len() as u64 + 1), dc, rng.pick(&toks)));
        }
    }
}

//! End-to-end cases: a real `Session` against a mock cluster (harness/src/mockcluster.rs).
//!
//! These are TESTS, labelled as such: they tie the session-level glue (which no hook-level check reaches)
//! to the properties through model-independent oracles only. The Lean model drivers echo the
//! implementation's line for `e2e ...` cases (lean/Driver/Common.lean), so they can never cause a
//! model/implementation disagreement; only `ctx.fail(..)` matters.
//!
//! Case lines: `e2e <family> <k=v params...>`; the families of a property are generated for that property only
//! (`family_of`); each family's file documents its parameters and its ORACLE:
//!   C03 partitioner (partitioner.rs)   C04 ring (c04ring.rs)
//!   C06 retry     (retry.rs)      C07 page      (page.rs)     C10 break   (brk.rs)
//!   C12 route     (route.rs) + tablet (tablet.rs)              C14 evict   (evict.rs)
//!   C13 spec      (spec.rs)                                    C15 learn   (c15learn.rs) + learnrf (c15refresh.rs)
//!   C18 timestamp (timestamp.rs) + tsconn (tsconn.rs, one hooked connection)   C20 keyspace (keyspace.rs)
//! Output line: a short summary (never compared with a model). A case that cannot reach its precondition (session
//! build / pool fill on an overloaded machine) prints `e2e-skip <why>` and judges nothing - never an oracle failure.
//! Fixed cases: corpus/Cxx/e2e.case. `e2e smoke ...` and `e2e gen ...` are developer aids (never generated).
use crate::rng::Rng;
use crate::{Ctx, Tier};

pub mod brk;
pub mod c10_samenode;
pub mod c04ring;
pub mod c15learn;
pub mod c15refresh;
pub mod common;
pub mod evict;
pub mod keyspace;
pub mod midsmoke;
pub mod page;
pub mod partitioner;
pub mod refresh;
pub mod retry;
pub mod route;
pub mod smoke;
pub mod spec;
pub mod tablet;
pub mod timestamp;
pub mod tsconn;

/// Which family belongs to which property (a family is generated for that property only).
pub fn family_of(pid: &str) -> Option<&'static str> {
    match pid {
        "C03" => Some("partitioner"),
        "C04" => Some("ring"),
        "C06" => Some("retry"),
        "C07" => Some("page"),
        "C10" => Some("break"),
        "C12" => Some("route"),
        "C13" => Some("spec"),
        "C14" => Some("evict"),
        "C15" => Some("learn"),
        "C18" => Some("timestamp"),
        "C19" => Some("refresh"),
        "C20" => Some("keyspace"),
        _ => None,
    }
}

pub fn generate(pid: &str, rng: &mut Rng, tier: Tier, emit: &mut dyn FnMut(String)) {
    match family_of(pid) {
        Some("retry") => retry::generate(rng, tier, emit),
        Some("ring") => c04ring::generate(rng, tier, emit),
        Some("break") => {
            brk::generate(rng, tier, emit);
            c10_samenode::generate(rng, tier, emit);
        }
        Some("evict") => evict::generate(rng, tier, emit),
        Some("learn") => {
            c15learn::generate(rng, tier, emit);
            c15refresh::generate(rng, tier, emit);
        }
        Some("keyspace") => keyspace::generate(rng, tier, emit),
        Some("page") => page::generate(rng, tier, emit),
        Some("partitioner") => partitioner::generate(rng, tier, emit),
        Some("refresh") => refresh::generate(rng, tier, emit),
        Some("spec") => spec::generate(rng, tier, emit),
        Some("route") => {
            route::generate(rng, tier, emit);
            tablet::generate(rng, tier, emit);
        }
        Some("timestamp") => {
            timestamp::generate(rng, tier, emit);
            tsconn::generate(rng, tier, emit);
        }
        _ => {}
    }
}

pub fn run(_pid: &str, case: &str, ctx: &mut Ctx) -> String {
    let words: Vec<&str> = case.split(' ').collect();
    if words.len() < 2 || words[0] != "e2e" {
        return "bad-case".to_owned();
    }
    match words[1] {
        "retry" => retry::run(&words[2..], ctx),
        "ring" => c04ring::run(&words[2..], ctx),
        "break" => brk::run(&words[2..], ctx),
        "samenode" => c10_samenode::run(&words[2..], ctx),
        "evict" => evict::run(&words[2..], ctx),
        "learn" => c15learn::run(&words[2..], ctx),
        "learnrf" => c15refresh::run(&words[2..], ctx),
        "keyspace" => keyspace::run(&words[2..], ctx),
        "page" => page::run(&words[2..], ctx),
        "partitioner" => partitioner::run(&words[2..], ctx),
        "refresh" => refresh::run(&words[2..], ctx),
        "route" => route::run(&words[2..], ctx),
        "smoke" => smoke::run(&words[2..], ctx),
        "midsmoke" => midsmoke::run(&words[2..], ctx),
        "spec" => spec::run(&words[2..], ctx),
        "tablet" => tablet::run(&words[2..], ctx),
        "timestamp" => timestamp::run(&words[2..], ctx),
        "tsconn" => tsconn::run(&words[2..], ctx),
        // developer aid: `e2e gen <Cxx> <quick|thorough> <seed>` prints that property's e2e cases joined by ';'
        "gen" if words.len() == 5 => {
            let mut out = Vec::new();
            let tier = if words[3] == "thorough" { Tier::Thorough } else { Tier::Quick };
            generate(words[2], &mut Rng::new(words[4].parse().unwrap_or(1)), tier, &mut |l| out.push(l));
            out.join(";")
        }
        _ => "bad-case".to_owned(),
    }
}

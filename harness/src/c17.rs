//! C17 — type mismatches are always rejected and a failed bind leaves the request intact.
//!
//! Notation: see `lean/ScyllaVerif/Drive/C17.lean`.  Cases:
//!   `ser <label> <variant> | C | T | V`   serialize the representative value `variant` of Rust type `label`
//!   `tc <label> | C | T`                  `<label as DeserializeValue>::type_check(T)`
//!   `tcrow <label> | untyped or n C… | m T…`  row-level `DeserializeRow::type_check`
//!   `row OP ; OP ; …`                     a sequence of `add_value` calls on one `SerializedValues`
//!   `big …`                               2^31-byte values (oracle only, the model echoes)
//! `C` (carrier descriptor) and `V` (value in the model's notation) are computed from the Rust type / value
//! at generation time and are only read by the model; `run` rebuilds the value from `<label> <variant>`.
//!
//! Oracle (independent of the Lean model):
//!   * after a failed `add_value` the `SerializedValues` is byte-for-byte / count-for-count its clone taken before;
//!   * `element_count() == iter().count()` after every operation;
//!   * a pair the documentation lists as compatible (docs/source/data-types/*.md, transcribed in `compat`)
//!     is accepted by `serialize` (fully populated value) and by `type_check`;
//!   * a fully populated value / a `type_check` is accepted only if every leaf pair is one the documentation
//!     lists (containers may differ only in the ways the code documents: set carriers into lists, short tuples
//!     on write, `Vec` from list / set / vector);
//!   * a value that serialized against `T` and whose Rust type type-checks against `T` deserializes to the
//!     same value.
#![allow(clippy::type_complexity)]
use crate::c01::{to_column_type, ty_str, Ty};
use crate::rng::Rng;
use crate::util::hex;
use crate::{Ctx, Tier};
use bytes::Bytes;
use scylla_cql_core::deserialize::row::{
    BuiltinTypeCheckError as RowTcErr, BuiltinTypeCheckErrorKind as RTK, ColumnIterator, DeserializeRow,
};
use scylla_cql_core::deserialize::value::{
    BuiltinTypeCheckError as DeTcErr, BuiltinTypeCheckErrorKind as DTK, DeserializeValue, ListlikeIterator,
    MapIterator, MapTypeCheckErrorKind as DMTK, SetOrListTypeCheckErrorKind as DLTK,
    TupleTypeCheckErrorKind as DTTK, UdtIterator, UdtTypeCheckErrorKind as DUTK, VectorIterator,
    VectorTypeCheckErrorKind as DVTK,
};
use scylla_cql_core::deserialize::{FrameSlice, TypeCheckError};
use scylla_cql_core::frame::response::result::{ColumnSpec, ColumnType, NativeType, TableSpec};
use scylla_cql_core::serialize::row::{
    BuiltinSerializationError as RowSerErr, BuiltinSerializationErrorKind as RSK, RowSerializationContext, SerializedValues,
};
use scylla_cql_core::serialize::RowWriter;
use scylla_cql_core::serialize::value::{
    BuiltinSerializationError, BuiltinSerializationErrorKind as SK, BuiltinTypeCheckError,
    BuiltinTypeCheckErrorKind as TK, MapSerializationErrorKind as MSK, MapTypeCheckErrorKind as MTK,
    SerializeValue, SetOrListSerializationErrorKind as LSK, SetOrListTypeCheckErrorKind as LTK,
    TupleSerializationErrorKind as TSK, TupleTypeCheckErrorKind as TTK, UdtSerializationErrorKind as USK,
    UdtTypeCheckErrorKind as UTK, VectorSerializationErrorKind as VSK,
};
use scylla_cql_core::serialize::SerializationError;
use scylla_cql_core::value::{
    Counter, CqlDate, CqlDecimal, CqlDecimalBorrowed, CqlDuration, CqlTime, CqlTimestamp, CqlTimeuuid, CqlValue,
    CqlVarint, CqlVarintBorrowed, MaybeEmpty, MaybeUnset, Row, Unset,
};
use std::borrow::Cow;
use std::collections::hash_map::DefaultHasher;
use std::collections::{BTreeMap, BTreeSet, HashMap, HashSet};
use std::hash::BuildHasherDefault;
use std::net::IpAddr;
use std::sync::Arc;

mod cases;
pub mod dynfits;
pub mod pager;
mod rowsmeta;
mod sessbind;
mod types;

pub use cases::generate;
pub use dynfits::dyn_fits;
use types::*;

/// deterministic hasher: the iteration order of a hash container is the same at generation and at run time
type DH = BuildHasherDefault<DefaultHasher>;

// ------------------------------------------------------------------------------------------------
// carrier descriptors (the model's `Carrier`)
// ------------------------------------------------------------------------------------------------

#[derive(Clone, Debug, PartialEq)]
pub enum CD {
    Scalar(&'static str),
    Unset,
    Opt(Box<CD>),
    MUnset(Box<CD>),
    MEmpty(Box<CD>),
    Vec(Box<CD>),
    HSet(Box<CD>),
    BSet(Box<CD>),
    HMap(Box<CD>, Box<CD>),
    BMap(Box<CD>, Box<CD>),
    Tuple(Vec<CD>),
    Dyn,
    ListIter(Box<CD>),
    VecIter(Box<CD>),
    MapIter(Box<CD>, Box<CD>),
    UdtIter,
    Raw,
}

pub fn cd_str(c: &CD) -> String {
    match c {
        CD::Scalar(s) => s.to_string(),
        CD::Unset => "unset".into(),
        CD::Opt(c) => format!("opt {}", cd_str(c)),
        CD::MUnset(c) => format!("munset {}", cd_str(c)),
        CD::MEmpty(c) => format!("mempty {}", cd_str(c)),
        CD::Vec(c) => format!("vec {}", cd_str(c)),
        CD::HSet(c) => format!("hset {}", cd_str(c)),
        CD::BSet(c) => format!("bset {}", cd_str(c)),
        CD::HMap(k, v) => format!("hmap {} {}", cd_str(k), cd_str(v)),
        CD::BMap(k, v) => format!("bmap {} {}", cd_str(k), cd_str(v)),
        CD::Tuple(cs) => format!("tuple {}{}", cs.len(), cs.iter().map(|c| format!(" {}", cd_str(c))).collect::<String>()),
        CD::Dyn => "dyn".into(),
        CD::ListIter(c) => format!("listiter {}", cd_str(c)),
        CD::VecIter(c) => format!("veciter {}", cd_str(c)),
        CD::MapIter(k, v) => format!("mapiter {} {}", cd_str(k), cd_str(v)),
        CD::UdtIter => "udtiter".into(),
        CD::Raw => "raw".into(),
    }
}

/// The documentation's table of natives (docs/source/data-types/data-types.md), per leaf carrier family.
pub fn doc_natives(s: &str) -> &'static [NativeType] {
    use NativeType::*;
    match s {
        "bool" => &[Boolean],
        "i8" => &[TinyInt],
        "i16" => &[SmallInt],
        "i32" => &[Int],
        "i64" => &[BigInt],
        "f32" => &[Float],
        "f64" => &[Double],
        "str" => &[Ascii, Text],
        "counter" => &[Counter],
        "blob" => &[Blob],
        "inet" => &[Inet],
        "uuid" => &[Uuid],
        "timeuuid" => &[Timeuuid],
        "date" => &[Date],
        "time" => &[Time],
        "timestamp" => &[Timestamp],
        "duration" => &[Duration],
        "decimal" => &[Decimal],
        "varint" => &[Varint],
        _ => &[],
    }
}

#[derive(Clone, Copy, PartialEq)]
pub enum Side {
    Ser,
    De,
}

fn supports_empty(t: &Ty) -> bool {
    !matches!(
        t,
        Ty::Native(NativeType::Counter) | Ty::Native(NativeType::Duration) | Ty::List(_) | Ty::Set(_) | Ty::Map(..) | Ty::Udt(..)
    )
}

/// `strict`: the pair is one the documentation lists as compatible (structurally extended).
/// `!strict`: every leaf pair is documented; containers correspond in one of the ways the code documents
/// (set carriers also into lists and short tuples on write; `MaybeEmpty` needs an emptiable type on write).
/// `None` = not decidable statically (`CqlValue`, `Unset`, raw).
pub fn compat(c: &CD, t: &Ty, side: Side, strict: bool) -> Option<bool> {
    Some(match c {
        CD::Scalar(s) => matches!(t, Ty::Native(n) if doc_natives(s).contains(n)),
        CD::Unset | CD::Dyn | CD::Raw => return None,
        CD::Opt(c) | CD::MUnset(c) => return compat(c, t, side, strict),
        CD::MEmpty(c) => (side == Side::De || supports_empty(t)) && compat(c, t, side, strict)?,
        CD::Vec(c) => match t {
            Ty::List(e) | Ty::Set(e) | Ty::Vector(e, _) => compat(c, e, side, strict)?,
            _ => false,
        },
        CD::HSet(c) | CD::BSet(c) => match t {
            Ty::Set(e) => compat(c, e, side, strict)?,
            Ty::List(e) if !strict && side == Side::Ser => compat(c, e, side, strict)?,
            _ => false,
        },
        CD::ListIter(c) => match t {
            Ty::List(e) | Ty::Set(e) => compat(c, e, side, strict)?,
            _ => false,
        },
        CD::VecIter(c) => match t {
            Ty::Vector(e, _) => compat(c, e, side, strict)?,
            _ => false,
        },
        CD::HMap(k, v) | CD::BMap(k, v) | CD::MapIter(k, v) => match t {
            Ty::Map(kt, vt) => {
                let a = compat(k, kt, side, strict);
                let b = compat(v, vt, side, strict);
                match (a, b) {
                    (Some(false), _) | (_, Some(false)) => false,
                    (Some(true), Some(true)) => true,
                    _ => return None,
                }
            }
            _ => false,
        },
        CD::Tuple(cs) => match t {
            Ty::Tuple(ts) => {
                let arity = if !strict && side == Side::Ser { cs.len() <= ts.len() } else { cs.len() == ts.len() };
                if !arity {
                    false
                } else {
                    let rs: Vec<Option<bool>> = cs.iter().zip(ts).map(|(c, t)| compat(c, t, side, strict)).collect();
                    if rs.contains(&Some(false)) {
                        false
                    } else if rs.contains(&None) {
                        return None;
                    } else {
                        true
                    }
                }
            }
            _ => false,
        },
        CD::UdtIter => matches!(t, Ty::Udt(..)),
    })
}

// ------------------------------------------------------------------------------------------------
// the Rust carriers: representative values and their description in the model's notation
// ------------------------------------------------------------------------------------------------

pub trait Car: SerializeValue + Sized + 'static {
    fn cd() -> CD;
    /// a CQL type the documentation pairs with this Rust type (the "natural" column type)
    fn natural() -> Ty;
    /// representative values: 0 fully populated, 1 degenerate at the top (None / Unset / Empty / empty
    /// collection), 2 degenerate one level down, 3 a second fully populated value
    fn rep(v: u32) -> Self;
    /// the value in the model's notation; `canon` sorts the elements of hash containers (round-trip comparison)
    fn shape(&self, canon: bool) -> String;
}

fn body_of<T: SerializeValue>(v: &T, n: NativeType) -> String {
    let mut sv = SerializedValues::new();
    sv.add_value(v, &ColumnType::Native(n)).expect("natural type of a leaf");
    let mut buf = Vec::new();
    sv.write_to_request(&mut buf);
    hex(&buf[6..])
}

macro_rules! leaf {
    ($t:ty, $name:literal, $nat:ident, [$($v:expr),+]) => {
        impl Car for $t {
            fn cd() -> CD { CD::Scalar($name) }
            fn natural() -> Ty { Ty::Native(NativeType::$nat) }
            fn rep(v: u32) -> Self { let vs: Vec<$t> = vec![$($v),+]; vs[(v as usize) % vs.len()].clone() }
            fn shape(&self, _canon: bool) -> String { format!("s {} {}", $name, body_of(self, NativeType::$nat)) }
        }
    };
}

leaf!(i8, "i8", TinyInt, [7, -1, 0, i8::MIN]);
leaf!(i16, "i16", SmallInt, [300, -1, 0, i16::MAX]);
leaf!(i32, "i32", Int, [42, -1, 0, i32::MIN]);
leaf!(i64, "i64", BigInt, [1 << 40, -1, 0, i64::MAX]);
leaf!(f32, "f32", Float, [1.5, -0.0, 0.0, f32::MAX]);
leaf!(f64, "f64", Double, [2.5, -0.0, 0.0, f64::MIN_POSITIVE]);
leaf!(bool, "bool", Boolean, [true, false, false, true]);
leaf!(String, "str", Text, ["abc".to_owned(), "z".to_owned(), "q".to_owned(), "hello world".to_owned()]);
leaf!(Vec<u8>, "blob", Blob, [vec![1, 2, 3], vec![0], vec![9], vec![255; 5]]);
leaf!(Bytes, "blob", Blob, [Bytes::from_static(&[1, 2, 3]), Bytes::from_static(&[0]), Bytes::from_static(&[9]), Bytes::from_static(&[255; 5])]);
leaf!(IpAddr, "inet", Inet, [IpAddr::from([127, 0, 0, 1]), IpAddr::from([0u8; 16]), IpAddr::from([10, 0, 0, 2]), IpAddr::from([1u8; 16])]);
leaf!(uuid::Uuid, "uuid", Uuid, [uuid::Uuid::from_bytes([7; 16]), uuid::Uuid::from_bytes([0; 16]), uuid::Uuid::from_bytes([1; 16]), uuid::Uuid::from_bytes([255; 16])]);
leaf!(CqlTimeuuid, "timeuuid", Timeuuid, [CqlTimeuuid::from_bytes([7; 16]), CqlTimeuuid::from_bytes([0; 16]), CqlTimeuuid::from_bytes([1; 16]), CqlTimeuuid::from_bytes([255; 16])]);
leaf!(CqlDate, "date", Date, [CqlDate(1 << 31), CqlDate(0), CqlDate(1), CqlDate(u32::MAX)]);
leaf!(CqlTime, "time", Time, [CqlTime(1), CqlTime(0), CqlTime(2), CqlTime(86_399_999_999_999)]);
leaf!(CqlTimestamp, "timestamp", Timestamp, [CqlTimestamp(1_700_000_000_000), CqlTimestamp(-1), CqlTimestamp(0), CqlTimestamp(i64::MIN)]);
leaf!(CqlDuration, "duration", Duration, [CqlDuration { months: 1, days: 2, nanoseconds: 3 }, CqlDuration { months: 0, days: 0, nanoseconds: 0 }, CqlDuration { months: -1, days: -1, nanoseconds: -1 }, CqlDuration { months: i32::MAX, days: i32::MIN, nanoseconds: i64::MAX }]);
leaf!(CqlVarint, "varint", Varint, [CqlVarint::from_signed_bytes_be(vec![1, 0]), CqlVarint::from_signed_bytes_be(vec![0]), CqlVarint::from_signed_bytes_be(vec![255]), CqlVarint::from_signed_bytes_be(vec![127; 9])]);
leaf!(CqlDecimal, "decimal", Decimal, [CqlDecimal::from_signed_be_bytes_and_exponent(vec![1, 0], 2), CqlDecimal::from_signed_be_bytes_and_exponent(vec![0], 0), CqlDecimal::from_signed_be_bytes_and_exponent(vec![255], -1), CqlDecimal::from_signed_be_bytes_and_exponent(vec![127; 9], i32::MAX)]);
leaf!(Counter, "counter", Counter, [Counter(5), Counter(-1), Counter(0), Counter(i64::MAX)]);
// serialization-only leaves
leaf!(&'static str, "str", Text, ["abc", "z", "q", "hello world"]);
leaf!(&'static [u8], "blob", Blob, [&[1, 2, 3], &[0], &[9], &[255; 5]]);
leaf!([u8; 3], "blob", Blob, [[1, 2, 3], [0, 0, 0], [9, 9, 9], [255; 3]]);
leaf!(Cow<'static, str>, "str", Text, [Cow::Borrowed("abc"), Cow::Borrowed("z"), Cow::Borrowed("q"), Cow::Owned("hello world".to_owned())]);
leaf!(CqlVarintBorrowed<'static>, "varint", Varint, [CqlVarintBorrowed::from_signed_bytes_be_slice(&[1, 0]), CqlVarintBorrowed::from_signed_bytes_be_slice(&[0]), CqlVarintBorrowed::from_signed_bytes_be_slice(&[255]), CqlVarintBorrowed::from_signed_bytes_be_slice(&[127; 9])]);
leaf!(CqlDecimalBorrowed<'static>, "decimal", Decimal, [CqlDecimalBorrowed::from_signed_be_bytes_slice_and_exponent(&[1, 0], 2), CqlDecimalBorrowed::from_signed_be_bytes_slice_and_exponent(&[0], 0), CqlDecimalBorrowed::from_signed_be_bytes_slice_and_exponent(&[255], -1), CqlDecimalBorrowed::from_signed_be_bytes_slice_and_exponent(&[127; 9], i32::MAX)]);

impl Car for Unset {
    fn cd() -> CD { CD::Unset }
    fn natural() -> Ty { Ty::Native(NativeType::Int) }
    fn rep(_: u32) -> Self { Unset }
    fn shape(&self, _: bool) -> String { "unset".into() }
}

macro_rules! wrapper {
    ($w:ident, $cd:ident, $none:expr, $some:path, $snone:literal, $ssome:literal $(, $bound:path)?) => {
        impl<T: Car $(+ $bound)?> Car for $w<T> {
            fn cd() -> CD { CD::$cd(Box::new(T::cd())) }
            fn natural() -> Ty { T::natural() }
            fn rep(v: u32) -> Self { if v == 1 { $none } else { $some(T::rep(v)) } }
            fn shape(&self, canon: bool) -> String {
                match self {
                    $some(x) => format!("{} {}", $ssome, x.shape(canon)),
                    _ => $snone.to_owned(),
                }
            }
        }
    };
}
wrapper!(Option, Opt, None, Some, "none", "some");
wrapper!(MaybeUnset, MUnset, MaybeUnset::Unset, MaybeUnset::Set, "muunset", "muset");
wrapper!(MaybeEmpty, MEmpty, MaybeEmpty::Empty, MaybeEmpty::Value, "meempty", "mevalue", scylla_cql_core::value::Emptiable);

macro_rules! transparent {
    ($w:ident, $mk:expr) => {
        impl<T: Car> Car for $w<T> {
            fn cd() -> CD { T::cd() }
            fn natural() -> Ty { T::natural() }
            fn rep(v: u32) -> Self { $mk(T::rep(v)) }
            fn shape(&self, canon: bool) -> String { (**self).shape(canon) }
        }
    };
}
transparent!(Box, Box::new);
transparent!(Arc, Arc::new);

fn seq_shape(kind: &str, mut items: Vec<String>, sort: bool) -> String {
    if sort {
        items.sort();
    }
    format!("{} {}{}", kind, items.len(), items.iter().map(|s| format!(" {}", s)).collect::<String>())
}

fn seq_reps<T: Car>(v: u32) -> Vec<T> {
    match v {
        0 => vec![T::rep(0), T::rep(3)],
        1 => vec![],
        2 => vec![T::rep(0), T::rep(3), T::rep(1)],
        _ => vec![T::rep(3)],
    }
}

impl<T: Car> Car for Vec<T> {
    fn cd() -> CD { CD::Vec(Box::new(T::cd())) }
    fn natural() -> Ty { Ty::List(Box::new(T::natural())) }
    fn rep(v: u32) -> Self { seq_reps(v) }
    fn shape(&self, canon: bool) -> String { seq_shape("vec", self.iter().map(|x| x.shape(canon)).collect(), false) }
}
impl<T: Car + std::hash::Hash + Eq> Car for HashSet<T, DH> {
    fn cd() -> CD { CD::HSet(Box::new(T::cd())) }
    fn natural() -> Ty { Ty::Set(Box::new(T::natural())) }
    fn rep(v: u32) -> Self { seq_reps(v).into_iter().collect() }
    fn shape(&self, canon: bool) -> String { seq_shape("set", self.iter().map(|x| x.shape(canon)).collect(), canon) }
}
impl<T: Car + Ord> Car for BTreeSet<T> {
    fn cd() -> CD { CD::BSet(Box::new(T::cd())) }
    fn natural() -> Ty { Ty::Set(Box::new(T::natural())) }
    fn rep(v: u32) -> Self { seq_reps(v).into_iter().collect() }
    fn shape(&self, canon: bool) -> String { seq_shape("set", self.iter().map(|x| x.shape(canon)).collect(), false) }
}
fn map_reps<K: Car, V: Car>(v: u32) -> Vec<(K, V)> {
    match v {
        0 => vec![(K::rep(0), V::rep(0)), (K::rep(3), V::rep(3))],
        1 => vec![],
        2 => vec![(K::rep(0), V::rep(0)), (K::rep(3), V::rep(1))],
        _ => vec![(K::rep(3), V::rep(3))],
    }
}
impl<K: Car + std::hash::Hash + Eq, V: Car> Car for HashMap<K, V, DH> {
    fn cd() -> CD { CD::HMap(Box::new(K::cd()), Box::new(V::cd())) }
    fn natural() -> Ty { Ty::Map(Box::new(K::natural()), Box::new(V::natural())) }
    fn rep(v: u32) -> Self { map_reps(v).into_iter().collect() }
    fn shape(&self, canon: bool) -> String {
        seq_shape("map", self.iter().map(|(k, v)| format!("{} {}", k.shape(canon), v.shape(canon))).collect(), canon)
    }
}
impl<K: Car + Ord, V: Car> Car for BTreeMap<K, V> {
    fn cd() -> CD { CD::BMap(Box::new(K::cd()), Box::new(V::cd())) }
    fn natural() -> Ty { Ty::Map(Box::new(K::natural()), Box::new(V::natural())) }
    fn rep(v: u32) -> Self { map_reps(v).into_iter().collect() }
    fn shape(&self, canon: bool) -> String {
        seq_shape("map", self.iter().map(|(k, v)| format!("{} {}", k.shape(canon), v.shape(canon))).collect(), false)
    }
}

macro_rules! tuple_car {
    ($($T:ident $i:tt),+) => {
        impl<$($T: Car),+> Car for ($($T,)+) {
            fn cd() -> CD { CD::Tuple(vec![$($T::cd()),+]) }
            fn natural() -> Ty { Ty::Tuple(vec![$($T::natural()),+]) }
            fn rep(v: u32) -> Self { ($($T::rep(v),)+) }
            fn shape(&self, canon: bool) -> String { seq_shape("tuple", vec![$(self.$i.shape(canon)),+], false) }
        }
    };
}
tuple_car!(A 0);
tuple_car!(A 0, B 1);
tuple_car!(A 0, B 1, C 2);
tuple_car!(A 0, B 1, C 2, D 3);

include!("c17/dynval.rs");
include!("c17/registry.rs");
include!("c17/run.rs");
include!("c17/bind.rs");
include!("c17/rows.rs");
include!("c17/bindrow.rs");
include!("c17/deser.rs");
include!("c17/batchbind.rs");

//! C19 — metadata updates handed between driver workers are neither lost nor duplicated.
//!
//! * `chan <op>;…`  the real `merge_channel` driven at poll granularity with a counting waker (no runtime):
//!   producer `m<x>` (`Sender::modify` pushing `x`), `D` (drop sender); consumer `s` (create a `recv()` future),
//!   `p` (poll it once), `c` (drop it), `X` (drop the receiver and its future). Output per op `<result>:<wakes>`.
//! * `slot <op>;…`  `MetadataUpdate::merge_*` on a slot through `UpdateSlot`: `F<tag>`/`R<tag>` merge_metadata
//!   without/with a refresh request (metadata without client routes configured), `G<tag>/<routes>`/`H<tag>/<routes>`
//!   the same with client routes configured (`<routes>` = `-` or `host.conn.port,…`), `C<entries>`
//!   merge_client_routes_update (`host.conn.port` upsert / `host.conn.x` removal), `T<tag>` merge_topology_update,
//!   `U<addr>`/`W<addr>` up/down hint, `K` take.
//! * `worker <op>;…`  a real `ClusterWorker::work()` behind the channel (see c19_worker.rs): what gets PUBLISHED.
//! * `producer <op>;…`  a real `MetadataWorker::work()` in front of the channel (see c19_producer.rs).
//! * `stress <n> <mode> <seed>`  producer OS thread merges `0..n` then drops; consumer on a tokio runtime receives
//!   until `None` (mode 1/2: inside a `select!` that keeps cancelling and restarting `recv`); oracle only.
//! * `race <reps> <n> <seed>`  `reps` rounds of a tiny stream whose last merge is immediately followed by the drop.
use crate::rng::Rng;
use crate::{Ctx, Tier};
pub(crate) use scylla::verif_hooks::merge_channel as hooks;
use crate::c19_race::{run_race, run_stress};
use std::future::Future;
use std::pin::Pin;
use std::sync::Arc;
use std::sync::atomic::{AtomicUsize, Ordering};
use std::task::{Context, Poll, Wake, Waker};

// ---------------------------------------------------------------------------------------------
// generation
// ---------------------------------------------------------------------------------------------

/// Abstract legality state of a `chan` op sequence.
#[derive(Clone, Copy)]
struct Legal {
    tx: bool,
    rx: bool,
    fut: bool,
    next: u64,
    after_x_m: u8,
}

impl Legal {
    fn new() -> Self {
        Legal { tx: true, rx: true, fut: false, next: 0, after_x_m: 0 }
    }
    /// Legal next ops (letters). After the receiver is gone only one more `m` (→ SendError) is interesting.
    fn choices(&self) -> Vec<char> {
        let mut v = Vec::new();
        if self.tx && (self.rx || self.after_x_m < 1) {
            v.push('m');
        }
        if self.tx {
            v.push('D');
        }
        if self.rx {
            if self.fut {
                v.push('p');
                v.push('c');
            } else {
                v.push('s');
            }
            v.push('X');
        }
        v
    }
    fn apply(&mut self, c: char) -> String {
        match c {
            'm' => {
                let x = self.next;
                self.next += 1;
                if !self.rx {
                    self.after_x_m += 1;
                }
                format!("m{}", x)
            }
            'D' => {
                self.tx = false;
                "D".into()
            }
            's' => {
                self.fut = true;
                "s".into()
            }
            'p' => "p".into(), // may complete the future; the abstract state cannot know: see `exhaustive`
            'c' => {
                self.fut = false;
                "c".into()
            }
            'X' => {
                self.rx = false;
                self.fut = false;
                "X".into()
            }
            _ => unreachable!(),
        }
    }
}

/// Poll-granularity reference semantics used ONLY to know whether a `p` completes the future (to keep generated
/// sequences legal). The oracle in `run_chan` re-derives the same independently from the observed results.
#[derive(Clone, Copy)]
struct GenSt {
    l: Legal,
    pending_vals: u64, // merged and not yet received
}

fn exhaustive(depth: usize, emit: &mut dyn FnMut(String)) {
    fn rec(st: GenSt, ops: &mut Vec<String>, depth: usize, emit: &mut dyn FnMut(String)) {
        let choices = st.l.choices();
        if ops.len() == depth || choices.is_empty() {
            if !ops.is_empty() {
                emit(format!("chan {}", ops.join(";")));
            }
            return;
        }
        for c in choices {
            let mut n = st;
            let was_rx = n.l.rx;
            let w = n.l.apply(c);
            match c {
                'm' if was_rx => n.pending_vals += 1,
                'p' => {
                    if n.pending_vals > 0 || !n.l.tx {
                        n.pending_vals = 0;
                        n.l.fut = false; // Ready
                    }
                }
                _ => {}
            }
            ops.push(w);
            rec(n, ops, depth, emit);
            ops.pop();
        }
    }
    rec(GenSt { l: Legal::new(), pending_vals: 0 }, &mut Vec::new(), depth, emit);
}

fn random_chan(rng: &mut Rng, len: usize) -> String {
    let mut st = GenSt { l: Legal::new(), pending_vals: 0 };
    let mut ops = Vec::new();
    // per-case bias: producer-heavy, consumer-heavy, cancel-heavy
    let (wm, wp, wc, wend) = *rng.pick(&[(6u64, 6u64, 1u64, 1u64), (10, 3, 1, 1), (3, 10, 2, 1), (5, 5, 6, 1), (5, 5, 1, 0)]);
    for i in 0..len {
        let choices = st.l.choices();
        if choices.is_empty() {
            break;
        }
        let weights: Vec<u64> = choices
            .iter()
            .map(|c| match c {
                'm' => wm,
                'p' => wp,
                's' => wp + wc,
                'c' => wc,
                // endpoint drops late and rare so that long runs stay interesting
                _ => if i * 10 > len * 7 { wend } else { 0 },
            })
            .collect();
        let total: u64 = weights.iter().sum();
        let c = if total == 0 {
            *rng.pick(&choices)
        } else {
            let mut k = rng.below(total);
            let mut pick = choices[0];
            for (c, w) in choices.iter().zip(&weights) {
                if k < *w {
                    pick = *c;
                    break;
                }
                k -= *w;
            }
            pick
        };
        let was_rx = st.l.rx;
        let w = st.l.apply(c);
        match c {
            'm' if was_rx => st.pending_vals += 1,
            'p' => {
                if st.pending_vals > 0 || !st.l.tx {
                    st.pending_vals = 0;
                    st.l.fut = false;
                }
            }
            _ => {}
        }
        ops.push(w);
    }
    format!("chan {}", ops.join(";"))
}

/// Sequences with ill-formed uses (poll without a future, start twice, ops after drop): both sides must agree on
/// the no-op words `nofut` / `busy` / `norx` / `notx`.
fn sloppy_chan(rng: &mut Rng, len: usize) -> String {
    let mut next = 0;
    let ops: Vec<String> = (0..len)
        .map(|_| match rng.below(12) {
            0..=3 => {
                next += 1;
                format!("m{}", next - 1)
            }
            4..=6 => "p".into(),
            7..=8 => "s".into(),
            9 => "c".into(),
            10 => if rng.chance(1, 3) { "D".into() } else { "p".into() },
            _ => if rng.chance(1, 4) { "X".into() } else { "s".into() },
        })
        .collect();
    format!("chan {}", ops.join(";"))
}

fn route_entry(rng: &mut Rng, allow_removal: bool) -> String {
    let p = if allow_removal && rng.chance(1, 3) { "x".to_string() } else { rng.range(1, 3).to_string() };
    format!("{}.{}.{}", rng.range(1, 2), rng.range(1, 2), p)
}

fn route_list(rng: &mut Rng, allow_removal: bool, allow_empty: bool) -> String {
    let n = rng.range(if allow_empty { 0 } else { 1 }, 3);
    if n == 0 {
        return "-".into();
    }
    (0..n).map(|_| route_entry(rng, allow_removal)).collect::<Vec<_>>().join(",")
}

fn random_slot(rng: &mut Rng, len: usize) -> String {
    // weights: full fetch (F/R), full fetch with routes (G/H), topology, hint, client routes, take
    let (wf, wg, wt, wh, wc, wk) = *rng.pick(&[
        (3u64, 2u64, 3u64, 3u64, 3u64, 2u64),
        (4, 1, 2, 1, 1, 1),
        (1, 1, 6, 2, 2, 2),
        (2, 1, 2, 8, 1, 1),
        (1, 4, 2, 0, 6, 2),
        (0, 3, 1, 0, 8, 2),
        (2, 0, 2, 0, 6, 3),
    ]);
    let mut tag = 0u64;
    let ops: Vec<String> = (0..len)
        .map(|_| {
            let k = rng.below(wf + wg + wt + wh + wc + wk);
            if k < wf {
                tag += 1;
                format!("{}{}", if rng.bool() { 'F' } else { 'R' }, tag)
            } else if k < wf + wg {
                tag += 1;
                format!("{}{}/{}", if rng.bool() { 'G' } else { 'H' }, tag, route_list(rng, false, true))
            } else if k < wf + wg + wt {
                tag += 1;
                format!("T{}", tag)
            } else if k < wf + wg + wt + wh {
                format!("{}{}", if rng.bool() { 'U' } else { 'W' }, rng.range(1, 4))
            } else if k < wf + wg + wt + wh + wc {
                let allow_empty = rng.chance(1, 10);
                format!("C{}", route_list(rng, true, allow_empty))
            } else {
                "K".into()
            }
        })
        .collect();
    format!("slot {}", ops.join(";"))
}

/// All sequences of `depth` ops over the alphabet, each followed by a take; tags numbered by position so that
/// "latest" is observable. `routes`: also the client-routes ops (upsert, removal, full fetch with routes).
fn exhaustive_slot(depth: usize, routes: bool, emit: &mut dyn FnMut(String)) {
    fn rec(ops: &mut Vec<String>, depth: usize, routes: bool, emit: &mut dyn FnMut(String)) {
        if ops.len() == depth {
            emit(format!("slot {};K", ops.join(";")));
            return;
        }
        let t = ops.len() + 1;
        let mut alphabet = vec![format!("F{}", t), format!("R{}", t), format!("T{}", t), "K".to_string()];
        if routes {
            alphabet.push(format!("C1.1.{}", t));
            alphabet.push("C1.1.x,1.2.7".to_string());
            alphabet.push(format!("H{}/1.1.9", t));
        } else {
            alphabet.push("U1".to_string());
            alphabet.push("W1".to_string());
        }
        for w in alphabet {
            ops.push(w);
            rec(ops, depth, routes, emit);
            ops.pop();
        }
    }
    rec(&mut Vec::new(), depth, routes, emit);
}

pub fn generate(rng: &mut Rng, tier: Tier, emit: &mut dyn FnMut(String)) {
    let quick = tier == Tier::Quick;
    let mut light: Vec<String> = Vec::new();
    {
        let mut push = |c: String| light.push(c);
        // exhaustive legal interleavings at poll granularity
        exhaustive(if quick { 9 } else { 13 }, &mut push);
        // random long runs
        for _ in 0..(if quick { 4_000 } else { 60_000 }) {
            let len = *rng.pick(&[12usize, 20, 40, 80, 200]);
            push(random_chan(rng, len));
        }
        for _ in 0..(if quick { 1_500 } else { 20_000 }) {
            let len = rng.range(1, 24) as usize;
            push(sloppy_chan(rng, len));
        }
        // slot merges
        exhaustive_slot(if quick { 4 } else { 6 }, false, &mut push);
        exhaustive_slot(if quick { 4 } else { 6 }, true, &mut push);
        for _ in 0..(if quick { 4_000 } else { 60_000 }) {
            let len = rng.range(1, 30) as usize;
            push(random_slot(rng, len));
        }
    }
    // the real ClusterWorker behind the channel (consumer side: what is published)
    crate::c19_worker::generate(rng, tier, &mut |c| light.push(c));
    // the real MetadataWorker in front of the channel (producer side: which fetch serves which request)
    crate::c19_producer::generate(rng, tier, &mut |c| light.push(c));
    crate::c19_producer::generate_estab(tier, &mut |c| light.push(c));
    // the real ControlConnectionEvents::wait_for_event at poll granularity, cancelled and restarted
    crate::c19_evwait::generate(rng, tier, &mut |c| light.push(c));
    // two OS threads (spread evenly over the case list so that the runner's chunks share them)
    let mut heavy: Vec<String> = Vec::new();
    let (cases, n) = if quick { (24, 30_000u64) } else { (60, 300_000u64) };
    for i in 0..cases {
        heavy.push(format!("stress {} {} {}", if i % 6 == 0 { n / 100 } else { n }, i % 3, rng.below(1 << 32)));
    }
    // end-of-stream race (last merge immediately followed by the drop), repeated many times per case
    for i in 0..(if quick { 24 } else { 320 }) {
        heavy.push(format!("race {} {} {}", if quick { 8_000 } else { 50_000 }, i % 4 + 1, rng.below(1 << 32)));
    }
    if !quick {
        heavy.push(format!("stress 1000000 0 {}", rng.below(1 << 32)));
        heavy.push(format!("stress 1000000 1 {}", rng.below(1 << 32)));
        heavy.push(format!("stress 1000000 2 {}", rng.below(1 << 32)));
    }
    let every = (light.len() / heavy.len()).max(1);
    let mut h = heavy.into_iter();
    for (i, c) in light.into_iter().enumerate() {
        if i % every == 0 {
            if let Some(hc) = h.next() {
                emit(hc);
            }
        }
        emit(c);
    }
    for hc in h {
        emit(hc);
    }
}

// ---------------------------------------------------------------------------------------------
// chan
// ---------------------------------------------------------------------------------------------

struct CountWaker(AtomicUsize);

impl Wake for CountWaker {
    fn wake(self: Arc<Self>) {
        self.0.fetch_add(1, Ordering::SeqCst);
    }
    fn wake_by_ref(self: &Arc<Self>) {
        self.0.fetch_add(1, Ordering::SeqCst);
    }
}

type RecvFut = Pin<Box<dyn Future<Output = Option<Vec<u64>>>>>;

/// The receiver together with (at most) one `recv()` future borrowing it. The future is always dropped first.
struct Consumer {
    rx: *mut hooks::MergeReceiver,
    fut: Option<RecvFut>,
}

impl Consumer {
    fn new(rx: hooks::MergeReceiver) -> Self {
        Consumer { rx: Box::into_raw(Box::new(rx)), fut: None }
    }
    fn alive(&self) -> bool {
        !self.rx.is_null()
    }
    fn start(&mut self) {
        assert!(self.fut.is_none() && self.alive());
        // SAFETY: `rx` stays boxed at a fixed address until `drop_receiver`, which drops the future first;
        // at most one future (one `&mut` borrow) exists at a time.
        let rx: &'static mut hooks::MergeReceiver = unsafe { &mut *self.rx };
        self.fut = Some(Box::pin(rx.recv()));
    }
    fn drop_receiver(&mut self) {
        self.fut = None;
        if !self.rx.is_null() {
            // SAFETY: allocated by Box::into_raw in `new`, no borrow left.
            drop(unsafe { Box::from_raw(self.rx) });
            self.rx = std::ptr::null_mut();
        }
    }
}

impl Drop for Consumer {
    fn drop(&mut self) {
        self.drop_receiver();
    }
}

fn fmt_vals(v: &[u64]) -> String {
    v.iter().map(|x| x.to_string()).collect::<Vec<_>>().join(",")
}

fn run_chan(body: &str, ctx: &mut Ctx) -> String {
    let (tx, rx) = hooks::channel();
    let mut tx = Some(tx);
    let mut cons = Consumer::new(rx);
    let counter = Arc::new(CountWaker(AtomicUsize::new(0)));
    let waker = Waker::from(counter.clone());
    let wakes = || counter.0.load(Ordering::SeqCst);

    // oracle state (specification at poll granularity; independent of the Lean model)
    let mut merged: Vec<u64> = Vec::new(); // successfully merged, in order
    let mut received: Vec<u64> = Vec::new(); // concatenation of the received values
    let mut armed = false; // the last poll returned Pending and the waker has not been woken since
    let mut got_none = false;

    let mut out: Vec<String> = Vec::new();
    for (i, op) in body.split(';').filter(|o| !o.is_empty()).enumerate() {
        let (c, arg) = op.split_at(1);
        let before = wakes();
        let word: String = match c {
            "m" => {
                let Ok(x) = arg.parse::<u64>() else { return "bad-case".into() };
                match tx.as_mut() {
                    None => "notx".into(),
                    Some(t) => match t.merge(x) {
                        Ok(()) => {
                            if !cons.alive() {
                                ctx.fail(format!("op {}: modify returned Ok after the receiver was dropped", i));
                            }
                            merged.push(x);
                            if armed {
                                if wakes() == before {
                                    ctx.fail(format!("op {}: lost wake-up: consumer is parked, a value was merged, waker not woken", i));
                                }
                                armed = false;
                            }
                            "ok".into()
                        }
                        Err(()) => {
                            if cons.alive() {
                                ctx.fail(format!("op {}: modify returned SendError while the receiver is alive", i));
                            }
                            "senderror".into()
                        }
                    },
                }
            }
            _ if !arg.is_empty() => return "bad-case".into(),
            "D" => match tx.take() {
                None => "notx".into(),
                Some(t) => {
                    drop(t);
                    if armed {
                        if wakes() == before {
                            ctx.fail(format!("op {}: lost wake-up: consumer is parked, the sender was dropped, waker not woken", i));
                        }
                        armed = false;
                    }
                    "dropped".into()
                }
            },
            "s" => {
                if !cons.alive() {
                    "norx".into()
                } else if cons.fut.is_some() {
                    "busy".into()
                } else {
                    cons.start();
                    "started".into()
                }
            }
            "p" => {
                if !cons.alive() {
                    "norx".into()
                } else if cons.fut.is_none() {
                    "nofut".into()
                } else {
                    let mut cx = Context::from_waker(&waker);
                    let res = cons.fut.as_mut().unwrap().as_mut().poll(&mut cx);
                    let outstanding = &merged[received.len().min(merged.len())..];
                    match res {
                        Poll::Pending => {
                            if !outstanding.is_empty() {
                                ctx.fail(format!("op {}: recv is Pending although {} merged update(s) are waiting in the slot", i, outstanding.len()));
                            } else if tx.is_none() {
                                ctx.fail(format!("op {}: recv is Pending although the sender is gone and nothing is left (would hang)", i));
                            }
                            armed = true;
                            "pending".into()
                        }
                        Poll::Ready(Some(v)) => {
                            if got_none {
                                ctx.fail(format!("op {}: a value was received after None", i));
                            }
                            if v.is_empty() {
                                ctx.fail(format!("op {}: empty value received", i));
                            }
                            if v.as_slice() != outstanding {
                                ctx.fail(format!(
                                    "op {}: received [{}] but the updates merged and not yet received are [{}] (lost / duplicated / reordered)",
                                    i, fmt_vals(&v), fmt_vals(outstanding)
                                ));
                            }
                            received.extend_from_slice(&v);
                            cons.fut = None;
                            armed = false;
                            format!("ready[{}]", fmt_vals(&v))
                        }
                        Poll::Ready(None) => {
                            if tx.is_some() {
                                ctx.fail(format!("op {}: recv returned None while the sender is alive", i));
                            }
                            if !outstanding.is_empty() {
                                ctx.fail(format!("op {}: recv returned None before the last {} merged update(s) were received", i, outstanding.len()));
                            }
                            got_none = true;
                            cons.fut = None;
                            armed = false;
                            "none".into()
                        }
                    }
                }
            }
            "c" => {
                if !cons.alive() {
                    "norx".into()
                } else if cons.fut.is_none() {
                    "nofut".into()
                } else {
                    cons.fut = None;
                    armed = false;
                    "cancelled".into()
                }
            }
            "X" => {
                if !cons.alive() {
                    "norx".into()
                } else {
                    cons.drop_receiver();
                    armed = false;
                    "rxdropped".into()
                }
            }
            _ => return "bad-case".into(),
        };
        out.push(format!("{}:{}", word, wakes()));
    }
    out.join(";")
}

// ---------------------------------------------------------------------------------------------
// slot
// ---------------------------------------------------------------------------------------------

fn dash(xs: Vec<String>) -> String {
    if xs.is_empty() { "-".into() } else { xs.join(",") }
}

/// Reference for the client-routes part of a slot (written from update.rs' doc comments, independent of the Lean
/// model): what the consumer must find at the next take.
#[derive(Clone, PartialEq, Debug)]
enum RoutesRef {
    /// nothing about client routes in the slot
    Absent,
    /// pending partial update: latest entry per (host, conn) wins; `None` = removal
    Partial(std::collections::BTreeMap<(u64, u16), Option<u16>>),
    /// full fetch with client routes configured: the snapshot, with later partial updates applied
    Full(std::collections::BTreeMap<(u64, u16), u16>),
    /// full fetch, client routes not configured: updates are ignored
    FullUnconfigured,
}

fn parse_route_entries(s: &str, allow_removal: bool) -> Option<Vec<(u64, u16, Option<u16>)>> {
    if s == "-" {
        return Some(vec![]);
    }
    s.split(',')
        .map(|e| {
            let parts: Vec<&str> = e.split('.').collect();
            if parts.len() != 3 {
                return None;
            }
            let h = parts[0].parse().ok()?;
            let c = parts[1].parse().ok()?;
            let p = if parts[2] == "x" {
                if !allow_removal {
                    return None;
                }
                None
            } else {
                Some(parts[2].parse().ok()?)
            };
            Some((h, c, p))
        })
        .collect()
}

fn fmt_routes(r: &Option<Vec<(u64, u16, Option<u16>)>>) -> String {
    match r {
        None => "none".into(),
        Some(v) => dash(
            v.iter()
                .map(|(h, c, p)| format!("{}.{}.{}", h, c, p.map(|p| p.to_string()).unwrap_or_else(|| "x".into())))
                .collect(),
        ),
    }
}

fn run_slot(body: &str, ctx: &mut Ctx) -> String {
    let mut slot = hooks::UpdateSlot::new();
    // oracle state since the last take
    let mut outstanding: Vec<u64> = Vec::new(); // refresh ids attached and not yet answered
    let mut ever_answered: Vec<u64> = Vec::new();
    let mut latest_tag: Option<u64> = None;
    let mut any_full = false;
    let mut any_partial = false;
    let mut routes = RoutesRef::Absent;
    let mut hints: std::collections::BTreeMap<u16, bool> = Default::default();
    let mut out = Vec::new();
    for (i, op) in body.split(';').filter(|o| !o.is_empty()).enumerate() {
        let (c, arg) = op.split_at(1);
        if c == "K" {
            if !arg.is_empty() {
                return "bad-case".into();
            }
            let (view, lost) = slot.take();
            if !lost.is_empty() {
                ctx.fail(format!("op {}: refresh request(s) {:?} dropped unanswered (reply channel lost in a merge)", i, lost));
            }
            if view.refresh_ids != outstanding {
                ctx.fail(format!("op {}: take answered refresh ids {:?}, attached and unanswered were {:?}", i, view.refresh_ids, outstanding));
            }
            for id in &view.refresh_ids {
                if ever_answered.contains(id) {
                    ctx.fail(format!("op {}: refresh id {} answered twice", i, id));
                }
                ever_answered.push(*id);
            }
            if view.peers_tag != latest_tag {
                ctx.fail(format!("op {}: taken topology {:?}, latest merged {:?}", i, view.peers_tag, latest_tag));
            }
            let want_kind = if any_full { "full" } else if any_partial { "partial" } else { "none" };
            if view.kind != want_kind {
                ctx.fail(format!("op {}: taken kind {}, expected {}", i, view.kind, want_kind));
            }
            let want_hints: Vec<(u16, bool)> = hints.iter().map(|(a, u)| (*a, *u)).collect();
            if view.hints != want_hints {
                ctx.fail(format!("op {}: taken hints {:?}, latest per address {:?}", i, view.hints, want_hints));
            }
            let want_routes: Option<Vec<(u64, u16, Option<u16>)>> = match &routes {
                RoutesRef::Absent | RoutesRef::FullUnconfigured => None,
                RoutesRef::Partial(m) => Some(m.iter().map(|(k, p)| (k.0, k.1, *p)).collect()),
                RoutesRef::Full(m) => Some(m.iter().map(|(k, p)| (k.0, k.1, Some(*p))).collect()),
            };
            if view.routes != want_routes {
                ctx.fail(format!("op {}: taken client routes {}, expected {}", i, fmt_routes(&view.routes), fmt_routes(&want_routes)));
            }
            out.push(format!(
                "{} peers={} refresh={} hints={} routes={} lost={}",
                view.kind,
                view.peers_tag.map(|t| t.to_string()).unwrap_or_else(|| "-".into()),
                dash(view.refresh_ids.iter().map(|x| x.to_string()).collect()),
                dash(view.hints.iter().map(|(a, u)| format!("{}{}", a, if *u { '+' } else { '-' })).collect()),
                fmt_routes(&view.routes),
                dash(lost.iter().map(|x| x.to_string()).collect()),
            ));
            outstanding.clear();
            latest_tag = None;
            any_full = false;
            any_partial = false;
            routes = RoutesRef::Absent;
            hints.clear();
            continue;
        }
        if c == "C" {
            let Some(entries) = parse_route_entries(arg, true) else { return "bad-case".into() };
            slot.merge_client_routes(&entries);
            match &mut routes {
                RoutesRef::Absent => {
                    any_partial = true;
                    routes = RoutesRef::Partial(entries.iter().map(|&(h, c, p)| ((h, c), p)).collect());
                }
                RoutesRef::Partial(m) => {
                    for &(h, c, p) in &entries {
                        m.insert((h, c), p);
                    }
                }
                RoutesRef::Full(m) => {
                    // later entries of the same update override earlier ones before it is applied
                    let upd: std::collections::BTreeMap<(u64, u16), Option<u16>> = entries.iter().map(|&(h, c, p)| ((h, c), p)).collect();
                    for (k, p) in upd {
                        match p {
                            Some(p) => {
                                m.insert(k, p);
                            }
                            None => {
                                m.remove(&k);
                            }
                        }
                    }
                }
                RoutesRef::FullUnconfigured => {}
            }
            if !any_full {
                any_partial = true;
            }
            out.push("-".into());
            continue;
        }
        if c == "G" || c == "H" {
            let Some((tag, rs)) = arg.split_once('/') else { return "bad-case".into() };
            let Ok(tag) = tag.parse::<u64>() else { return "bad-case".into() };
            let Some(entries) = parse_route_entries(rs, false) else { return "bad-case".into() };
            let entries: Vec<(u64, u16, u16)> = entries.into_iter().map(|(h, c, p)| (h, c, p.unwrap())).collect();
            let id = slot.merge_metadata_with_routes(tag, c == "H", &entries);
            latest_tag = Some(tag);
            any_full = true;
            routes = RoutesRef::Full(entries.iter().map(|&(h, c, p)| ((h, c), p)).collect());
            match (c, id) {
                ("H", Some(id)) => {
                    outstanding.push(id);
                    out.push(format!("r{}", id));
                }
                ("H", None) => {
                    ctx.fail(format!("op {}: no refresh id", i));
                    out.push("r?".into());
                }
                (_, Some(_)) => {
                    ctx.fail(format!("op {}: refresh id returned for a merge without refresh", i));
                    out.push("-".into());
                }
                _ => out.push("-".into()),
            }
            continue;
        }
        let Ok(n) = arg.parse::<u64>() else { return "bad-case".into() };
        match c {
            "F" => {
                if slot.merge_metadata(n, false).is_some() {
                    ctx.fail(format!("op {}: refresh id returned for a merge without refresh", i));
                }
                latest_tag = Some(n);
                any_full = true;
                routes = RoutesRef::FullUnconfigured;
                out.push("-".into());
            }
            "R" => {
                let id = slot.merge_metadata(n, true);
                latest_tag = Some(n);
                any_full = true;
                routes = RoutesRef::FullUnconfigured;
                match id {
                    Some(id) => {
                        outstanding.push(id);
                        out.push(format!("r{}", id));
                    }
                    None => {
                        ctx.fail(format!("op {}: no refresh id", i));
                        out.push("r?".into());
                    }
                }
            }
            "T" => {
                slot.merge_topology(n);
                latest_tag = Some(n);
                if !any_full {
                    any_partial = true;
                }
                out.push("-".into());
            }
            "U" | "W" => {
                if n > 65535 {
                    return "bad-case".into();
                }
                slot.merge_hint(n as u16, c == "U");
                hints.insert(n as u16, c == "U");
                out.push("-".into());
            }
            _ => return "bad-case".into(),
        }
    }
    out.join(";")
}

pub fn run(case: &str, ctx: &mut Ctx) -> String {
    let w: Vec<&str> = case.split_whitespace().collect();
    match w.as_slice() {
        ["chan"] => run_chan("", ctx),
        ["chan", body] => run_chan(body, ctx),
        ["slot"] => run_slot("", ctx),
        ["slot", body] => run_slot(body, ctx),
        ["producer", body] => crate::c19_producer::run_producer(body, ctx),
        ["producer", iv, body] => match crate::c19_producer::interval_of(iv) {
            Some(d) => crate::c19_producer::run_producer_iv(d, body, ctx),
            None => "bad-case".into(),
        },
        ["estab", script, rej, f] => crate::c19_producer::run_estab(script, rej, f, ctx),
        ["evwait", capw] => crate::c19_evwait::run_evwait(capw, "", ctx),
        ["evwait", capw, body] => crate::c19_evwait::run_evwait(capw, body, ctx),
        ["worker"] => crate::c19_worker::run_worker("", ctx),
        ["worker", body] => crate::c19_worker::run_worker(body, ctx),
        ["stress", n, mode, seed] => match (n.parse(), mode.parse(), seed.parse()) {
            (Ok(n), Ok(mode), Ok(seed)) => run_stress(n, mode, seed, ctx),
            _ => "bad-case".into(),
        },
        ["race", reps, n, seed] => match (reps.parse(), n.parse(), seed.parse()) {
            (Ok(reps), Ok(n), Ok(seed)) => run_race(reps, n, seed, ctx),
            _ => "bad-case".into(),
        },
        _ => "bad-case".into(),
    }
}

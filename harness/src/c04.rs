//! C04 — computed replica sets equal the cluster's own replica placement.
//!
//! Case: `q<kind> <topology> <keyspace strategies> <strategy> <dc|-> <token>` (syntax: `topology.rs`).
//! The cluster is built through `ClusterState::new` (hook `cluster_from_topology`); the keyspace strategies are
//! the ones the driver precomputes, the queried strategy may or may not be among them.
//! Output: `len=… iter=… choose=… ord=… ep=… epl=… epu=…` (node ids).
//! Refresh history: `h<kind> <n> (<mode> <topology> <strategies>)xn <strategy> <dc|-> <token>` - build (`n`), then
//! full (`r`, `cluster_refresh`) or topology-only (`t`, `cluster_refresh_topology`) refreshes; the output is the
//! observation after every step joined by ` / `; after every step the state must answer exactly like a cluster
//! built from scratch from the same metadata (and obey the placement rules).
//!
//! Oracle (independent of the Lean model): a brute-force implementation of the two placement rules as the
//! property states them; precomputed answer = on-the-fly answer; datacenter restriction = filtering the
//! unrestricted answer; len / iteration / nth / random choice / ring-ordered views describe the same nodes.
use crate::rng::Rng;
use crate::topology::*;
use crate::util::nat_list;
use crate::{Ctx, Tier};
use scylla::cluster::ClusterState;
use scylla::cluster::metadata::Strategy;
use scylla::frame::response::result::TableSpec;
use scylla::routing::Token;
use std::cell::RefCell;
use std::collections::HashMap;
use std::rc::Rc;

// ---------------------------------------------------------------------------------------------
// scripted RNG for `choose_filtered`

/// `rand` 0.9 `random_range(0..len)` for `usize` (len <= u32::MAX) draws one `u32` `v` and returns
/// `(v * len) >> 32` (plus a bias-correction draw only when the low word exceeds `2^32 - len`).
/// `v = ceil(i * 2^32 / len)` therefore selects index `i` exactly. After the script: SplitMix64.
struct ScriptedRng {
    script: Vec<u32>,
    pos: usize,
    tail: Rng,
}

impl ScriptedRng {
    fn for_index(i: usize, len: usize) -> Self {
        let v = ((i as u128) << 32).div_ceil(len as u128) as u32;
        ScriptedRng { script: vec![v], pos: 0, tail: Rng::new(i as u64 * 7919 + len as u64) }
    }
    fn seeded(seed: u64) -> Self {
        ScriptedRng { script: vec![], pos: 0, tail: Rng::new(seed) }
    }
}

impl rand::RngCore for ScriptedRng {
    fn next_u32(&mut self) -> u32 {
        if self.pos < self.script.len() {
            self.pos += 1;
            self.script[self.pos - 1]
        } else {
            self.tail.next() as u32
        }
    }
    fn next_u64(&mut self) -> u64 {
        let lo = self.next_u32() as u64;
        let hi = self.next_u32() as u64;
        (hi << 32) | lo
    }
    fn fill_bytes(&mut self, dst: &mut [u8]) {
        for b in dst.iter_mut() {
            *b = self.next_u32() as u8;
        }
    }
}

// ---------------------------------------------------------------------------------------------
// cluster cache (cases of one topology are consecutive)

thread_local! {
    static CACHE: RefCell<HashMap<String, Rc<ClusterState>>> = RefCell::new(HashMap::new());
    static HCACHE: RefCell<HashMap<String, (Rc<ClusterState>, String, String)>> = RefCell::new(HashMap::new());
}

pub(crate) fn cluster(topo_s: &str, peers: &[PeerSpec], pre_s: &str, pre: &[Option<Strat>]) -> Rc<ClusterState> {
    let key = format!("{} {}", topo_s, pre_s);
    CACHE.with(|c| {
        let mut c = c.borrow_mut();
        if let Some(cs) = c.get(&key) {
            return cs.clone();
        }
        if c.len() >= 24 {
            c.clear();
        }
        let cs = Rc::new(build_state_general(None, peers, pre, false));
        c.insert(key, cs.clone());
        cs
    })
}

// ---------------------------------------------------------------------------------------------
// brute-force placement rules, written from the property statement

/// (token, index into peers), sorted by token (stable, metadata order).
fn ring_of(peers: &[PeerSpec], only_dc: Option<u32>) -> Vec<(i64, usize)> {
    let mut r: Vec<(i64, usize)> = Vec::new();
    for (i, p) in peers.iter().enumerate() {
        if only_dc.is_none() || p.dc == only_dc {
            // a node is its host id: rows repeating an id (`d` cases) are the node of the first such row
            let canon = peers.iter().position(|q| q.id == p.id).unwrap_or(i);
            for t in &p.tokens {
                r.push((norm_token(*t), canon));
            }
        }
    }
    r.sort_by_key(|e| e.0);
    r
}

/// Topology of a `d` case: as `parse_topology`, but a host id may be listed more than once; rows with one id must
/// agree on datacenter, rack and flags (they describe one node).
fn parse_topology_rep(s: &str) -> Option<Vec<PeerSpec>> {
    if s == "-" {
        return Some(vec![]);
    }
    let mut out: Vec<PeerSpec> = Vec::new();
    for p in s.split(';') {
        if p == "-" {
            return None;
        }
        out.append(&mut parse_topology(p)?);
    }
    for a in &out {
        for b in &out {
            if a.id == b.id && (a.dc != b.dc || a.rack != b.rack || a.flags != b.flags) {
                return None;
            }
        }
    }
    Some(out)
}

/// Index from which the hooks derived a node's address (`127.0.(i / 250).(i % 250 + 1)`).
fn addr_index(n: &scylla::cluster::Node) -> u64 {
    match n.address.ip() {
        std::net::IpAddr::V4(a) => a.octets()[2] as u64 * 250 + a.octets()[3] as u64 - 1,
        _ => u64::MAX,
    }
}

/// `d` cases: what the state holds for a peer list that repeats host ids.  Returns ` ring=.. known=..`.
/// Oracle (from the property: "for every token ring, node placement"): the ring holds exactly the rows' tokens under
/// the rows' host ids, sorted by token; every node object in the ring carries its row's datacenter and rack; the known
/// nodes are the rows' host ids, once each.
fn observe_repeated(cs: &ClusterState, peers: &[PeerSpec], label: &str, ctx: &mut Ctx) -> String {
    let ring: Vec<(i64, &std::sync::Arc<scylla::cluster::Node>)> =
        cs.replica_locator().ring().iter().map(|(t, n)| (t.value(), n)).collect();
    if ring.windows(2).any(|w| w[0].0 > w[1].0) {
        ctx.fail(format!("{}: the ring is not sorted by token", label));
    }
    let mut got: Vec<(i64, u64)> = ring.iter().map(|(t, n)| (*t, node_id(n.host_id))).collect();
    let mut want: Vec<(i64, u64)> = peers.iter().flat_map(|p| p.tokens.iter().map(|t| (norm_token(*t), p.id))).collect();
    got.sort_unstable();
    want.sort_unstable();
    if got != want {
        ctx.fail(format!("{}: the ring holds (token, host) {:?}, the peer rows say {:?}", label, got, want));
    }
    for (_, n) in &ring {
        let id = node_id(n.host_id);
        if let Some(p) = peers.iter().find(|p| p.id == id) {
            if n.datacenter != p.dc.map(dc_name) || n.rack != p.rack.map(rack_name) {
                ctx.fail(format!("{}: ring node {} has datacenter {:?} rack {:?}, its rows say {:?} {:?}", label, id, n.datacenter, n.rack, p.dc, p.rack));
            }
        }
    }
    let mut known: Vec<(u64, u64)> = cs.get_nodes_info().iter().map(|n| (node_id(n.host_id), addr_index(n))).collect();
    known.sort_unstable();
    let mut ids: Vec<u64> = peers.iter().map(|p| p.id).collect();
    ids.sort_unstable();
    ids.dedup();
    if known.iter().map(|k| k.0).collect::<Vec<_>>() != ids {
        ctx.fail(format!("{}: known nodes {:?}, the peer rows list the hosts {:?}", label, known, ids));
    }
    for (id, _) in &known {
        let by_id = cs.get_node_by_host_id(host_id(*id)).map(|n| node_id(n.host_id));
        if by_id != Some(*id) {
            ctx.fail(format!("{}: get_node_by_host_id({}) = {:?}", label, id, by_id));
        }
    }
    let show = |v: Vec<String>| if v.is_empty() { "-".to_owned() } else { v.join(",") };
    format!(
        " ring={} known={}",
        show(ring.iter().map(|(_, n)| format!("{}@{}", node_id(n.host_id), addr_index(n))).collect()),
        show(known.iter().map(|(i, a)| format!("{}@{}", i, a)).collect())
    )
}

/// Distinct nodes clockwise from the token: owners of tokens >= tok in ascending order, then the rest.
fn clockwise_distinct(ring: &[(i64, usize)], tok: i64) -> Vec<usize> {
    let mut out: Vec<usize> = Vec::new();
    for (_, n) in ring.iter().filter(|e| e.0 >= tok).chain(ring.iter().filter(|e| e.0 < tok)) {
        if !out.contains(n) {
            out.push(*n);
        }
    }
    out
}

fn brute_simple(peers: &[PeerSpec], tok: i64, rf: usize) -> Vec<u64> {
    let ring = ring_of(peers, None);
    clockwise_distinct(&ring, tok).into_iter().take(rf).map(|i| peers[i].id).collect()
}

fn brute_nts_dc(peers: &[PeerSpec], tok: i64, dc: u32, rf: usize) -> Vec<u64> {
    let ring = ring_of(peers, Some(dc));
    let nodes = clockwise_distinct(&ring, tok);
    let mut racks: Vec<Option<u32>> = nodes.iter().map(|i| peers[*i].rack).collect();
    racks.sort();
    racks.dedup();
    let allowed_repeats = rf.saturating_sub(racks.len());
    let target = rf.min(nodes.len());
    let mut taken: Vec<usize> = Vec::new();
    let mut repeats = 0usize;
    for n in nodes {
        if taken.len() == target {
            break;
        }
        let rack_new = !taken.iter().any(|t| peers[*t].rack == peers[n].rack);
        if rack_new {
            taken.push(n);
        } else if repeats < allowed_repeats {
            repeats += 1;
            taken.push(n);
        }
    }
    taken.into_iter().map(|i| peers[i].id).collect()
}

/// Datacenters of the ring in order of first appearance (lowest token first): the order in which the driver
/// concatenates the per-datacenter lists of an unrestricted NTS replica set.
fn ring_dc_order(peers: &[PeerSpec]) -> Vec<u32> {
    let mut out: Vec<u32> = Vec::new();
    for (_, i) in ring_of(peers, None) {
        if let Some(d) = peers[i].dc {
            if !out.contains(&d) {
                out.push(d);
            }
        }
    }
    out
}

/// The replicas the placement rules give, as an ordered list (iteration order of the replica set).
pub(crate) fn expected(peers: &[PeerSpec], strat: &Strat, dc: Option<u32>, tok: i64) -> Vec<u64> {
    let dc_of = |id: u64| peers.iter().find(|p| p.id == id).and_then(|p| p.dc);
    match strat {
        Strat::Simple(_) | Strat::Local | Strat::Other => {
            let rf = if let Strat::Simple(rf) = strat { *rf } else { 1 };
            let mut want = brute_simple(peers, tok, rf);
            if let Some(d) = dc {
                want.retain(|id| dc_of(*id) == Some(d));
            }
            want
        }
        Strat::Nts(repf) => {
            let rf_of = |d: u32| repf.iter().find(|(x, _)| *x == d).map(|(_, rf)| *rf);
            match dc {
                Some(d) => rf_of(d).map(|rf| brute_nts_dc(peers, tok, d, rf)).unwrap_or_default(),
                None => ring_dc_order(peers)
                    .into_iter()
                    .flat_map(|d| brute_nts_dc(peers, tok, d, rf_of(d).unwrap_or(0)))
                    .collect(),
            }
        }
    }
}

/// `Iterator::size_hint` contract along a whole iteration: lower <= remaining <= upper at every step.
fn check_size_hint<I: Iterator>(mut it: I, total: usize, ctx: &mut Ctx, what: &str) {
    let mut yielded = 0usize;
    loop {
        let (lo, hi) = it.size_hint();
        let remaining = total - yielded;
        if lo > remaining || hi.is_some_and(|h| h < remaining) {
            ctx.fail(format!("{}: size_hint() = ({}, {:?}) after {} of {} replicas", what, lo, hi, yielded, total));
            return;
        }
        if it.next().is_none() || yielded >= total {
            return;
        }
        yielded += 1;
    }
}

// ---------------------------------------------------------------------------------------------

#[derive(Clone, Debug, PartialEq, Eq)]
struct Views {
    len: usize,
    iter: Vec<u64>,
    choose: Vec<Option<u64>>,
    ord: Vec<u64>,
}

fn ids(it: impl Iterator<Item = u64>) -> Vec<u64> {
    it.collect()
}

fn observe(cs: &ClusterState, tok: i64, strat: &Strategy, dc: Option<&str>, ctx: &mut Ctx, what: &str) -> Views {
    let loc = cs.replica_locator();
    let ts = TableSpec::borrowed("k0", "t");
    let token = Token::new(tok);
    let rs = || loc.replicas_for_token(token, strat, dc, &ts);
    let len = rs().len();
    if rs().is_empty() != (len == 0) {
        ctx.fail(format!("{}: is_empty() = {} but len() = {}", what, rs().is_empty(), len));
    }
    let iter = ids(rs().into_iter().map(|(n, _)| node_id(n.host_id)));
    if iter.len() != len {
        ctx.fail(format!("{}: len() = {} but iteration yields {} replicas", what, len, iter.len()));
    }
    {
        let mut s = iter.clone();
        s.sort_unstable();
        s.dedup();
        if s.len() != iter.len() {
            ctx.fail(format!("{}: iteration yields a replica twice: {:?}", what, iter));
        }
    }
    // nth(k) from a fresh iterator = k-th element of the iteration
    for k in 0..=iter.len() + 1 {
        let got = rs().into_iter().nth(k).map(|(n, _)| node_id(n.host_id));
        if got != iter.get(k).copied() {
            ctx.fail(format!("{}: nth({}) = {:?}, iteration has {:?}", what, k, got, iter.get(k)));
        }
    }
    // nth after a partial iteration
    if iter.len() >= 2 {
        let mut it = rs().into_iter();
        it.next();
        let k = iter.len() / 2;
        let got = it.nth(k).map(|(n, _)| node_id(n.host_id));
        if got != iter.get(k + 1).copied() {
            ctx.fail(format!("{}: next(); nth({}) = {:?}, iteration has {:?}", what, k, got, iter.get(k + 1)));
        }
    }
    // random choice: sweep every index
    let mut choose: Vec<Option<u64>> = Vec::new();
    for i in 0..len {
        let mut rng = ScriptedRng::for_index(i, len);
        let got = rs().choose_filtered(&mut rng, |_| true).map(|(n, _)| node_id(n.host_id));
        match got {
            Some(id) if iter.contains(&id) => {}
            other => ctx.fail(format!("{}: random choice (index {}) gave {:?}, not one of {:?}", what, i, other, iter)),
        }
        if got != iter.get(i).copied() {
            ctx.fail(format!("{}: random choice with index {} gave {:?}, the iteration has {:?} there", what, i, got, iter.get(i)));
        }
        choose.push(got);
    }
    if len == 0 {
        let mut rng = ScriptedRng::seeded(1);
        if rs().choose_filtered(&mut rng, |_| true).is_some() {
            ctx.fail(format!("{}: random choice from an empty replica set returned a node", what));
        }
    } else {
        let mut c: Vec<u64> = choose.iter().flatten().copied().collect();
        c.sort_unstable();
        c.dedup();
        let mut s = iter.clone();
        s.sort_unstable();
        if c != s {
            ctx.fail(format!("{}: random choice over all indices reaches {:?}, iteration has {:?}", what, c, s));
        }
    }
    // filtered choice: the predicate is respected and every replica can be chosen
    for (j, x) in iter.iter().enumerate().take(5) {
        let mut rng = ScriptedRng::seeded((j as u64 * 31).wrapping_add(tok as u64));
        let got = rs()
            .choose_filtered(&mut rng, |(n, _)| node_id(n.host_id) == *x)
            .map(|(n, _)| node_id(n.host_id));
        if got != Some(*x) {
            ctx.fail(format!("{}: choose_filtered(only {}) = {:?}", what, x, got));
        }
    }
    {
        let mut rng = ScriptedRng::seeded(tok as u64 ^ 5);
        if rs().choose_filtered(&mut rng, |_| false).is_some() {
            ctx.fail(format!("{}: choose_filtered(nothing) returned a node", what));
        }
    }
    let ord = ids(rs().into_replicas_ordered().into_iter().map(|(n, _)| node_id(n.host_id)));
    check_size_hint(rs().into_iter(), iter.len(), ctx, &format!("{} iterator", what));
    check_size_hint(rs().into_replicas_ordered().into_iter(), ord.len(), ctx, &format!("{} ring-ordered iterator", what));
    {
        let mut a = ord.clone();
        a.sort_unstable();
        let mut b = iter.clone();
        b.sort_unstable();
        if a != b {
            ctx.fail(format!("{}: ring-ordered view {:?} is not a permutation of the iteration {:?}", what, ord, iter));
        }
    }
    Views { len, iter, choose, ord }
}

fn opt_list(v: &[Option<u64>]) -> String {
    if v.is_empty() {
        "-".into()
    } else {
        v.iter().map(|o| o.map(|x| x.to_string()).unwrap_or_else(|| "x".into())).collect::<Vec<_>>().join(",")
    }
}

fn sorted(v: &[u64]) -> Vec<u64> {
    let mut s = v.to_vec();
    s.sort_unstable();
    s
}

fn parse_dc(s: &str) -> Option<Option<u32>> {
    if s == "-" { Some(None) } else { s.parse().ok().map(Some) }
}

pub fn run(case: &str, ctx: &mut Ctx) -> String {
    let w: Vec<&str> = case.split_whitespace().collect();
    if w.is_empty() {
        return "bad-case".into();
    }
    if w[0].starts_with('h') || w[0].starts_with('d') {
        return run_history(&w, ctx);
    }
    if matches!(w[0], "p" | "v" | "s" | "m") {
        return crate::c04_fetch::run(&w, ctx);
    }
    if w.len() != 6 || !w[0].starts_with('q') {
        return "bad-case".into();
    }
    let (Some(peers), Some(pre), Some(strat), Ok(tok), Some(dc)) =
        (parse_topology(w[1]), parse_fetched(w[2]), parse_strategy(w[3]), w[5].parse::<i64>(), parse_dc(w[4]))
    else {
        return "bad-case".into();
    };
    let main = cluster(w[1], &peers, w[2], &pre);
    // what a cluster built from scratch knows: a keyspace whose fetch failed is absent
    check_state(&main, None, w[1], &peers, w[2], &pre, w[3], &strat, dc, tok, ctx)
}

/// `h<kind> <n> (<mode> <topology> <strategies>)xn <strategy> <dc|-> <token>`: mode `n` builds the cluster,
/// `r` = `cluster_refresh` (new topology and keyspaces), `t` = `cluster_refresh_topology` (peers only; strategies
/// written `=`); `R` / `T` = the same through the host-filter-ACCEPTING hooks (accepted-node arms of the reuse match);
/// `F` / `G` = the same with a per-peer verdict (peer flag `a` = accepted) and no clearing of the old nodes' enabled-ness.  After EVERY step all observations are made on the refreshed state and compared with a cluster
/// built from scratch from the same metadata, and with the placement rules.
fn run_history(w: &[&str], ctx: &mut Ctx) -> String {
    // `d` cases: a host id may be repeated within one peer list
    let repeated = w[0].starts_with('d');
    let Some(n) = w.get(1).and_then(|x| x.parse::<usize>().ok()) else { return "bad-case".into() };
    if n == 0 || w.len() != 2 + 3 * n + 3 {
        return "bad-case".into();
    }
    let tail = &w[2 + 3 * n..];
    let (Some(strat), Some(dc), Ok(tok)) = (parse_strategy(tail[0]), parse_dc(tail[1]), tail[2].parse::<i64>()) else {
        return "bad-case".into();
    };
    let mut state: Option<Rc<ClusterState>> = None;
    // the keyspaces as the state must know them: entry i = k<i>, None = absent
    let mut pre: Vec<Option<Strat>> = Vec::new();
    let mut pre_s = String::new();
    let mut fetched: Vec<Option<Strat>> = Vec::new();
    let mut key = String::new();
    let mut lines: Vec<String> = Vec::new();
    let mut prev_peers: Vec<PeerSpec> = Vec::new();
    for i in 0..n {
        let (mode, topo_s, step_pre) = (w[2 + 3 * i], w[3 + 3 * i], w[4 + 3 * i]);
        let Some(peers) = (if repeated { parse_topology_rep(topo_s) } else { parse_topology(topo_s) }) else { return "bad-case".into() };
        key = format!("{} {} {} {}", key, mode, topo_s, step_pre);
        match (mode, &state) {
            ("n", None) | ("r", Some(_)) | ("R", Some(_)) | ("F", Some(_)) => {
                let Some(f) = parse_fetched(step_pre) else { return "bad-case".into() };
                // resolve_metadata_keyspaces, read off the property: a keyspace whose fetch failed keeps the
                // definition the previous state had; without one it is absent
                pre = f.iter().enumerate().map(|(i, e)| e.clone().or_else(|| pre.get(i).cloned().flatten())).collect();
                pre_s = fmt_fetched(&pre);
                fetched = f;
            }
            ("t", Some(_)) | ("T", Some(_)) | ("G", Some(_)) if step_pre == "=" => {}
            _ => return "bad-case".into(),
        }
        let prev = state.clone();
        // history states are cached together with the arms observed when they were built (the arms compare the new
        // node objects with those of the very state the refresh started from)
        let (cs, arms, pools) = HCACHE.with(|c| {
            let mut c = c.borrow_mut();
            if let Some(e) = c.get(&key) {
                return e.clone();
            }
            if c.len() >= 16 {
                c.clear();
            }
            if let Some(p) = &prev {
                mark_nodes(p);
            }
            let cs = Rc::new(match (mode, &prev) {
                ("n", _) => build_state_general(None, &peers, &fetched, false),
                ("r", Some(p)) => build_state_general(Some((p, &prev_peers)), &peers, &fetched, false),
                ("R", Some(p)) => build_state_general(Some((p, &prev_peers)), &peers, &fetched, true),
                ("T", Some(p)) => refresh_cluster_topology_accepting(p, &prev_peers, &peers),
                ("F", Some(p)) => build_state_filtered(Some((p, &prev_peers)), &peers, &fetched),
                ("G", Some(p)) => refresh_topology_filtered(p, &prev_peers, &peers),
                (_, Some(p)) => refresh_cluster_topology(p, &peers),
                _ => unreachable!(),
            });
            let arms = reuse_arms(prev.as_deref(), &cs, &peers);
            let pools = pool_presence(&cs, &peers);
            // Oracle from the property of the host filter: a node has a connection pool iff the filter accepted it
            // in the last refresh.  It applies when the enabled-ness `calculate_new_topology` saw on the previous
            // nodes was the real one (`is_enabled()` = pool presence, as in production; the hooks override it).
            let saw_enabled = |id: u64| match mode {
                "r" | "t" => false, // the rejecting hooks clear the overrides first
                _ => prev_peers.iter().find(|p| p.id == id).map(|p| !p.flags.contains('d')).unwrap_or(false),
            };
            let real = prev.as_deref().map(|p| enabledness_is_real(p, &saw_enabled)).unwrap_or(true);
            if real {
                for (p, has) in peers.iter().zip(pools.chars()) {
                    let accepted = match mode {
                        "R" | "T" => true,
                        "F" | "G" => p.flags.contains('a'),
                        _ => false,
                    };
                    if has != if accepted { '1' } else { '0' } {
                        c.insert(key.clone(), (cs.clone(), arms.clone(), pools.clone()));
                        return (cs, arms, format!("{}!{}", pools, p.id));
                    }
                }
            }
            c.insert(key.clone(), (cs.clone(), arms.clone(), pools.clone()));
            (cs, arms, pools)
        });
        let pools = match pools.split_once('!') {
            Some((ps, id)) => {
                ctx.fail(format!(
                    "after step {} ({}): node {} {} a connection pool although the host filter {} it in this refresh (pools {})",
                    i + 1, mode, id,
                    if ps.chars().nth(peers.iter().position(|p| p.id.to_string() == id).unwrap_or(0)) == Some('1') { "has" } else { "has no" },
                    if matches!(mode, "R" | "T") || (matches!(mode, "F" | "G") && peers.iter().any(|p| p.id.to_string() == id && p.flags.contains('a'))) { "accepted" } else { "rejected" },
                    ps
                ));
                ps.to_owned()
            }
            None => pools,
        };
        let label = format!("after step {} ({})", i + 1, mode);
        let obs = check_state(&cs, Some(&label), topo_s, &peers, &pre_s, &pre, tail[0], &strat, dc, tok, ctx);
        let extra = if repeated { observe_repeated(&cs, &peers, &label, ctx) } else { String::new() };
        lines.push(format!("{} arms={} pool={}{}", obs, arms, pools, extra));
        state = Some(cs);
        prev_peers = peers;
    }
    lines.join(" / ")
}

/// All observations and oracles on one cluster state whose metadata is (`peers`, keyspaces `pre`).
/// `refreshed`: the state came out of a refresh history; it must then answer like a cluster built from scratch.
#[allow(clippy::too_many_arguments)]
pub(crate) fn check_state(
    main: &ClusterState,
    refreshed: Option<&str>,
    topo_s: &str,
    peers: &[PeerSpec],
    pre_s: &str,
    pre: &[Option<Strat>],
    strat_s: &str,
    strat: &Strat,
    dc: Option<u32>,
    tok: i64,
    ctx0: &mut Ctx,
) -> String {
    // oracle messages of a refreshed state say so
    let mut local = Ctx::default();
    let ctx = &mut local;
    let peers = peers.to_vec();
    let pre = pre.to_vec();
    let strat = strat.clone();
    let w = ["", topo_s, pre_s, strat_s];
    let tokn = norm_token(tok);
    let strategy = to_strategy(&strat);
    let dcn = dc.map(dc_name);

    let v = observe(main, tok, &strategy, dcn.as_deref(), ctx, "replica set");

    // ---- the placement rules (brute force) ----
    // Members owning the same token are walked in ring (metadata) order, first owner first.
    let global = ring_of(&peers, None);
    let dc_of = |id: u64| peers.iter().find(|p| p.id == id).and_then(|p| p.dc);
    let want = expected(&peers, &strat, dc, tokn);
    if matches!(strat, Strat::Nts(_)) && dc.is_none() {
        // as a set: the union over the strategy's datacenters of the rack-aware walk
        let mut set: Vec<u64> = match &strat {
            Strat::Nts(repf) => repf.iter().flat_map(|(d, rf)| brute_nts_dc(&peers, tokn, *d, *rf)).collect(),
            _ => unreachable!(),
        };
        set.sort_unstable();
        if sorted(&v.iter) != set {
            ctx.fail(format!("replicas {:?}, the placement rule (rack-aware walk per datacenter) gives the set {:?}", v.iter, set));
        } else if v.iter != want {
            ctx.fail(format!("replicas {:?}: datacenters are not listed in ring order of first appearance, expected {:?}", v.iter, want));
        }
    } else if v.iter != want {
        let rule = if matches!(strat, Strat::Nts(_)) { "rack-aware walk of the datacenter" } else { "first RF distinct nodes clockwise" };
        ctx.fail(format!("replicas {:?}, the placement rule ({}) gives {:?}", v.iter, rule, want));
    }
    // the ring-ordered view is fully determined: the same nodes by position clockwise from the token
    {
        let order = clockwise_distinct(&global, tokn);
        let mut by_ring: Vec<u64> = order.iter().map(|i| peers[*i].id).filter(|id| want.contains(id)).collect();
        by_ring.dedup();
        if v.ord != by_ring {
            ctx.fail(format!("ring-ordered view {:?}, the rule's replicas in ring order from token {} are {:?}", v.ord, tokn, by_ring));
        }
    }

    // ---- ring order of the ordered view ----
    {
        let order = clockwise_distinct(&global, tokn);
        let pos = |id: u64| order.iter().position(|i| peers[*i].id == id);
        let ps: Vec<Option<usize>> = v.ord.iter().map(|id| pos(*id)).collect();
        if ps.iter().any(|p| p.is_none()) || ps.windows(2).any(|w| w[0] >= w[1]) {
            ctx.fail(format!("ring-ordered view {:?} is not in ring order from token {}", v.ord, tokn));
        }
    }

    // ---- datacenter restriction = filtering the unrestricted answer ----
    if let Some(d) = dc {
        let un = observe(main, tok, &strategy, None, ctx, "unrestricted replica set");
        let filtered: Vec<u64> = un.iter.iter().copied().filter(|id| dc_of(*id) == Some(d)).collect();
        let same = if matches!(strat, Strat::Nts(_)) { sorted(&filtered) == sorted(&v.iter) } else { filtered == v.iter };
        if !same {
            ctx.fail(format!("restricted to dc{}: {:?}, unrestricted answer filtered by that datacenter: {:?}", d, v.iter, filtered));
        }
    }

    // ---- precomputed answer = on-the-fly answer ----
    {
        let none = cluster(w[1], &peers, "-", &[]);
        let only = cluster(w[1], &peers, w[3], &[Some(strat.clone())]);
        let mut others = vec![("a cluster built from scratch with no keyspace precomputed", none), ("a cluster built from scratch with only this strategy precomputed", only)];
        if refreshed.is_some() {
            others.push(("a cluster built from scratch from the same metadata", cluster(w[1], &peers, w[2], &pre)));
        }
        for (name, cs) in others.iter().map(|(n, c)| (*n, c)) {
            let o = observe(cs, tok, &strategy, dcn.as_deref(), ctx, name);
            if o != v {
                ctx.fail(format!(
                    "answer depends on precomputation: with keyspaces {} len={} iter={:?} ord={:?}; with {} len={} iter={:?} ord={:?}",
                    w[2], v.len, v.iter, v.ord, name, o.len, o.iter, o.ord
                ));
            }
        }
    }

    // ---- get_token_endpoints: first keyspace, last keyspace, unknown keyspace (= LocalStrategy) ----
    let endpoints = |ks: &str, ks_strat: &Strat, ctx: &mut Ctx| -> Vec<u64> {
        let ep: Vec<u64> = main.get_token_endpoints(ks, "t", Token::new(tok)).iter().map(|(n, _)| node_id(n.host_id)).collect();
        let want = expected(&peers, ks_strat, None, tokn);
        if ep != want {
            ctx.fail(format!("get_token_endpoints({}) = {:?}, the placement rule for {} gives {:?}", ks, ep, fmt_strategy(ks_strat), want));
        }
        ep
    };
    let ks = |i: usize| pre.get(i).cloned().flatten().unwrap_or(Strat::Local);
    let ep0 = endpoints("k0", &ks(0), ctx);
    let last = pre.len().saturating_sub(1);
    let epl = endpoints(&format!("k{}", last), &ks(last), ctx);
    let epu = endpoints("no_such_keyspace", &Strat::Local, ctx);
    // a refreshed state must also report the endpoints of a fresh one (compared through `expected` above)
    for f in local.oracle_failures.drain(..) {
        match refreshed {
            Some(label) => ctx0.fail(format!("{}: {}", label, f)),
            None => ctx0.fail(f),
        }
    }
    format!(
        "len={} iter={} choose={} ord={} ep={} epl={} epu={}",
        v.len,
        nat_list(&v.iter),
        opt_list(&v.choose),
        nat_list(&v.ord),
        nat_list(&ep0),
        nat_list(&epl),
        nat_list(&epu)
    )
}

// ---------------------------------------------------------------------------------------------
// generators

fn rf_for(rng: &mut Rng, n: usize) -> usize {
    match rng.below(8) {
        0 => 0,
        1 => n + 1 + rng.below(2) as usize,
        2 => n,
        _ => rng.below(n as u64 + 1) as usize,
    }
}

fn dcs_of(peers: &[PeerSpec]) -> Vec<u32> {
    let mut d: Vec<u32> = peers.iter().filter_map(|p| p.dc).collect();
    d.sort_unstable();
    d.dedup();
    d
}

fn gen_nts(rng: &mut Rng, peers: &[PeerSpec]) -> Strat {
    let dcs = dcs_of(peers);
    let mut v: Vec<(u32, usize)> = Vec::new();
    for d in &dcs {
        if rng.chance(5, 6) {
            let nodes = peers.iter().filter(|p| p.dc == Some(*d) && !p.tokens.is_empty()).count();
            let mut racks: Vec<Option<u32>> = peers.iter().filter(|p| p.dc == Some(*d)).map(|p| p.rack).collect();
            racks.sort();
            racks.dedup();
            // around the rack count and the node count: where the precomputed representation switches
            let rf = match rng.below(8) {
                0 => 0,
                1 => racks.len(),
                2 => racks.len() + 1,
                3 => racks.len().saturating_sub(1),
                4 => nodes,
                5 => nodes + 1 + rng.below(2) as usize,
                _ => rng.below(nodes as u64 + 2) as usize,
            };
            v.push((*d, rf));
        }
    }
    // a datacenter that is not in the ring
    if rng.chance(1, 6) {
        v.push((77, rng.below(4) as usize));
    }
    if rng.chance(1, 3) {
        rng.shuffle(&mut v);
    }
    Strat::Nts(v)
}

fn gen_strategy(rng: &mut Rng, peers: &[PeerSpec]) -> Strat {
    let n = peers.iter().filter(|p| !p.tokens.is_empty()).count();
    match rng.below(12) {
        0 => Strat::Local,
        1 => Strat::Other,
        2..=5 => Strat::Simple(rf_for(rng, n)),
        _ => gen_nts(rng, peers),
    }
}

/// A variation of a strategy (same kind, nearby replication factors): what shares a precomputed ring.
fn vary(rng: &mut Rng, s: &Strat) -> Strat {
    match s {
        Strat::Simple(rf) => Strat::Simple(match rng.below(3) {
            0 => rf + 1,
            1 => rf.saturating_sub(1),
            _ => rf + 2,
        }),
        Strat::Nts(v) => Strat::Nts(
            v.iter()
                .map(|(d, rf)| {
                    (*d, match rng.below(4) {
                        0 => rf + 1,
                        1 => rf.saturating_sub(1),
                        2 => *rf,
                        _ => rf + 2,
                    })
                })
                .collect(),
        ),
        other => other.clone(),
    }
}

fn emit_topology(rng: &mut Rng, peers: &[PeerSpec], per_topo: usize, tokens_per: usize, emit: &mut dyn FnMut(String)) {
    let topo = fmt_topology(peers);
    let toks = query_tokens(peers);
    let dcs = dcs_of(peers);
    for _ in 0..per_topo {
        let strat = gen_strategy(rng, peers);
        // keyspace strategies: none / exactly this one / variations / unrelated / a mix
        let pre: Vec<Strat> = match rng.below(6) {
            0 => vec![],
            1 => vec![strat.clone()],
            2 => vec![vary(rng, &strat)],
            3 => vec![vary(rng, &strat), vary(rng, &strat), gen_strategy(rng, peers)],
            4 => vec![gen_strategy(rng, peers), strat.clone(), vary(rng, &strat)],
            _ => (0..rng.range(1, 4)).map(|_| gen_strategy(rng, peers)).collect(),
        };
        let mut written: Vec<Option<Strat>> = pre.iter().cloned().map(Some).collect();
        if !written.is_empty() && rng.chance(1, 12) {
            let k = rng.below(written.len() as u64) as usize;
            written[k] = None;
        }
        let pre_s = fmt_fetched(&written);
        let strat_s = fmt_strategy(&strat);
        for _ in 0..tokens_per {
            let tok = if rng.chance(1, 12) { rng.i64_boundary() } else { *rng.pick(&toks) };
            let dc = if rng.chance(1, 2) {
                "-".to_owned()
            } else if rng.chance(1, 12) || dcs.is_empty() {
                "99".to_owned() // unknown datacenter
            } else {
                rng.pick(&dcs).to_string()
            };
            emit(format!("q {} {} {} {} {}", topo, pre_s, strat_s, dc, tok));
        }
    }
}

/// Exhaustive small universe: `nodes` nodes with fixed tokens (node i owns 10*i; with `vnodes` node 0 also owns
/// a second token after the last node), every assignment of a (datacenter, rack) cell from `cells` to every node,
/// every strategy with replication factors 0..=max_rf, precomputed sets {none, exact, rf+1, rf+2, rf-1}, every
/// datacenter restriction, and for every token interval both an interior token and the ring token itself.
fn exhaustive(
    nodes: usize,
    cells: &[(Option<u32>, Option<u32>)],
    vnodes: bool,
    max_rf: usize,
    stride: usize,
    emit: &mut dyn FnMut(String),
) {
    let toks: Vec<i64> = (0..nodes as i64).map(|i| i * 10).collect();
    let assignments = cells.len().pow(nodes as u32);
    let two_dcs = cells.iter().any(|c| c.0 == Some(1));
    let mut counter = 0usize;
    for a in 0..assignments {
        let mut x = a;
        let mut peers: Vec<PeerSpec> = Vec::new();
        for (i, t) in toks.iter().enumerate() {
            let cell = cells[x % cells.len()];
            x /= cells.len();
            let mut tokens = vec![*t];
            if vnodes && i == 0 {
                tokens.push(nodes as i64 * 10);
            }
            peers.push(PeerSpec { id: i as u64, dc: cell.0, rack: cell.1, tokens, flags: String::new() });
        }
        // symmetry: the first node is in the first cell
        if (peers[0].dc, peers[0].rack) != cells[0] {
            continue;
        }
        let topo = fmt_topology(&peers);
        let mut strats: Vec<Strat> = Vec::new();
        for rf in 0..=max_rf {
            strats.push(Strat::Simple(rf));
        }
        if !two_dcs {
            for rf in 0..=max_rf {
                strats.push(Strat::Nts(vec![(0, rf)]));
            }
        } else {
            for rf0 in 0..=max_rf {
                for rf1 in 0..=max_rf {
                    strats.push(Strat::Nts(vec![(0, rf0), (1, rf1)]));
                }
            }
        }
        let ring_len = nodes + usize::from(vnodes);
        for s in &strats {
            let ss = fmt_strategy(s);
            for pre in ["-".to_owned(), ss.clone(), fmt_strategy(&vary_det(s, 1)), fmt_strategy(&vary_det(s, 2)), fmt_strategy(&vary_down(s))] {
                for q in 0..=ring_len {
                    for exact in [false, true] {
                        if exact && q == ring_len {
                            continue;
                        }
                        for dc in ["-", "0", "1"] {
                            counter += 1;
                            if counter % stride != 0 {
                                continue;
                            }
                            let tok = if exact { q as i64 * 10 } else { q as i64 * 10 - 5 };
                            emit(format!("q {} {} {} {} {}", topo, pre, ss, dc, tok));
                        }
                    }
                }
            }
        }
    }
}

fn vary_down(s: &Strat) -> Strat {
    match s {
        Strat::Simple(rf) => Strat::Simple(rf.saturating_sub(1)),
        Strat::Nts(v) => Strat::Nts(v.iter().map(|(d, rf)| (*d, rf.saturating_sub(1))).collect()),
        o => o.clone(),
    }
}

fn vary_det(s: &Strat, k: usize) -> Strat {
    match s {
        Strat::Simple(rf) => Strat::Simple(rf + k),
        Strat::Nts(v) => Strat::Nts(v.iter().map(|(d, rf)| (*d, rf + k)).collect()),
        o => o.clone(),
    }
}

// ---------------------------------------------------------------------------------------------
// refresh histories

/// One metadata change between two refreshes: a node changes rack (most often: placement reads the rack of the
/// node OBJECT in the ring, and node objects may be reused across refreshes), datacenter, tokens or address
/// (= position in the peer list), leaves, or joins.
fn mutate(rng: &mut Rng, peers: &mut Vec<PeerSpec>, max_racks: u32, next_id: &mut u64) {
    let used: Vec<i64> = peers.iter().flat_map(|p| p.tokens.iter().map(|t| norm_token(*t))).collect();
    let fresh = |rng: &mut Rng| -> i64 {
        loop {
            let t = rng.range(-90, 90);
            if !used.contains(&t) {
                return t;
            }
        }
    };
    if peers.is_empty() {
        peers.push(PeerSpec { id: *next_id, dc: Some(0), rack: Some(0), tokens: vec![fresh(rng)], flags: String::new() });
        *next_id += 1;
        return;
    }
    let i = rng.below(peers.len() as u64) as usize;
    match rng.below(12) {
        0..=4 => {
            // another rack within the same datacenter (or no rack)
            let old = peers[i].rack;
            let mut r = old;
            for _ in 0..8 {
                r = if rng.chance(1, 8) { None } else { Some(rng.below(max_racks.max(2) as u64) as u32) };
                if r != old {
                    break;
                }
            }
            peers[i].rack = r;
        }
        5 => {
            let dcs = dcs_of(peers);
            peers[i].dc = if rng.chance(1, 6) || dcs.is_empty() { Some(rng.below(3) as u32) } else { Some(*rng.pick(&dcs)) };
        }
        6 => {
            let t = fresh(rng);
            if peers[i].tokens.is_empty() || rng.chance(1, 3) {
                peers[i].tokens.push(t);
            } else if rng.chance(1, 2) {
                let k = rng.below(peers[i].tokens.len() as u64) as usize;
                peers[i].tokens[k] = t;
            } else if peers[i].tokens.len() > 1 {
                peers[i].tokens.pop();
            }
        }
        7 if rng.chance(1, 2) => {
            // enabled-ness (flag `d` = disabled): decides between the reuse arms and the new-node arms
            peers[i].flags = if peers[i].flags.contains('d') { peers[i].flags.replace('d', "") } else { format!("d{}", peers[i].flags) };
        }
        7 | 8 => {
            // address change: the node moves to another position of the peer list
            let j = rng.below(peers.len() as u64) as usize;
            peers.swap(i, j);
        }
        9 => {
            if peers.len() > 1 {
                peers.remove(i);
            }
        }
        _ => {
            let dcs = dcs_of(peers);
            let dc = if dcs.is_empty() { Some(0) } else { Some(*rng.pick(&dcs)) };
            let rack = if rng.chance(1, 8) { None } else { Some(rng.below(max_racks.max(2) as u64) as u32) };
            let at = rng.below(peers.len() as u64 + 1) as usize;
            peers.insert(at, PeerSpec { id: *next_id, dc, rack, tokens: vec![fresh(rng)], flags: String::new() });
            *next_id += 1;
        }
    }
}

/// Strategies whose answer depends on racks in the datacenters of `peers` (RF below / at the rack count).
fn rack_sensitive_nts(rng: &mut Rng, peers: &[PeerSpec]) -> Strat {
    let mut v: Vec<(u32, usize)> = Vec::new();
    for d in dcs_of(peers) {
        let nodes = peers.iter().filter(|p| p.dc == Some(d) && !p.tokens.is_empty()).count();
        let mut racks: Vec<Option<u32>> = peers.iter().filter(|p| p.dc == Some(d)).map(|p| p.rack).collect();
        racks.sort();
        racks.dedup();
        let rf = match rng.below(4) {
            0 => racks.len(),
            1 => racks.len().saturating_sub(1).max(1),
            2 => racks.len() + 1,
            _ => rng.range(1, nodes.max(1) as i64) as usize,
        };
        v.push((d, rf));
    }
    Strat::Nts(v)
}

/// In about a quarter of the topologies two or three token-owning nodes share one address (flag `g<k>`): node identity
/// is the host id - `unique()`, the unique-node counts and the ring-ordered view must keep such nodes apart.
fn share_addresses(rng: &mut Rng, peers: &mut [PeerSpec]) {
    if peers.len() < 2 || !rng.chance(1, 4) {
        return;
    }
    for g in 0..rng.range(1, 2) {
        for _ in 0..rng.range(2, 3) {
            let i = rng.below(peers.len() as u64) as usize;
            if addr_group(&peers[i]).is_none() {
                peers[i].flags = format!("{}g{}", peers[i].flags, g);
            }
        }
    }
}

/// The peer list as written in a `d` case: one or two rows are listed a second time under the same host id (same
/// datacenter, rack, flags; another position = another address) - without tokens (a stale row), with the same tokens,
/// or with tokens of their own.
fn with_repeats(rng: &mut Rng, peers: &[PeerSpec]) -> Vec<PeerSpec> {
    let mut out = peers.to_vec();
    if out.is_empty() {
        return out;
    }
    let mut used: Vec<i64> = peers.iter().flat_map(|p| p.tokens.iter().map(|t| norm_token(*t))).collect();
    for _ in 0..rng.range(1, 2) {
        let i = rng.below(out.len() as u64) as usize;
        let mut dup = out[i].clone();
        match rng.below(5) {
            0 => dup.tokens = vec![],
            1 => {}
            _ => {
                dup.tokens = (0..rng.range(1, 2))
                    .map(|_| loop {
                        let t = rng.range(-95, 95);
                        if !used.contains(&t) {
                            used.push(t);
                            break t;
                        }
                    })
                    .collect()
            }
        }
        // most often AFTER the original: the object `known_nodes` keeps is then the repeated row's
        let at = if rng.chance(1, 2) { out.len() } else { rng.below(out.len() as u64 + 1) as usize };
        out.insert(at, dup);
    }
    out
}

fn emit_history(rng: &mut Rng, shape: TopoShape, repeated: bool, emit: &mut dyn FnMut(String)) {
    let mut peers = gen_topology(rng, shape);
    // production-like histories: enabled-ness always equals the real pool presence (built with every node rejected
    // = disabled, then only per-peer-verdict refreshes in which a node is enabled iff accepted), so that the oracle
    // "pool iff accepted in the last refresh" applies at every step
    let prodlike = rng.chance(1, 3);
    // (`d` cases: every row keeps the address of its position, so that the rows of one host id differ in address)
    if !repeated {
        share_addresses(rng, &mut peers);
    }
    if prodlike {
        for p in peers.iter_mut() {
            p.flags = format!("d{}", p.flags);
        }
    }
    let mut next_id = 500u64;
    let n = rng.range(2, 5) as usize; // the build + 1..4 refreshes
    let mut pre: Vec<Strat> = (0..rng.range(0, 2)).map(|_| gen_strategy(rng, &peers)).collect();
    // what is written: in a `d` case the list with some host ids repeated (not at every step)
    let written_peers = |rng: &mut Rng, peers: &[PeerSpec]| if repeated && rng.chance(3, 4) { with_repeats(rng, peers) } else { peers.to_vec() };
    let first = written_peers(rng, &peers);
    let mut words: Vec<String> = vec![format!("n {} {}", fmt_topology(&first), fmt_strategies(&pre))];
    let mut modes = String::from("n");
    let mut topologies: Vec<Vec<PeerSpec>> = vec![first];
    for _ in 1..n {
        for _ in 0..rng.range(1, 2) {
            mutate(rng, &mut peers, shape.max_racks as u32, &mut next_id);
        }
        let filter_mode = if prodlike { 2 } else { rng.below(3) }; // 0 rejecting, 1 accepting, 2 per-peer verdicts
        let accepting = filter_mode == 1;
        if filter_mode == 2 {
            // verdicts per peer; a node is enabled afterwards iff it was accepted (now and then not: a pool-less
            // accepted node / a still-enabled rejected one)
            for p in peers.iter_mut() {
                let acc = rng.chance(1, 2);
                let en = if !prodlike && rng.chance(1, 8) { !acc } else { acc };
                let grp = addr_group(p).map(|g| format!("g{}", g - 200)).unwrap_or_default();
                p.flags = format!("{}{}{}", if acc { "a" } else { "" }, if en { "" } else { "d" }, grp);
            }
        }
        let written_now = written_peers(rng, &peers);
        if rng.chance(1, 3) {
            let m = if filter_mode == 2 { 'G' } else if accepting { 'T' } else { 't' };
            words.push(format!("{} {} =", m, fmt_topology(&written_now)));
            modes.push(m);
        } else {
            if rng.chance(1, 2) {
                pre = (0..rng.range(0, 3)).map(|_| if rng.chance(1, 2) { rack_sensitive_nts(rng, &peers) } else { gen_strategy(rng, &peers) }).collect();
            }
            let m = if filter_mode == 2 { 'F' } else if accepting { 'R' } else { 'r' };
            // the fetch of one keyspace fails now and then: the previous definition must stay in force
            let mut written: Vec<Option<Strat>> = pre.iter().cloned().map(Some).collect();
            if !written.is_empty() && rng.chance(1, 3) {
                let k = rng.below(written.len() as u64) as usize;
                written[k] = None;
            }
            if rng.chance(1, 8) {
                written.push(None);
            }
            words.push(format!("{} {} {}", m, fmt_topology(&written_now), fmt_fetched(&written)));
            modes.push(m);
        }
        topologies.push(written_now);
    }
    let mut toks: Vec<i64> = topologies.iter().flat_map(|t| query_tokens(t)).collect();
    toks.sort_unstable();
    toks.dedup();
    let dcs = dcs_of(&peers);
    for _ in 0..3 {
        let strat = match rng.below(6) {
            0 => gen_strategy(rng, &peers),
            1 if !pre.is_empty() => rng.pick(&pre).clone(),
            _ => {
                let k = rng.below(topologies.len() as u64) as usize;
                rack_sensitive_nts(rng, &topologies[k])
            }
        };
        let ss = fmt_strategy(&strat);
        for _ in 0..4 {
            let tok = *rng.pick(&toks);
            let dc = if rng.chance(2, 3) || dcs.is_empty() { "-".to_owned() } else { rng.pick(&dcs).to_string() };
            emit(format!("{}{}{} {} {} {} {} {}", if repeated { 'd' } else { 'h' }, &ss[..1], modes, n, words.join(" "), ss, dc, tok));
        }
    }
}

/// Exhaustive small universe of one refresh: 3 nodes in one datacenter, every rack assignment before x every rack
/// assignment after (racks 0, 1, none), same or rotated peer order (address change), full and topology-only
/// refresh, NTS RF 1..3 precomputed or not, two tokens.
fn exhaustive_histories(stride: usize, emit: &mut dyn FnMut(String)) {
    let racks = [Some(0u32), Some(1), None];
    let mk = |a: usize, rot: usize| -> Vec<PeerSpec> {
        let mut x = a;
        let mut v: Vec<PeerSpec> = (0..3u64)
            .map(|i| {
                let r = racks[x % 3];
                x /= 3;
                PeerSpec { id: i + 1, dc: Some(0), rack: r, tokens: vec![i as i64 * 10], flags: String::new() }
            })
            .collect();
        v.rotate_left(rot);
        v
    };
    let mut counter = 0usize;
    for a in 0..27 {
        for b in 0..27 {
            if a == b {
                continue;
            }
            for rot in [0usize, 1] {
                for rf in 1..=3usize {
                    for pre in ["-".to_owned(), format!("N0={}", rf)] {
                        for mode in ["r", "t", "R", "T"] {
                            for tok in [-5i64, 10] {
                                counter += 1;
                                if counter % stride != 0 {
                                    continue;
                                }
                                let step = if mode == "r" || mode == "R" { format!("{} {} {}", mode, fmt_topology(&mk(b, rot)), pre) } else { format!("{} {} =", mode, fmt_topology(&mk(b, rot))) };
                                emit(format!("hNn{} 2 n {} {} {} N0={} - {}", mode, fmt_topology(&mk(a, 0)), pre, step, rf, tok));
                            }
                        }
                    }
                }
            }
        }
    }
}

/// First word of a case line: `q` + strategy kind (S/N/L/O) + relation to the precomputed keyspaces
/// (p = among them, v = others are, n = none) + restriction (a = all datacenters, d = one) + `D` when some token
/// has several owners.  Only `q` matters to the parsers; the rest feeds the evidence histogram.
fn kind_word(line: &str) -> String {
    let w: Vec<&str> = line.split(' ').collect();
    let pre: Vec<&str> = if w[2] == "-" { vec![] } else { w[2].split('|').collect() };
    let rel = if pre.is_empty() { 'n' } else if pre.contains(&w[3]) { 'p' } else { 'v' };
    let dup = parse_topology(w[1]).map(|p| {
        let mut t: Vec<i64> = p.iter().flat_map(|x| x.tokens.iter().map(|t| norm_token(*t))).collect();
        let n = t.len();
        t.sort_unstable();
        t.dedup();
        t.len() != n
    }).unwrap_or(false);
    format!("q{}{}{}{}", &w[3][..1], rel, if w[4] == "-" { 'a' } else { 'd' }, if dup { "D" } else { "" })
}

pub fn generate(rng: &mut Rng, tier: Tier, emit0: &mut dyn FnMut(String)) {
    let emit: &mut dyn FnMut(String) = &mut |line: String| {
        if !line.starts_with('q') {
            return emit0(line);
        }
        let k = kind_word(&line);
        emit0(format!("{}{}", k, &line[1..]))
    };
    let quick = tier == Tier::Quick;
    // exhaustive small universes
    const PLAIN: [(Option<u32>, Option<u32>); 4] = [(Some(0), Some(0)), (Some(0), Some(1)), (Some(1), Some(0)), (Some(1), Some(1))];
    const ONE_DC: [(Option<u32>, Option<u32>); 2] = [(Some(0), Some(0)), (Some(0), Some(1))];
    // rack-less and datacenter-less nodes
    const HOLES: [(Option<u32>, Option<u32>); 6] =
        [(Some(0), Some(0)), (Some(0), None), (Some(1), Some(0)), (Some(1), None), (None, Some(0)), (Some(0), Some(1))];
    if quick {
        exhaustive(3, &PLAIN, false, 3, 5, emit);
        exhaustive(4, &PLAIN, false, 4, 61, emit);
        exhaustive(3, &HOLES, false, 3, 41, emit);
        exhaustive(3, &PLAIN, true, 3, 17, emit);
    } else {
        exhaustive(2, &PLAIN, false, 4, 1, emit);
        exhaustive(3, &PLAIN, false, 4, 1, emit);
        exhaustive(4, &PLAIN, false, 4, 1, emit);
        exhaustive(4, &ONE_DC, false, 5, 1, emit);
        exhaustive(3, &HOLES, false, 4, 1, emit);
        exhaustive(3, &PLAIN, true, 4, 1, emit);
        exhaustive(4, &HOLES, false, 3, 7, emit);
    }
    // metadata rows -> peers -> ring, replication options -> strategy
    crate::c04_fetch::generate(rng, tier, emit);
    // refresh histories (the locator after a refresh = the locator of a cluster built from scratch)
    exhaustive_histories(if quick { 17 } else { 1 }, emit);
    for i in 0..(if quick { 1500 } else { 30_000 }) {
        let shape = match i % 3 {
            0 => TopoShape { max_nodes: 5, max_dcs: 1, max_racks: 3, max_vnodes: 2, dups: 0 },
            1 => TopoShape { max_nodes: 8, max_dcs: 2, max_racks: 3, max_vnodes: 2, dups: 0 },
            _ => TopoShape { max_nodes: 10, max_dcs: 3, max_racks: 4, max_vnodes: 3, dups: 1 },
        };
        emit_history(rng, shape, false, emit);
    }
    let topologies = if quick { 5000 } else { 80_000 };
    for i in 0..topologies {
        let shape = match i % 4 {
            0 => TopoShape { max_nodes: 5, max_dcs: 2, max_racks: 2, max_vnodes: 2, dups: 0 },
            1 => TopoShape { max_nodes: 12, max_dcs: 3, max_racks: 4, max_vnodes: 4, dups: 0 },
            2 => TopoShape { max_nodes: 8, max_dcs: 3, max_racks: 3, max_vnodes: 3, dups: 1 },
            _ => TopoShape { max_nodes: 12, max_dcs: 2, max_racks: 4, max_vnodes: 2, dups: 2 },
        };
        let mut peers = gen_topology(rng, shape);
        share_addresses(rng, &mut peers);
        emit_topology(rng, &peers, 5, 6, emit);
    }
    // the same histories with host ids repeated within one peer list (`d` cases)
    for i in 0..(if quick { 500 } else { 8_000 }) {
        let shape = match i % 3 {
            0 => TopoShape { max_nodes: 4, max_dcs: 1, max_racks: 3, max_vnodes: 2, dups: 0 },
            1 => TopoShape { max_nodes: 6, max_dcs: 2, max_racks: 3, max_vnodes: 2, dups: 0 },
            _ => TopoShape { max_nodes: 8, max_dcs: 3, max_racks: 4, max_vnodes: 2, dups: 1 },
        };
        emit_history(rng, shape, true, emit);
    }
}

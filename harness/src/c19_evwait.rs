//! C19, the first link of the hand-off chain: `evwait cap=<c> <op>;…` drives the REAL
//! `ControlConnectionEvents::wait_for_event()` (hook `verif_hooks::cluster_worker::{EventsRig, EventsFeeder}`: the real
//! struct over channels the harness feeds) at POLL granularity, with the cancellations `MetadataWorker::work_on_cc` /
//! `fetch_on_candidate` subject it to: they await it only as one arm of a `select!` and start it anew on every loop
//! iteration, so the future is dropped whenever another arm wins.
//!
//! Ops: `u<n>` / `d<n>` / `t<n>` the connection's reader delivers STATUS_CHANGE UP / DOWN / TOPOLOGY_CHANGE NEW_NODE of
//! node n (`ok` | `full`); `w` ONE poll of the wait (a fresh `wait_for_event()` if none is alive; `pending` keeps the
//! future alive for the next `w`); `c` drops the alive future (`cancelled` | `idle`); `b` the connection reports its
//! failure (`ok` | `used`); `s` its error sender is dropped (`ok`). `ready[broken]` / `ready[shutdown]` end the case
//! (`end`: the worker leaves its loop there). Otherwise the case ends with `drain[…]`: the alive wait (else fresh ones) is
//! polled like a parked task - again whenever it woke its waker - until a `Pending` without a wake.
//!
//! ORACLE (model-independent, from the property's text "no update is lost because a wait was cancelled and
//! restarted"): the events returned by the polls of a case are a prefix of the events the channel accepted, in order
//! (none lost, none duplicated, none reordered) - and ALL of them once the case has drained without a connection error.
use crate::rng::Rng;
use crate::{Ctx, Tier};
use scylla::verif_hooks::cluster_worker::EventsRig;
use std::future::Future;
use std::pin::Pin;
use std::sync::atomic::{AtomicBool, Ordering};
use std::sync::Arc;
use std::task::{Context, Poll, Wake, Waker};

/// Records whether the future asked to be polled again (a `Pending` WITH a wake is "not yet", not "parked").
struct Flag(AtomicBool);
impl Wake for Flag {
    fn wake(self: Arc<Self>) {
        self.0.store(true, Ordering::SeqCst);
    }
    fn wake_by_ref(self: &Arc<Self>) {
        self.0.store(true, Ordering::SeqCst);
    }
}

pub fn run_evwait(capw: &str, body: &str, ctx: &mut Ctx) -> String {
    let Some(cap) = capw.strip_prefix("cap=").and_then(|c| c.parse::<usize>().ok()) else { return "bad-case".into() };
    if cap == 0 || cap > 64 {
        return "bad-case".into();
    }
    let ops: Vec<&str> = body.split(';').filter(|o| !o.is_empty()).collect();
    let flag = Arc::new(Flag(AtomicBool::new(false)));
    let waker = Waker::from(flag.clone());
    let (mut rig, mut feeder) = EventsRig::new(cap);
    // SAFETY of the scheme: `wait` borrows `rig` mutably; the future is kept in `alive` and dropped before the next
    // `rig.wait()` call, and `rig` is touched by nothing else (the feeder is a separate value).
    let rig_ptr: *mut EventsRig = &mut rig;
    let mut alive: Option<Pin<Box<dyn Future<Output = String> + Send + '_>>> = None;
    let mut accepted: Vec<String> = Vec::new();
    let mut delivered: Vec<String> = Vec::new();
    let mut out: Vec<String> = Vec::new();
    let mut ended = false;
    let poll_once = |alive: &mut Option<Pin<Box<dyn Future<Output = String> + Send + '_>>>| -> Option<String> {
        if alive.is_none() {
            // one fresh call of the real `wait_for_event()`
            *alive = Some(unsafe { &mut *rig_ptr }.wait());
        }
        let mut cx = Context::from_waker(&waker);
        match alive.as_mut().unwrap().as_mut().poll(&mut cx) {
            Poll::Ready(label) => {
                *alive = None;
                Some(label)
            }
            Poll::Pending => None,
        }
    };
    for op in &ops {
        let (k, arg) = op.split_at(1);
        match k {
            "u" | "d" | "t" => {
                let Ok(n) = arg.parse::<u16>() else { return "bad-case".into() };
                if n > 255 {
                    return "bad-case".into();
                }
                let kind = match k {
                    "u" => 0u8,
                    "d" => 1,
                    _ => 2,
                };
                if feeder.push(kind, n as u8) {
                    accepted.push(format!("{}:{}", ["up", "down", "topo"][kind as usize], n));
                    out.push("ok".into());
                } else {
                    out.push("full".into());
                }
            }
            _ if !arg.is_empty() => return "bad-case".into(),
            "w" => match poll_once(&mut alive) {
                None => out.push("pending".into()),
                Some(label) => {
                    out.push(format!("ready[{}]", label));
                    if label == "broken" || label == "shutdown" {
                        out.push("end".into());
                        ended = true;
                        break;
                    }
                    delivered.push(label);
                }
            },
            "c" => {
                out.push(if alive.take().is_some() { "cancelled" } else { "idle" }.into());
            }
            "b" => out.push(if feeder.break_connection() { "ok" } else { "used" }.into()),
            "s" => {
                feeder.drop_error_sender();
                out.push("ok".into());
            }
            _ => return "bad-case".into(),
        }
    }
    let mut drained_clean = false;
    if !ended {
        let mut labs: Vec<String> = Vec::new();
        for _ in 0..(accepted.len() + 2) {
            // the drain is a parked task: it polls again as long as the future woke it, and is done only at a
            // `Pending` without a wake (nothing ready, nothing promised)
            flag.0.store(false, Ordering::SeqCst);
            let mut polled = poll_once(&mut alive);
            let mut again = 0;
            while polled.is_none() && flag.0.swap(false, Ordering::SeqCst) && again < 8 {
                polled = poll_once(&mut alive);
                again += 1;
            }
            match polled {
                None => {
                    drained_clean = true;
                    break;
                }
                Some(label) => {
                    let stop = label == "broken" || label == "shutdown";
                    labs.push(label.clone());
                    if stop {
                        break;
                    }
                    delivered.push(label);
                }
            }
        }
        out.push(format!("drain[{}]", if labs.is_empty() { "-".to_string() } else { labs.join(",") }));
    }
    drop(alive);
    // ------------------------------------------------------------------ oracle
    if delivered.len() > accepted.len() || delivered[..] != accepted[..delivered.len()] {
        ctx.fail(format!(
            "server events returned by wait_for_event {:?} are not a prefix of the events the connection delivered {:?}: an event was lost (a cancelled wait took it along), duplicated or reordered",
            delivered, accepted
        ));
    } else if drained_clean && delivered.len() != accepted.len() {
        ctx.fail(format!(
            "the connection delivered {:?} but wait_for_event returned only {:?} and then stayed pending: {} server event(s) lost in a cancelled / restarted wait",
            accepted,
            delivered,
            accepted.len() - delivered.len()
        ));
    }
    out.join(";")
}

// ---------------------------------------------------------------------------------------------
// generation
// ---------------------------------------------------------------------------------------------

fn push_op(rng: &mut Rng, next: &mut u16) -> String {
    let k = ["u", "d", "t"][rng.below(3) as usize];
    let n = *next % 256;
    *next += 1;
    format!("{}{}", k, n)
}

pub fn generate(rng: &mut Rng, tier: Tier, emit: &mut dyn FnMut(String)) {
    let quick = tier == Tier::Quick;
    // exhaustive over {push, w, c, b} (pushes numbered so that a lost / swapped event is visible)
    let depth = if quick { 6 } else { 8 };
    let alphabet = ["P", "w", "c", "b", "s"];
    let mut idx = vec![0usize; depth];
    loop {
        // `s` only in last-but-one positions keeps the universe small: allow it anywhere but at most once with `b`
        let letters: Vec<&str> = idx.iter().map(|i| alphabet[*i]).collect();
        if letters.iter().filter(|l| **l == "b" || **l == "s").count() <= 1 {
            let mut n = 1u16;
            let ops: Vec<String> = letters
                .iter()
                .enumerate()
                .map(|(i, l)| {
                    if *l == "P" {
                        let k = ["d", "u", "t"][(i + n as usize) % 3];
                        n += 1;
                        format!("{}{}", k, n - 1)
                    } else {
                        l.to_string()
                    }
                })
                .collect();
            emit(format!("evwait cap=2 {}", ops.join(";")));
        }
        let mut k = depth;
        loop {
            if k == 0 {
                break;
            }
            k -= 1;
            idx[k] += 1;
            if idx[k] < alphabet.len() {
                break;
            }
            idx[k] = 0;
        }
        if idx.iter().all(|i| *i == 0) {
            break;
        }
    }
    // the worker's loop in miniature: every wait is cancelled after one poll (another arm won), events keep coming
    for c in [
        "evwait cap=32 d1;w;c;w;c;w",
        "evwait cap=32 w;d1;c;w",
        "evwait cap=32 w;c;d1;w;c;u2;w;c;t3;w",
        "evwait cap=32 d1;u2;t3;w;c;w;c;w;c",
        "evwait cap=1 d1;u2;w;u2;w;c;w",
        "evwait cap=32 d1;b;w;w;w",
        "evwait cap=32 w;s;w",
        "evwait cap=32 d1;w;b;c;w",
    ] {
        emit(c.to_string());
    }
    for _ in 0..(if quick { 3_000 } else { 60_000 }) {
        let len = rng.range(1, 40) as usize;
        let cap = [1usize, 2, 3, 8, 32][rng.below(5) as usize];
        let cancel_heavy = rng.below(2) == 0;
        let with_error = rng.below(4) == 0;
        let mut next = rng.below(200) as u16;
        let mut ops: Vec<String> = Vec::new();
        for _ in 0..len {
            let r = rng.below(20);
            ops.push(if r < 7 {
                push_op(rng, &mut next)
            } else if r < 13 {
                "w".into()
            } else if r < (if cancel_heavy { 19 } else { 15 }) {
                "c".into()
            } else if r == 19 && with_error {
                if rng.below(3) == 0 { "s".into() } else { "b".into() }
            } else {
                "w".into()
            });
        }
        emit(format!("evwait cap={} {}", cap, ops.join(";")));
    }
}

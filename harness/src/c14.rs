//! C14 — prepared statements survive server-side eviction transparently and faithfully.
//!
//! The real `Connection::{prepare, execute_raw_with_consistency, batch_with_consistency}` (through
//! `verif_hooks::connection::VerifConn`) run against scripted CQL v4 nodes on loopback sockets. The nodes are
//! driven by a *schedule* (the case line): every request frame is held until the schedule says the node
//! consumes it (`S<k>`), every response is held until the schedule says the caller receives it (`R<k>`), and
//! node events (evict / schema change / id change / …) happen exactly where the schedule puts them. Each caller
//! owns its connections, so every frame is attributable; callers share the `PreparedStatement` objects
//! (clones share the current result metadata) and the nodes' state. Everything between two awaits of the
//! driver is atomic on the current-thread runtime, so a case replays exactly.
//!
//! Case syntax: see `lean/ScyllaVerif/Drive/C14.lean`. The abstract server implemented here (`NodeState::answer`)
//! is written independently of the Lean model's `serve`; both must agree (the `<…` tokens are diffed).
//!
//! ORACLE (model independent, `ctx.fail`): see `Oracle` below.
use crate::mocknode as mk;
use crate::mocknode::{BatchStmt, Col, Parsed, ResultMeta};
use crate::rng::Rng;
use crate::{Ctx, Tier};
use scylla::frame::types::{Consistency, SerialConsistency};
use scylla::response::{PagingState, PagingStateResponse};
use scylla::statement::batch::{Batch, BatchType};
use scylla::statement::prepared::PreparedStatement;
use scylla::statement::unprepared::Statement;
use scylla::value::{CqlValue, Row};
use scylla::verif_hooks::connection::{VerifConn, VerifConnOptions};
use scylla_cql_core::frame::response::result::{ColumnType, NativeType};
use scylla_cql_core::serialize::row::SerializedValues;
use std::collections::HashMap;
use std::sync::{Arc, Mutex};
use std::time::Duration;
use tokio::io::{AsyncReadExt, AsyncWriteExt};
use tokio::net::TcpListener;
use tokio::sync::mpsc::{UnboundedReceiver, UnboundedSender, unbounded_channel};

// ---------------------------------------------------------------------------------------------
// the abstract server (independent Rust implementation)
// ---------------------------------------------------------------------------------------------

#[derive(Clone, Copy, PartialEq, Eq, Debug)]
enum Kind {
    Normal,
    Late,
    Late0,
}

/// The statement universe: statement number `s < 8` written in one of 8 ways: plain, leading / trailing / surrounding
/// whitespace and newlines, trailing semicolon, mixed case with inner double whitespace, non-ASCII. The text is what
/// the caller passes to `prepare()`; a node derives the statement id from its EXACT bytes.
pub fn text_v(s: usize, tv: u8) -> String {
    match tv {
        1 => format!(" q{}", s),
        2 => format!("q{}\n", s),
        3 => format!("\n  q{}\t \n", s),
        4 => format!("q{};", s),
        5 => format!("Q{} WHERE x = 'A  b'", s),
        6 => format!("q{} /* żółć ☃ */", s),
        7 => format!("  q{} -- ü \n;", s),
        _ => format!("q{}", s),
    }
}

fn trim_ws(s: &str) -> &str {
    s.trim_matches(|c| c == ' ' || c == '\n' || c == '\t' || c == '\r')
}

/// which statement a query string is: a node's parser ignores surrounding whitespace, so a trimmed query string is
/// the SAME statement (with a DIFFERENT id)
fn stmt_of_text(text: &str) -> Option<usize> {
    let t = trim_ws(text);
    (0..8usize).rev().find(|s| (0..8u8).any(|tv| trim_ws(&text_v(*s, tv)) == t))
}

/// ids are rendered as hex of the exact query string + `#` + version
fn show_id(id: &[u8]) -> String {
    match id.iter().rposition(|b| *b == b'#') {
        Some(i) => format!("{}#{}", hex_plain(&id[..i]), ascii(&id[i + 1..])),
        None => hex_plain(id),
    }
}

#[derive(Clone, Debug)]
struct SrvStmt {
    idv: u32,
    shape: u8,
    kind: Kind,
    prep_fail: bool,
    /// how the caller writes this statement's text (`text_v`)
    tv: u8,
}

#[derive(Clone, Copy, PartialEq, Eq, Debug)]
enum Ov {
    PrepVoid,
    PrepCount,
    ExecError,
    ExecVoid,
    Malformed,
    ForceMeta,
    ForceNoMeta,
}

struct NodeState {
    ext: bool,
    gen_ts: bool,
    prepared: Vec<(Vec<u8>, usize)>,
    st: Vec<SrvStmt>,
    liar: bool,
    ov: Option<Ov>,
}

const T_INT: u16 = 0x0009;
const T_TEXT: u16 = 0x000D;

fn shape_cols(shape: u8) -> Vec<Col> {
    let c = |n: &str, t: u16| Col { name: n.to_owned(), type_id: t };
    match shape {
        1 => vec![c("a", T_INT)],
        2 => vec![c("a", T_TEXT)],
        3 => vec![c("a", T_INT), c("b", T_TEXT)],
        4 => vec![c("b", T_TEXT), c("a", T_INT)],
        5 => vec![c("c", T_INT)],
        _ => vec![],
    }
}

fn shape_mid(shape: u8) -> Vec<u8> {
    format!("m{}", shape).into_bytes()
}

#[derive(Clone, Debug, PartialEq)]
enum TV {
    Int(i32),
    Text(String),
}

impl TV {
    fn bytes(&self) -> Vec<u8> {
        match self {
            TV::Int(i) => i.to_be_bytes().to_vec(),
            TV::Text(s) => s.as_bytes().to_vec(),
        }
    }
    fn show(&self) -> String {
        match self {
            TV::Int(i) => i.to_string(),
            TV::Text(s) => format!("x{}", hex_plain(s.as_bytes())),
        }
    }
}

fn hex_plain(b: &[u8]) -> String {
    b.iter().map(|x| format!("{:02x}", x)).collect()
}

#[derive(Clone, Debug)]
enum Answer {
    Unprepared(Vec<u8>),
    Error(i32),
    Void,
    Rows {
        no_meta: bool,
        new_id: Option<Vec<u8>>,
        /// the columns the rows are encoded under (the node's current ones)
        cols: Vec<Col>,
        more: Option<Vec<u8>>,
        rows: Vec<Vec<TV>>,
        /// produced under a byzantine override (outside the server assumption)
        byz: bool,
    },
    Prepared {
        id: Vec<u8>,
        mid: Option<Vec<u8>>,
        no_meta: bool,
        col_count: usize,
        cols: Vec<Col>,
    },
}

fn row_of(cols: &[Col], v: i32, row: i32) -> Vec<TV> {
    cols.iter()
        .enumerate()
        .map(|(j, c)| if c.type_id == T_INT { TV::Int(v * 100 + row * 10 + j as i32) } else { TV::Text(format!("s{}r{}c{}", v, row, j)) })
        .collect()
}

impl NodeState {
    fn lookup(&self, id: &[u8]) -> Option<usize> {
        self.prepared.iter().find(|(i, _)| i == id).map(|(_, s)| *s)
    }

    fn answer(&mut self, req: &Parsed) -> Answer {
        match req {
            Parsed::Prepare { text } => {
                let s = match stmt_of_text(text) {
                    Some(s) if s < self.st.len() => s,
                    _ => return Answer::Error(0x2000),
                };
                let ss = self.st[s].clone();
                if ss.prep_fail {
                    return Answer::Error(0x2200);
                }
                if self.ov == Some(Ov::PrepVoid) {
                    self.ov = None;
                    return Answer::Void;
                }
                let count = self.ov == Some(Ov::PrepCount);
                if count {
                    self.ov = None;
                }
                // the id is a function of the EXACT bytes of the query string (a node uses md5; the identity is as good)
                let id = format!("{}#{}", text, ss.idv).into_bytes();
                self.prepared.insert(0, (id.clone(), s));
                let normal = ss.kind == Kind::Normal && !count;
                let mid = if !self.ext {
                    None
                } else if ss.kind == Kind::Late0 {
                    Some(b"mE".to_vec())
                } else {
                    Some(shape_mid(ss.shape))
                };
                let real = shape_cols(ss.shape);
                Answer::Prepared { id, mid, no_meta: !normal, col_count: if normal || count { real.len() } else { 0 }, cols: if normal { real } else { vec![] } }
            }
            Parsed::Execute { id, result_metadata_id, params } => {
                let Some(s) = self.lookup(id) else {
                    return Answer::Unprepared(if self.liar { b"bogus#0".to_vec() } else { id.clone() });
                };
                let ov = self.ov;
                if matches!(ov, Some(Ov::ExecError | Ov::ExecVoid | Ov::Malformed | Ov::ForceMeta | Ov::ForceNoMeta)) {
                    self.ov = None;
                }
                match ov {
                    Some(Ov::ExecError) => return Answer::Error(0x1001),
                    Some(Ov::ExecVoid) => return Answer::Void,
                    _ => {}
                }
                let shape = self.st[s].shape;
                let cols = shape_cols(shape);
                let cur_mid = shape_mid(shape);
                let changed = self.ext && result_metadata_id.as_deref() != Some(&cur_mid[..]);
                let v = match params.values.first() {
                    Some(Some(b)) if b.len() == 4 => i32::from_be_bytes([b[0], b[1], b[2], b[3]]),
                    _ => 0,
                };
                let (rows, more) = match params.page_size {
                    None => (vec![row_of(&cols, v, 0), row_of(&cols, v, 1)], None),
                    Some(_) => {
                        let page = match params.paging_state.as_deref() {
                            Some(b"p1") => 1,
                            Some(b"p2") => 2,
                            _ => 0,
                        };
                        (vec![row_of(&cols, v, page)], if page < 2 { Some(format!("p{}", page + 1).into_bytes()) } else { None })
                    }
                };
                if ov == Some(Ov::Malformed) && self.ext {
                    Answer::Rows { no_meta: true, new_id: Some(cur_mid), cols, more, rows, byz: true }
                } else if ov == Some(Ov::ForceNoMeta) {
                    Answer::Rows { no_meta: true, new_id: None, cols, more, rows, byz: true }
                } else if changed {
                    Answer::Rows { no_meta: false, new_id: Some(cur_mid), cols, more, rows, byz: false }
                } else if params.skip_metadata && ov != Some(Ov::ForceMeta) {
                    Answer::Rows { no_meta: true, new_id: None, cols, more, rows, byz: false }
                } else {
                    Answer::Rows { no_meta: false, new_id: None, cols, more, rows, byz: ov == Some(Ov::ForceMeta) }
                }
            }
            Parsed::Batch { statements, .. } => {
                for st in statements {
                    if let BatchStmt::Prepared(id, _) = st
                        && self.lookup(id).is_none()
                    {
                        return Answer::Unprepared(if self.liar { b"bogus#0".to_vec() } else { id.clone() });
                    }
                }
                Answer::Void
            }
            _ => Answer::Error(0x000A),
        }
    }
}

fn encode(a: &Answer) -> (u8, Vec<u8>) {
    match a {
        Answer::Unprepared(id) => (mk::RESP_ERROR, mk::body_unprepared(id)),
        Answer::Error(c) => (mk::RESP_ERROR, mk::body_error(*c, "scripted", &[])),
        Answer::Void => (mk::RESP_RESULT, mk::body_void()),
        Answer::Rows { no_meta, new_id, cols, more, rows, .. } => {
            let rm = ResultMeta {
                cols: if *no_meta { None } else { Some(cols.clone()) },
                col_count: cols.len() as i32,
                paging_state: more.clone(),
                new_metadata_id: new_id.clone(),
            };
            let cells: Vec<Vec<Option<Vec<u8>>>> = rows.iter().map(|r| r.iter().map(|c| Some(c.bytes())).collect()).collect();
            (mk::RESP_RESULT, mk::body_rows(&rm, &cells))
        }
        Answer::Prepared { id, mid, no_meta, col_count, cols } => {
            let rm = ResultMeta { cols: if *no_meta { None } else { Some(cols.clone()) }, col_count: *col_count as i32, ..Default::default() };
            let bind = [Col { name: "v".to_owned(), type_id: T_INT }];
            (mk::RESP_RESULT, mk::body_prepared(id, mid.as_deref(), &bind, &[], &rm))
        }
    }
}

// ---------------------------------------------------------------------------------------------
// printing (must match Drive/C14.lean)
// ---------------------------------------------------------------------------------------------

fn ascii(b: &[u8]) -> String {
    String::from_utf8_lossy(b).into_owned()
}

fn show_cols_mk(cols: &[Col]) -> String {
    if cols.is_empty() {
        return "-".to_owned();
    }
    cols.iter().map(|c| format!("{}:{}", c.name, if c.type_id == T_INT { "int" } else { "text" })).collect::<Vec<_>>().join(",")
}

fn show_cols(cols: &[(String, String)]) -> String {
    if cols.is_empty() {
        return "-".to_owned();
    }
    cols.iter().map(|(n, t)| format!("{}:{}", n, t)).collect::<Vec<_>>().join(",")
}

fn cols_of_mk(cols: &[Col]) -> Vec<(String, String)> {
    cols.iter().map(|c| (c.name.clone(), if c.type_id == T_INT { "int" } else { "text" }.to_owned())).collect()
}

fn show_opt_id(id: &Option<Vec<u8>>) -> String {
    match id {
        None => "~".to_owned(),
        Some(b) if b.is_empty() => "\"\"".to_owned(),
        Some(b) => ascii(b),
    }
}

fn opt<T: ToString>(x: &Option<T>) -> String {
    x.as_ref().map(|v| v.to_string()).unwrap_or_else(|| "-".to_owned())
}

fn val_i32(v: &Option<Vec<u8>>) -> String {
    match v {
        Some(b) if b.len() == 4 => i32::from_be_bytes([b[0], b[1], b[2], b[3]]).to_string(),
        Some(b) => format!("x{}", hex_plain(b)),
        None => "null".to_owned(),
    }
}

fn show_req(node: usize, p: &Parsed) -> String {
    match p {
        Parsed::Prepare { text } => format!(">n{} PREP x{}", node, hex_plain(text.as_bytes())),
        Parsed::Execute { id, result_metadata_id, params } => format!(
            ">n{} EXEC id={} mid={} skip={} v={} cl={} scl={} ts={} pg={} ps={}",
            node,
            show_id(id),
            show_opt_id(result_metadata_id),
            params.skip_metadata as u8,
            if params.values.is_empty() { "-".to_owned() } else { params.values.iter().map(val_i32).collect::<Vec<_>>().join(",") },
            params.consistency,
            opt(&params.serial_consistency),
            opt(&params.timestamp),
            opt(&params.page_size),
            params.paging_state.as_ref().map(|b| ascii(b)).unwrap_or_else(|| "-".to_owned()),
        ),
        Parsed::Batch { statements, consistency, serial_consistency, timestamp, .. } => {
            let items: Vec<String> = statements
                .iter()
                .map(|s| match s {
                    BatchStmt::Prepared(id, v) => format!("{}/{}", show_id(id), v.iter().map(val_i32).collect::<Vec<_>>().join("+")),
                    BatchStmt::Query(t, _) => format!("query:{}", t),
                })
                .collect();
            format!(">n{} BATCH {} cl={} scl={} ts={}", node, if items.is_empty() { "-".to_owned() } else { items.join(",") }, consistency, opt(serial_consistency), opt(timestamp))
        }
        other => format!(">n{} OTHER {:?}", node, std::mem::discriminant(other)),
    }
}

fn show_answer(a: &Answer) -> String {
    match a {
        Answer::Unprepared(id) => format!("<unprepared:{}", show_id(id)),
        Answer::Error(c) => format!("<error:{}", c),
        Answer::Void => "<void".to_owned(),
        Answer::Rows { no_meta, new_id, cols, .. } => {
            let m = match (no_meta, new_id) {
                (true, Some(i)) => format!("nometa+{}", ascii(i)),
                (true, None) => "nometa".to_owned(),
                (false, Some(i)) => format!("meta+{}", ascii(i)),
                (false, None) => "meta".to_owned(),
            };
            format!("<rows:{}:{}", m, cols.len())
        }
        Answer::Prepared { id, mid, no_meta, col_count, cols } => {
            format!("<prepared:{}:{}:{}", show_id(id), show_opt_id(mid), if *no_meta { format!("nometa{}", col_count) } else { show_cols_mk(cols) })
        }
    }
}

/// what a caller got back
enum Out {
    Rows { cols: Vec<(String, String)>, rows: Option<Vec<Vec<String>>>, more: Option<Vec<u8>> },
    Void,
    Prepared(Box<PreparedStatement>),
    Err(String),
}

fn show_out(o: &Out) -> String {
    match o {
        Out::Rows { cols, rows, more } => {
            let r = match rows {
                None => "ERR".to_owned(),
                Some(rs) if rs.is_empty() => "-".to_owned(),
                Some(rs) => rs.iter().map(|r| format!("[{}]", r.join(","))).collect::<String>(),
            };
            format!("=rows cols={} r={} more={}", show_cols(cols), r, more.as_ref().map(|b| ascii(b)).unwrap_or_else(|| "-".to_owned()))
        }
        Out::Void => "=void".to_owned(),
        Out::Prepared(_) => "=prepared".to_owned(),
        Out::Err(l) => format!("=err:{}", if l.starts_with("UnexpectedResponse") { "UnexpectedResponse" } else { l }),
    }
}

fn type_name(t: &ColumnType) -> String {
    match t {
        ColumnType::Native(NativeType::Int) => "int".to_owned(),
        ColumnType::Native(NativeType::Text) => "text".to_owned(),
        _ => "other".to_owned(),
    }
}

fn cur_cols(ps: &PreparedStatement) -> Vec<(String, String)> {
    ps.get_current_result_set_col_specs().get().iter().map(|c| (c.name().to_owned(), type_name(c.typ()))).collect()
}

fn to_out(res: Result<(scylla::response::query_result::QueryResult, PagingStateResponse), String>) -> Out {
    match res {
        Err(l) => Out::Err(l),
        Ok((qr, psr)) => {
            if !qr.is_rows() {
                return Out::Void;
            }
            let more = match psr {
                PagingStateResponse::HasMorePages { state } => Some(state.as_bytes_slice().map(|b| b.to_vec()).unwrap_or_default()),
                PagingStateResponse::NoMorePages => None,
            };
            match qr.into_rows_result() {
                Err(_) => Out::Err("IntoRowsResult".to_owned()),
                Ok(rr) => {
                    let cols: Vec<(String, String)> = rr.column_specs().iter().map(|c| (c.name().to_owned(), type_name(c.typ()))).collect();
                    let rows = match rr.rows::<Row>() {
                        Err(_) => None,
                        Ok(it) => it
                            .map(|r| {
                                r.ok().map(|row| {
                                    row.columns
                                        .iter()
                                        .map(|c| match c {
                                            Some(CqlValue::Int(i)) => i.to_string(),
                                            Some(CqlValue::Text(s)) => format!("x{}", hex_plain(s.as_bytes())),
                                            Some(_) => "?".to_owned(),
                                            None => "null".to_owned(),
                                        })
                                        .collect::<Vec<String>>()
                                })
                            })
                            .collect::<Option<Vec<_>>>(),
                    };
                    Out::Rows { cols, rows, more }
                }
            }
        }
    }
}

// ---------------------------------------------------------------------------------------------
// network
// ---------------------------------------------------------------------------------------------

enum Ev {
    Frame { node: usize, conn: usize, stream: i16, parsed: Parsed },
    Done { caller: usize, out: Out },
}

struct NodeNet {
    addr: std::net::SocketAddr,
    writers: Arc<Mutex<Vec<UnboundedSender<Vec<u8>>>>>,
}

async fn start_node(node: usize, ext: bool, ev: UnboundedSender<Ev>) -> NodeNet {
    let listener = TcpListener::bind("127.0.0.1:0").await.unwrap();
    let addr = listener.local_addr().unwrap();
    let writers: Arc<Mutex<Vec<UnboundedSender<Vec<u8>>>>> = Arc::new(Mutex::new(Vec::new()));
    let writers2 = Arc::clone(&writers);
    tokio::spawn(async move {
        loop {
            let Ok((sock, _)) = listener.accept().await else { return };
            let _ = sock.set_nodelay(true);
            let (mut rd, mut wr) = sock.into_split();
            let (wtx, mut wrx) = unbounded_channel::<Vec<u8>>();
            let conn = {
                let mut w = writers2.lock().unwrap();
                w.push(wtx.clone());
                w.len() - 1
            };
            tokio::spawn(async move {
                while let Some(b) = wrx.recv().await {
                    if wr.write_all(&b).await.is_err() {
                        return;
                    }
                }
            });
            let ev = ev.clone();
            tokio::spawn(async move {
                let mut ext_on = false;
                loop {
                    let mut hdr = [0u8; 9];
                    if rd.read_exact(&mut hdr).await.is_err() {
                        return;
                    }
                    let len = u32::from_be_bytes([hdr[5], hdr[6], hdr[7], hdr[8]]) as usize;
                    let mut body = vec![0u8; len];
                    if rd.read_exact(&mut body).await.is_err() {
                        return;
                    }
                    let stream = i16::from_be_bytes([hdr[2], hdr[3]]);
                    let parsed = mk::parse_request(hdr[4], &body, ext_on);
                    match &parsed {
                        Parsed::Options => {
                            let _ = wtx.send(mk::frame(stream, mk::RESP_SUPPORTED, &mk::body_supported(ext, None)));
                        }
                        Parsed::Startup(opts) => {
                            ext_on = opts.iter().any(|(k, _)| k == "SCYLLA_USE_METADATA_ID");
                            let _ = wtx.send(mk::frame(stream, mk::RESP_READY, &[]));
                        }
                        Parsed::Register(_) => {
                            let _ = wtx.send(mk::frame(stream, mk::RESP_READY, &[]));
                        }
                        _ => {
                            if ev.send(Ev::Frame { node, conn, stream, parsed }).is_err() {
                                return;
                            }
                        }
                    }
                }
            });
        }
    });
    NodeNet { addr, writers }
}

// ---------------------------------------------------------------------------------------------
// the scheduler
// ---------------------------------------------------------------------------------------------

enum CState {
    Idle,
    Req { node: usize, conn: usize, stream: i16, parsed: Parsed },
    Resp { node: usize, conn: usize, stream: i16, answer: Answer },
}

struct ExecInfo {
    obj: usize,
    handle: PreparedStatement,
    values: Vec<i32>,
    cl: u16,
    scl: Option<u16>,
    /// the statement's own timestamp
    ts: Option<i64>,
    pg: Option<i32>,
    ps: Option<Vec<u8>>,
}

/// what the timestamp of a request must be: the statement's own, else one from the generator iff the connection
/// has one (the scripted generator hands out 1_000_000, 1_000_001, ...)
fn ts_ok(own: Option<i64>, has_gen: bool, seen: Option<i64>) -> bool {
    match (own, has_gen) {
        (Some(t), _) => seen == Some(t),
        (None, true) => seen.is_some_and(|t| t >= 1_000_000),
        (None, false) => seen.is_none(),
    }
}

enum OpKind {
    Fresh { slot: usize },
    Exec(Box<ExecInfo>),
    Batch { items: Vec<(usize, PreparedStatement, i32)>, cl: u16, scl: Option<u16>, ts: Option<i64> },
}

struct OpRec {
    kind: OpKind,
    node: usize,
    frames: Vec<Parsed>,
    answers: Vec<Answer>,
    /// per frame: the most recent announcement for the executed statement object when the frame arrived
    latest_at_build: Vec<Vec<(String, String)>>,
    /// per frame: the node that made that announcement
    latest_src_at_build: Vec<usize>,
}

struct Caller {
    state: CState,
    op: Option<OpRec>,
}

/// Oracle bookkeeping per statement object.
struct ObjInfo {
    /// the columns most recently announced to this client for this object: by the creating PREPARED, by a
    /// METADATA_CHANGED response, or by a re-PREPARED that carried columns (on any connection), in delivery order
    latest: Vec<(String, String)>,
    /// the node that made it
    latest_src: usize,
    /// every column set the server ever announced to this client for this object (creating PREPARED included)
    announced: Vec<Vec<(String, String)>>,
    /// the text the caller passed to `prepare()` for this object, and its statement number
    text_given: String,
    stmt_no: usize,
    /// a byzantine PREPARED (NO_METADATA with a column count) was delivered for it: no decode claims
    byz: bool,
    /// set when a METADATA_CHANGED response was delivered for it: (new id, new columns non-empty)
    expect_mid: Option<(Vec<u8>, bool)>,
}

/// The k-th draw (over all connections of a case) is 1_000_000 + k.
struct ScriptedGen(Arc<std::sync::atomic::AtomicI64>);

impl scylla::policies::timestamp_generator::TimestampGenerator for ScriptedGen {
    fn next_timestamp(&self) -> i64 {
        1_000_000 + self.0.fetch_add(1, std::sync::atomic::Ordering::SeqCst)
    }
}

/// Per-process infrastructure kept across cases (no socket churn): 8 listeners (4 node slots with and 4
/// without the extension), lazily opened caller connections, the event channel.
struct Net {
    nets: Vec<NodeNet>,
    /// (caller, listener, with timestamp generator) -> connection
    conns: HashMap<(usize, usize, bool), (Arc<VerifConn>, usize)>,
    /// draws from the scripted timestamp generator shared by all generator connections (reset per case)
    ts_ctr: Arc<std::sync::atomic::AtomicI64>,
    /// [listener][connection] -> caller
    owners: Vec<Vec<usize>>,
    ev_tx: UnboundedSender<Ev>,
    ev_rx: UnboundedReceiver<Ev>,
}

const SLOTS: usize = 4;

struct World<'a> {
    net: &'a mut Net,
    /// node of the case -> listener
    lid: Vec<usize>,
    srv: Vec<NodeState>,
    slots: Vec<Option<(usize, PreparedStatement)>>,
    objs: Vec<ObjInfo>,
    callers: Vec<Caller>,
    fails: Vec<String>,
    hang: bool,
    /// the object touched by the delivery in progress got a byzantine PREPARED (no claims about its metadata)
    target_byz: bool,
}

enum Got {
    Frame { node: usize, conn: usize, stream: i16, parsed: Parsed },
    Done(Out),
    Hang,
}

/// every field of the re-sent EXECUTE equals the first one's, except the skip-metadata flag and the presented
/// result-metadata id (which the re-preparation dictates)
fn same_exec_params(a: &Parsed, b: &Parsed) -> bool {
    match (a, b) {
        (Parsed::Execute { id: i1, params: p1, .. }, Parsed::Execute { id: i2, params: p2, .. }) => {
            let norm = |p: &mk::QueryParams| {
                let mut q = p.clone();
                q.skip_metadata = false;
                q.flags &= !0x02;
                q
            };
            i1 == i2 && norm(p1) == norm(p2)
        }
        _ => false,
    }
}

impl World<'_> {
    fn fail(&mut self, msg: String) {
        self.fails.push(msg);
    }

    async fn conn_for(&mut self, k: usize, node: usize) -> Result<Arc<VerifConn>, String> {
        let l = self.lid[node];
        let gen_ts = self.srv[node].gen_ts;
        if let Some((c, _)) = self.net.conns.get(&(k, l, gen_ts)) {
            return Ok(Arc::clone(c));
        }
        let idx = self.net.owners[l].len();
        self.net.owners[l].push(k);
        let mut options = VerifConnOptions::default();
        if gen_ts {
            options.timestamp_generator = Some(Arc::new(ScriptedGen(Arc::clone(&self.net.ts_ctr))));
        }
        let c = Arc::new(VerifConn::open(self.net.nets[l].addr, options).await?);
        if c.metadata_id_supported() != self.srv[node].ext {
            self.fail(format!("connection to node {} negotiated ext={} but the node offers {}", node, c.metadata_id_supported(), self.srv[node].ext));
        }
        self.net.conns.insert((k, l, gen_ts), (Arc::clone(&c), idx));
        Ok(c)
    }

    async fn wait(&mut self, k: usize) -> Got {
        loop {
            match tokio::time::timeout(Duration::from_secs(60), self.net.ev_rx.recv()).await {
                Err(_) | Ok(None) => {
                    self.hang = true;
                    return Got::Hang;
                }
                Ok(Some(Ev::Frame { node: l, conn, stream, parsed })) => {
                    let owner = self.net.owners[l].get(conn).copied();
                    let Some(node) = self.lid.iter().position(|x| *x == l) else {
                        self.fail(format!("frame on listener {} which is not a node of this case", l));
                        continue;
                    };
                    if owner == Some(k) {
                        return Got::Frame { node, conn, stream, parsed };
                    }
                    self.fail(format!("unexpected frame from caller {:?} on node {} while waiting for caller {}", owner, node, k));
                }
                Ok(Some(Ev::Done { caller, out })) => {
                    if caller == k {
                        return Got::Done(out);
                    }
                    self.fail(format!("caller {} finished while waiting for caller {}", caller, k));
                }
            }
        }
    }

    // ---- oracle: the frame a caller sends, given what it sent and got before ------------------
    fn check_frame(&mut self, k: usize, node: usize, parsed: &Parsed) {
        let mut fails = Vec::new();
        let Some(op) = self.callers[k].op.as_ref() else {
            self.fail(format!("caller {} sent a frame without an operation", k));
            return;
        };
        if node != op.node {
            fails.push(format!("frame sent to node {} but the operation runs on node {}", node, op.node));
        }
        let n = op.frames.len();
        match &op.kind {
            OpKind::Fresh { slot } => {
                let given = text_v(*slot, self.srv[op.node].st.get(*slot).map(|s| s.tv).unwrap_or(0));
                if n != 0 || !matches!(parsed, Parsed::Prepare { text } if *text == given) {
                    fails.push(format!("prepare of statement {}: the PREPARE frame #{} does not carry the text the caller passed, byte for byte: {}", slot, n, show_req(node, parsed)));
                }
            }
            OpKind::Exec(e) => match n {
                0 => {
                    let has_gen = self.srv[op.node].gen_ts;
                    let ok = matches!(parsed, Parsed::Execute { id, params, .. }
                        if id[..] == e.handle.get_id()[..]
                            && params.values == e.values.iter().map(|v| Some(v.to_be_bytes().to_vec())).collect::<Vec<_>>()
                            && params.unset.iter().all(|u| !u)
                            && params.consistency == e.cl
                            && ts_ok(e.ts, has_gen, params.timestamp)
                            && params.page_size == e.pg
                            && params.paging_state == e.ps
                            && params.serial_consistency == e.scl);
                    if !ok {
                        fails.push(format!("EXECUTE does not say what the caller asked for: {}", show_req(node, parsed)));
                    }
                }
                1 => {
                    if !matches!(op.answers.first(), Some(Answer::Unprepared(_))) {
                        fails.push("second frame although the first EXECUTE was not answered UNPREPARED".to_owned());
                    }
                    if !matches!(parsed, Parsed::Prepare { text } if *text == self.objs[e.obj].text_given) {
                        fails.push(format!("after UNPREPARED the node must see PREPARE of the text the caller passed to prepare() (x{}), byte for byte; saw {}", hex_plain(self.objs[e.obj].text_given.as_bytes()), show_req(node, parsed)));
                    }
                }
                2 => {
                    match op.answers.get(1) {
                        Some(Answer::Prepared { id, .. }) if id[..] == e.handle.get_id()[..] => {}
                        Some(Answer::Prepared { id, .. }) => {
                            fails.push(format!("re-preparation returned id {} != {} but the driver went on: {}", ascii(id), ascii(e.handle.get_id()), show_req(node, parsed)))
                        }
                        _ => fails.push("third frame although re-preparation did not succeed".to_owned()),
                    }
                    if !same_exec_params(&op.frames[0], parsed) {
                        fails.push(format!("re-sent EXECUTE differs from the original in id/values/consistency/serial consistency/timestamp/page size/paging state: {} vs {}", show_req(node, &op.frames[0]), show_req(node, parsed)));
                    }
                }
                _ => fails.push(format!("execution sent a frame #{}: {}", n, show_req(node, parsed))),
            },
            OpKind::Batch { items, cl, scl, ts } => {
                if n % 2 == 0 {
                    let has_gen = self.srv[op.node].gen_ts;
                    let ok = matches!(parsed, Parsed::Batch { statements, consistency, timestamp, serial_consistency, .. }
                        if statements.len() == items.len()
                            && statements.iter().zip(items.iter()).all(|(s, (_, h, v))| matches!(s, BatchStmt::Prepared(id, vals)
                                if id[..] == h.get_id()[..] && *vals == vec![Some(v.to_be_bytes().to_vec())]))
                            && consistency == cl && ts_ok(*ts, has_gen, *timestamp) && serial_consistency == scl);
                    if !ok {
                        fails.push(format!("BATCH does not say what the caller asked for: {}", show_req(node, parsed)));
                    }
                    if n > 0 {
                        if *parsed != op.frames[0] {
                            fails.push("re-sent BATCH differs from the original".to_owned());
                        }
                        match op.answers.get(n - 1) {
                            Some(Answer::Prepared { id, .. }) if items.iter().any(|(_, h, _)| h.get_id()[..] == id[..]) => {}
                            _ => fails.push("BATCH re-sent although re-preparation did not return a statement id of the batch".to_owned()),
                        }
                    }
                } else {
                    match op.answers.get(n - 1) {
                        Some(Answer::Unprepared(id)) => match items.iter().find(|(_, h, _)| h.get_id()[..] == id[..]) {
                            Some((o, _, _)) => {
                                if !matches!(parsed, Parsed::Prepare { text } if *text == self.objs[*o].text_given) {
                                    fails.push(format!("after UNPREPARED({}) the node must see PREPARE of that statement's text as the caller passed it (x{}), byte for byte; saw {}", show_id(id), hex_plain(self.objs[*o].text_given.as_bytes()), show_req(node, parsed)));
                                }
                            }
                            None => fails.push(format!("UNPREPARED names id {} which is not in the batch, yet the driver sent {}", ascii(id), show_req(node, parsed))),
                        },
                        _ => fails.push("frame after a BATCH that was not answered UNPREPARED".to_owned()),
                    }
                }
            }
        }
        // the next EXECUTE after a METADATA_CHANGED response presents the new id
        if let (OpKind::Exec(e), Parsed::Execute { result_metadata_id, params, .. }) = (&op.kind, parsed)
            && self.srv[node].ext
            && let Some((mid, nonempty)) = &self.objs[e.obj].expect_mid
        {
            let ok = if *nonempty {
                result_metadata_id.as_deref() == Some(&mid[..]) && params.skip_metadata
            } else {
                result_metadata_id.as_deref() == Some(&b""[..]) && !params.skip_metadata
            };
            if !ok {
                fails.push(format!("the server announced result metadata id {} (columns non-empty: {}) but the next EXECUTE is {}", ascii(mid), nonempty, show_req(node, parsed)));
            }
        }
        for f in fails {
            self.fail(f);
        }
    }

    // ---- oracle: what the caller finally sees --------------------------------------------------
    fn check_outcome(&mut self, k: usize, out: &Out) {
        let mut fails = Vec::new();
        let Some(op) = self.callers[k].op.as_ref() else { return };
        let label = match out {
            Out::Err(l) => Some(l.as_str()),
            _ => None,
        };
        let last = op.answers.last();
        match &op.kind {
            OpKind::Fresh { .. } => match (last, out) {
                (Some(Answer::Prepared { .. }), Out::Prepared(_)) => {}
                (Some(Answer::Void), Out::Err(l)) if l.starts_with("UnexpectedResponse") => {}
                (Some(Answer::Error(c)), Out::Err(l)) if *l == format!("DbError:{}", c) => {}
                _ => fails.push(format!("prepare: outcome {} does not fit the node's answer", show_out(out))),
            },
            OpKind::Exec(e) => {
                let final_answer = match op.answers.len() {
                    1 => {
                        if matches!(last, Some(Answer::Unprepared(_))) {
                            fails.push("UNPREPARED reached the caller without a re-preparation".to_owned());
                        }
                        last
                    }
                    2 => {
                        match last {
                            Some(Answer::Prepared { id, .. }) if id[..] != e.handle.get_id()[..] => {
                                if label != Some("RepreparedIdChanged") {
                                    fails.push(format!("re-preparation returned a different id but the caller got {}", show_out(out)));
                                }
                            }
                            Some(Answer::Error(c)) => {
                                if label != Some(&format!("DbError:{}", c)[..]) {
                                    fails.push(format!("re-preparation failed with {} but the caller got {}", c, show_out(out)));
                                }
                            }
                            Some(Answer::Void) if label.is_some_and(|l| l.starts_with("UnexpectedResponse")) => {}
                            _ => fails.push(format!("execution ended after re-preparation with {}", show_out(out))),
                        }
                        None
                    }
                    3 => last,
                    n => {
                        fails.push(format!("execution ended after {} answers", n));
                        None
                    }
                };
                if let Some(a) = final_answer {
                    match (a, out) {
                        (Answer::Void, Out::Void) => {}
                        (Answer::Error(c), Out::Err(l)) if *l == format!("DbError:{}", c) => {}
                        // second UNPREPARED in a row: the driver re-sends once only
                        (Answer::Unprepared(_), Out::Err(l)) if l == "DbError:9472" && op.answers.len() == 3 => {}
                        (Answer::Unprepared(_), Out::Err(l)) if l == "DbError:9472" => {}
                        (Answer::Rows { no_meta: true, new_id: Some(_), .. }, Out::Err(l)) if l == "CqlResultParseError" || l == "CqlResponseParseError" => {}
                        (Answer::Rows { byz: true, .. }, Out::Rows { .. }) => {}
                        (Answer::Rows { .. }, Out::Rows { .. }) if self.objs[e.obj].byz => {}
                        (Answer::Rows { no_meta, cols, more, rows, .. }, Out::Rows { cols: used, rows: decoded, more: more2 }) => {
                            let enc = cols_of_mk(cols);
                            let expected: Vec<Vec<String>> = rows.iter().map(|r| r.iter().map(|c| c.show()).collect()).collect();
                            let ext = self.srv[op.node].ext;
                            if more != more2 {
                                fails.push("paging state of the response differs from what the node sent".to_owned());
                            }
                            if !*no_meta || ext {
                                // metadata sent along, or omitted by a node that checked the presented id
                                if *used != enc {
                                    fails.push(format!("rows encoded under [{}] were decoded with [{}] (metadata sent: {})", show_cols(&enc), show_cols(used), !*no_meta));
                                } else if decoded.as_ref() != Some(&expected) {
                                    fails.push("decoded rows differ from the rows the node encoded".to_owned());
                                }
                            } else {
                                // no extension, metadata omitted as requested: the rows must be decoded with the metadata
                                // most recently announced for this statement when this EXECUTE was built
                                let latest = op.latest_at_build.last().cloned().unwrap_or_default();
                                if !self.objs[e.obj].announced.contains(used) {
                                    // not the F-C14-1 shape (an OLDER announcement): the metadata cached for the request
                                    // never reached the parser, or something else was used
                                    let all: Vec<String> = self.objs[e.obj].announced.iter().map(|c| format!("[{}]", show_cols(c))).collect();
                                    fails.push(format!("NEVER-ANNOUNCED connection without the extension: the request asked to skip the metadata (use_cached_result_metadata) and the node omitted it as requested, but the rows (encoded under [{}]) were decoded with [{}], which the server never announced for this statement (announced so far: {})", show_cols(&enc), show_cols(used), all.join(" ")));
                                } else if *used != latest {
                                    fails.push(format!("F-C14-1 connection without the extension, use_cached_result_metadata: rows sent without metadata (encoded under [{}]) were decoded with [{}], but the metadata most recently announced for this statement when the EXECUTE was built was [{}]", show_cols(&enc), show_cols(used), show_cols(&latest)));
                                } else if *used == enc {
                                    if decoded.as_ref() != Some(&expected) {
                                        fails.push("decoded rows differ from the rows the node encoded".to_owned());
                                    }
                                } else if std::env::var_os("C14_CLASSIFY").is_some() {
                                    // The columns used ARE the most recently announced ones, yet the answering node
                                    // encodes under different columns: accepted by the property as worded ("announced"
                                    // is not per node / nobody told the client). Developer switch: report and classify.
                                    let src = op.latest_src_at_build.last().copied().unwrap_or(usize::MAX);
                                    let stmt_no = self.objs[e.obj].stmt_no;
                                    let src_now = self.srv.get(src).and_then(|n| n.st.get(stmt_no)).map(|s| cols_of_mk(&shape_cols(s.shape)));
                                    if src == op.node || src_now.as_ref() != Some(used) {
                                        fails.push(format!("C14-NOTE-A the cluster changed the columns to [{}] after [{}] was announced and nobody told this client (CQL v4 without the extension cannot)", show_cols(&enc), show_cols(used)));
                                    } else {
                                        fails.push(format!("C14-NOTE-B columns [{}] announced by node {} used on node {} (no extension) which encodes under [{}] while the announcing node still holds the announced columns: the nodes disagree on the schema", show_cols(used), src, op.node, show_cols(&enc)));
                                    }
                                }
                            }
                        }
                        _ => fails.push(format!("outcome {} does not fit the node's final answer {}", show_out(out), show_answer(a))),
                    }
                }
            }
            OpKind::Batch { items, .. } => match (last, out) {
                (Some(Answer::Void), Out::Err(l)) if l.starts_with("UnexpectedResponse") && matches!(op.frames.last(), Some(Parsed::Prepare { .. })) => {}
                (Some(Answer::Void), Out::Void) if matches!(op.frames.last(), Some(Parsed::Prepare { .. })) => {
                    fails.push("batch reported success although its re-preparation was answered with a non-PREPARED result".to_owned())
                }
                (Some(Answer::Void), Out::Void) => {}
                (Some(Answer::Error(c)), Out::Err(l)) if *l == format!("DbError:{}", c) => {}
                (Some(Answer::Unprepared(id)), Out::Err(l)) if l == "RepreparedIdMissingInBatch" && !items.iter().any(|(_, h, _)| h.get_id()[..] == id[..]) => {}
                (Some(Answer::Prepared { id, .. }), Out::Err(l)) if l == "RepreparedIdChanged" && op.answers.len() >= 2 => {
                    let asked = match &op.answers[op.answers.len() - 2] {
                        Answer::Unprepared(u) => u.clone(),
                        _ => vec![],
                    };
                    if *id == asked {
                        fails.push("RepreparedIdChanged although the id did not change".to_owned());
                    }
                }
                _ => fails.push(format!("batch: outcome {} does not fit the node's answer {}", show_out(out), last.map(show_answer).unwrap_or_default())),
            },
        }
        for f in fails {
            self.fail(f);
        }
    }

    /// bookkeeping + oracle at the moment a response is handed to the caller
    fn before_delivery(&mut self, k: usize, answer: &Answer) -> (Option<PreparedStatement>, Vec<(String, String)>) {
        let Some(op) = self.callers[k].op.as_ref() else { return (None, vec![]) };
        let ext = self.srv[op.node].ext;
        // the object whose current metadata this delivery may touch
        let target: Option<(usize, PreparedStatement)> = match &op.kind {
            OpKind::Exec(e) => Some((e.obj, e.handle.clone())),
            OpKind::Batch { items, .. } => match op.frames.last() {
                Some(Parsed::Prepare { text }) => {
                    let s = stmt_of_text(text);
                    items.iter().find(|(o, _, _)| Some(self.objs[*o].stmt_no) == s).map(|(o, h, _)| (*o, h.clone()))
                }
                _ => None,
            },
            OpKind::Fresh { .. } => None,
        };
        let Some((obj, handle)) = target else { return (None, vec![]) };
        self.target_byz = self.objs[obj].byz || matches!(answer, Answer::Prepared { no_meta: true, col_count, .. } if *col_count > 0);
        let before = cur_cols(&handle);
        let answering = op.node;
        match answer {
            Answer::Rows { no_meta: false, new_id: Some(mid), cols, .. } if ext => {
                self.objs[obj].latest = cols_of_mk(cols);
                self.objs[obj].announced.push(cols_of_mk(cols));
                self.objs[obj].latest_src = answering;
                self.objs[obj].expect_mid = Some((mid.clone(), !cols.is_empty()));
            }
            Answer::Prepared { id, no_meta, col_count, cols, .. } if id[..] == handle.get_id()[..] => {
                if !*no_meta {
                    self.objs[obj].latest = cols_of_mk(cols);
                    self.objs[obj].announced.push(cols_of_mk(cols));
                    self.objs[obj].latest_src = answering;
                } else if *col_count > 0 {
                    self.objs[obj].byz = true;
                }
                self.objs[obj].expect_mid = None;
            }
            Answer::Rows { no_meta: true, .. } => self.objs[obj].expect_mid = None,
            _ => {}
        }
        (Some(handle), before)
    }

    fn after_delivery(&mut self, k: usize, answer: &Answer, handle: &PreparedStatement, before: &[(String, String)], next: Option<&Parsed>) {
        let node = self.callers[k].op.as_ref().map(|o| o.node).unwrap_or(0);
        let ext = self.srv[node].ext;
        let after = cur_cols(handle);
        if let Answer::Prepared { id, mid, cols, .. } = answer
            && id[..] == handle.get_id()[..]
        {
            // nonempty_never_replaced_by_empty
            let announced_count = match answer {
                Answer::Prepared { col_count, .. } => *col_count,
                _ => 0,
            };
            if cols.is_empty() && announced_count == 0 && !before.is_empty() && after != before {
                self.fail(format!("re-preparation announced no columns and the non-empty current metadata [{}] was replaced by [{}]", show_cols(before), show_cols(&after)));
            }
            // the re-sent EXECUTE presents the id the re-preparation announced
            if ext
                && !cols.is_empty()
                && let (Some(mid), Some(Parsed::Execute { result_metadata_id, params, .. })) = (mid, next)
                && (result_metadata_id.as_deref() != Some(&mid[..]) || !params.skip_metadata)
            {
                self.fail(format!("re-preparation announced result metadata id {} with columns, but the re-sent EXECUTE presents {} skip={}", ascii(mid), show_opt_id(result_metadata_id), params.skip_metadata));
            }
        }
        if let Answer::Rows { no_meta: false, new_id: Some(_), cols, .. } = answer
            && ext
            && !self.target_byz
        {
            // after a METADATA_CHANGED response the statement's current columns are the announced ones
            if after != cols_of_mk(cols) {
                self.fail(format!("METADATA_CHANGED announced [{}] but the statement's current columns are [{}]", show_cols_mk(cols), show_cols(&after)));
            }
        }
    }

    // ---- schedule steps ------------------------------------------------------------------------

    /// after the caller's task was started or a response delivered: next frame or completion
    async fn settle(&mut self, k: usize, out: &mut Vec<String>, delivered: Option<Answer>) {
        let (handle, before) = match &delivered {
            Some(a) => self.before_delivery(k, a),
            None => (None, vec![]),
        };
        if let Some(a) = &delivered {
            let CState::Resp { node, conn, stream, .. } = &self.callers[k].state else { unreachable!() };
            let (opcode, body) = encode(a);
            let w = self.net.nets[self.lid[*node]].writers.lock().unwrap()[*conn].clone();
            let _ = w.send(mk::frame(*stream, opcode, &body));
        }
        let got = self.wait(k).await;
        let suffix = |h: &Option<PreparedStatement>| h.as_ref().map(|h| format!(" c={}", show_cols(&cur_cols(h)))).unwrap_or_default();
        match got {
            Got::Frame { node, conn, stream, parsed } => {
                self.check_frame(k, node, &parsed);
                if let (Some(a), Some(h)) = (&delivered, &handle) {
                    self.after_delivery(k, a, h, &before, Some(&parsed));
                }
                out.push(format!("{}{}", show_req(node, &parsed), suffix(&handle)));
                let (latest, latest_src) = match self.callers[k].op.as_ref().map(|o| &o.kind) {
                    Some(OpKind::Exec(e)) => (self.objs[e.obj].latest.clone(), self.objs[e.obj].latest_src),
                    _ => (vec![], usize::MAX),
                };
                if let Some(op) = self.callers[k].op.as_mut() {
                    op.frames.push(parsed.clone());
                    op.latest_at_build.push(latest);
                    op.latest_src_at_build.push(latest_src);
                }
                self.callers[k].state = CState::Req { node, conn, stream, parsed };
            }
            Got::Done(o) => {
                self.check_outcome(k, &o);
                if let (Some(a), Some(h)) = (&delivered, &handle) {
                    self.after_delivery(k, a, h, &before, None);
                }
                out.push(format!("{}{}", show_out(&o), suffix(&handle)));
                if let (Out::Prepared(ps), Some(OpRec { kind: OpKind::Fresh { slot }, .. })) = (o, self.callers[k].op.as_ref()) {
                    let obj = self.objs.len();
                    let byz = matches!(self.callers[k].op.as_ref().and_then(|o| o.answers.last()), Some(Answer::Prepared { no_meta: true, col_count, .. }) if *col_count > 0);
                    let src = self.callers[k].op.as_ref().map(|o| o.node).unwrap_or(usize::MAX);
                    let tv = self.srv.get(src).and_then(|n| n.st.get(*slot)).map(|s| s.tv).unwrap_or(0);
                    self.objs.push(ObjInfo { latest: cur_cols(&ps), announced: vec![cur_cols(&ps)], latest_src: src, text_given: text_v(*slot, tv), stmt_no: *slot, byz, expect_mid: None });
                    self.slots[*slot] = Some((obj, *ps));
                }
                self.callers[k].op = None;
                self.callers[k].state = CState::Idle;
            }
            Got::Hang => {
                out.push("HANG".to_owned());
                self.fail(format!("caller {} neither sent a frame nor finished within 60 s", k));
                self.callers[k].op = None;
                self.callers[k].state = CState::Idle;
            }
        }
    }

    fn serve(&mut self, k: usize, out: &mut Vec<String>) {
        let CState::Req { node, conn, stream, parsed } = &self.callers[k].state else {
            out.push("-".to_owned());
            return;
        };
        let (node, conn, stream) = (*node, *conn, *stream);
        let answer = self.srv[node].answer(parsed);
        out.push(show_answer(&answer));
        if let Some(op) = self.callers[k].op.as_mut() {
            op.answers.push(answer.clone());
        }
        self.callers[k].state = CState::Resp { node, conn, stream, answer };
    }

    async fn recv(&mut self, k: usize, out: &mut Vec<String>) {
        let CState::Resp { answer, .. } = &self.callers[k].state else {
            out.push("-".to_owned());
            return;
        };
        let a = answer.clone();
        self.settle(k, out, Some(a)).await;
    }

    async fn complete(&mut self, k: usize, out: &mut Vec<String>) {
        if matches!(self.callers[k].state, CState::Idle) {
            out.push("-".to_owned());
            return;
        }
        for _ in 0..40 {
            match self.callers[k].state {
                CState::Idle => return,
                CState::Req { .. } => self.serve(k, out),
                CState::Resp { .. } => self.recv(k, out).await,
            }
        }
        if !matches!(self.callers[k].state, CState::Idle) {
            out.push("FUEL".to_owned());
        }
    }
}

fn consistency(cl: u16) -> Option<Consistency> {
    Consistency::try_from(cl).ok()
}

fn parse_opt<T: std::str::FromStr>(s: &str) -> Result<Option<T>, ()> {
    if s == "-" { Ok(None) } else { s.parse::<T>().map(Some).map_err(|_| ()) }
}

fn tag(s: &str) -> Option<(char, usize)> {
    let c = s.chars().next()?;
    Some((c, s[c.len_utf8()..].parse().ok()?))
}

async fn run_case(case: &str, ctx: &mut Ctx, net: &mut Net, clean: &mut bool) -> String {
    let w: Vec<&str> = case.split_whitespace().collect();
    if w.len() != 4 || w[0] != "hist" {
        return "bad-case".to_owned();
    }
    let mut stmts = Vec::new();
    for s in w[2].split(',') {
        let cs: Vec<char> = s.chars().collect();
        if !((cs.len() == 2 || (cs.len() == 4 && cs[2] == 't' && ('0'..='7').contains(&cs[3]))) && cs[1].is_ascii_digit()) {
            return "bad-case".to_owned();
        }
        let tv = if cs.len() == 4 { cs[3] as u8 - b'0' } else { 0 };
        let kind = match cs[0] {
            'n' => Kind::Normal,
            'l' => Kind::Late,
            'z' => Kind::Late0,
            _ => return "bad-case".to_owned(),
        };
        stmts.push(SrvStmt { idv: 0, shape: cs[1] as u8 - b'0', kind, prep_fail: false, tv });
    }
    while net.ev_rx.try_recv().is_ok() {}
    let mut lid = Vec::new();
    let mut srv = Vec::new();
    let mut used = [0usize; 2];
    net.ts_ctr.store(0, std::sync::atomic::Ordering::SeqCst);
    for n in w[1].split(',') {
        let (ext, gen_ts) = match n {
            "E" => (true, false),
            "N" => (false, false),
            "G" => (true, true),
            "H" => (false, true),
            _ => return "bad-case".to_owned(),
        };
        if used[ext as usize] >= SLOTS {
            return "bad-case".to_owned();
        }
        lid.push(ext as usize * SLOTS + used[ext as usize]);
        used[ext as usize] += 1;
        srv.push(NodeState { ext, gen_ts, prepared: vec![], st: stmts.clone(), liar: false, ov: None });
    }
    let n_nodes = lid.len();
    let n_stmts = stmts.len();
    let mut world = World {
        net,
        lid,
        srv,
        slots: (0..n_stmts).map(|_| None).collect(),
        objs: Vec::new(),
        callers: (0..4).map(|_| Caller { state: CState::Idle, op: None }).collect(),
        fails: Vec::new(),
        hang: false,
        target_byz: false,
    };
    let mut out: Vec<String> = Vec::new();
    let steps: Vec<&str> = w[3].split(';').filter(|s| !s.is_empty()).collect();
    for (idx, step) in steps.iter().enumerate() {
        let parts: Vec<&str> = step.split('.').collect();
        let Some((c, k)) = tag(parts[0]) else { return "bad-case".to_owned() };
        let args = &parts[1..];
        if c == 'E' {
            if k >= n_nodes {
                return "bad-case".to_owned();
            }
        } else if k >= 4 {
            return "bad-case".to_owned();
        }
        let num = |s: &str| s.parse::<usize>().map_err(|_| ());
        let bool01 = |s: &str| match s {
            "0" => Ok(false),
            "1" => Ok(true),
            _ => Err(()),
        };
        let r: Result<(), ()> = async {
            match (c, args) {
                ('N', [s, n]) => {
                    let (s, n) = (num(s)?, num(n)?);
                    if s >= n_stmts || n >= n_nodes {
                        return Err(());
                    }
                    if !matches!(world.callers[k].state, CState::Idle) {
                        out.push("-".to_owned());
                        return Ok(());
                    }
                    let conn = world.conn_for(k, n).await.map_err(|_| ())?;
                    let tx = world.net.ev_tx.clone();
                    let text = text_v(s, stmts[s].tv);
                    tokio::spawn(async move {
                        let o = match conn.prepare(&Statement::new(text)).await {
                            Ok(ps) => Out::Prepared(Box::new(ps)),
                            Err(l) => Out::Err(l),
                        };
                        let _ = tx.send(Ev::Done { caller: k, out: o });
                    });
                    world.callers[k].op = Some(OpRec { kind: OpKind::Fresh { slot: s }, node: n, frames: vec![], answers: vec![], latest_at_build: vec![], latest_src_at_build: vec![] });
                    world.settle(k, &mut out, None).await;
                }
                ('A', ["x", s, n, u, cl, scl, ts, pg, ps, nv]) => {
                    let (s, n, u, cl, nv) = (num(s)?, num(n)?, bool01(u)?, num(cl)? as u16, num(nv)?);
                    let scl: Option<u16> = parse_opt(scl)?;
                    let serial = match scl {
                        None => None,
                        Some(8) => Some(SerialConsistency::Serial),
                        Some(9) => Some(SerialConsistency::LocalSerial),
                        _ => return Err(()),
                    };
                    if nv > 4 {
                        return Err(());
                    }
                    let ts: Option<i64> = parse_opt(ts)?;
                    let pg: Option<i32> = parse_opt(pg)?;
                    let ps: Option<Vec<u8>> = if *ps == "-" { None } else { Some(ps.as_bytes().to_vec()) };
                    let cons = consistency(cl).ok_or(())?;
                    if s >= n_stmts || n >= n_nodes || pg.is_some_and(|p| p <= 0) {
                        return Err(());
                    }
                    if !matches!(world.callers[k].state, CState::Idle) {
                        out.push("-".to_owned());
                        return Ok(());
                    }
                    let Some((obj, base)) = world.slots[s].as_ref().map(|(o, p)| (*o, p.clone())) else {
                        out.push("-".to_owned());
                        return Ok(());
                    };
                    let mut handle = base;
                    handle.set_use_cached_result_metadata(u);
                    handle.set_consistency(cons);
                    handle.set_timestamp(ts);
                    handle.set_serial_consistency(serial);
                    let vals: Vec<i32> = (0..nv).map(|j| (10 * idx + j) as i32).collect();
                    let mut values = SerializedValues::new();
                    for v in &vals {
                        values.add_value(v, &ColumnType::Native(NativeType::Int)).map_err(|_| ())?;
                    }
                    let conn = world.conn_for(k, n).await.map_err(|_| ())?;
                    let tx = world.net.ev_tx.clone();
                    let h2 = handle.clone();
                    let paging = match &ps {
                        None => PagingState::start(),
                        Some(b) => PagingState::new_from_raw_bytes(b.clone()),
                    };
                    tokio::spawn(async move {
                        let o = to_out(conn.execute(&h2, &values, pg, paging).await);
                        let _ = tx.send(Ev::Done { caller: k, out: o });
                    });
                    world.callers[k].op = Some(OpRec { kind: OpKind::Exec(Box::new(ExecInfo { obj, handle, values: vals, cl, scl, ts, pg, ps })), node: n, frames: vec![], answers: vec![], latest_at_build: vec![], latest_src_at_build: vec![] });
                    world.settle(k, &mut out, None).await;
                }
                ('A', ["b", n, cl, scl, ts, items]) => {
                    let (n, cl) = (num(n)?, num(cl)? as u16);
                    let scl: Option<u16> = parse_opt(scl)?;
                    let serial = match scl {
                        None => None,
                        Some(8) => Some(SerialConsistency::Serial),
                        Some(9) => Some(SerialConsistency::LocalSerial),
                        _ => return Err(()),
                    };
                    let ts: Option<i64> = parse_opt(ts)?;
                    let cons = consistency(cl).ok_or(())?;
                    let its: Vec<usize> = if *items == "-" { vec![] } else { items.split(',').map(num).collect::<Result<_, _>>()? };
                    if n >= n_nodes || its.iter().any(|s| *s >= n_stmts) {
                        return Err(());
                    }
                    if !matches!(world.callers[k].state, CState::Idle) {
                        out.push("-".to_owned());
                        return Ok(());
                    }
                    let mut resolved = Vec::new();
                    for (j, s) in its.iter().enumerate() {
                        match &world.slots[*s] {
                            Some((o, p)) => resolved.push((*o, p.clone(), (10 * idx + j) as i32)),
                            None => {
                                out.push("-".to_owned());
                                return Ok(());
                            }
                        }
                    }
                    let mut batch = Batch::new(BatchType::Logged);
                    for (_, p, _) in &resolved {
                        batch.append_statement(p.clone());
                    }
                    batch.set_consistency(cons);
                    batch.set_timestamp(ts);
                    batch.set_serial_consistency(serial);
                    let vals: Vec<(i32,)> = resolved.iter().map(|(_, _, v)| (*v,)).collect();
                    let conn = world.conn_for(k, n).await.map_err(|_| ())?;
                    let tx = world.net.ev_tx.clone();
                    tokio::spawn(async move {
                        let o = match conn.batch(&batch, vals).await {
                            Ok(()) => Out::Void,
                            Err(l) => Out::Err(l),
                        };
                        let _ = tx.send(Ev::Done { caller: k, out: o });
                    });
                    world.callers[k].op = Some(OpRec { kind: OpKind::Batch { items: resolved, cl, scl, ts }, node: n, frames: vec![], answers: vec![], latest_at_build: vec![], latest_src_at_build: vec![] });
                    world.settle(k, &mut out, None).await;
                }
                ('S', []) => world.serve(k, &mut out),
                ('R', []) => world.recv(k, &mut out).await,
                ('C', []) => world.complete(k, &mut out).await,
                ('E', ["ev", s]) => {
                    let s = num(s)?;
                    world.srv[k].prepared.retain(|(_, x)| *x != s);
                    out.push("e".to_owned());
                }
                ('E', ["sc", s, sh]) => {
                    let (s, sh) = (num(s)?, num(sh)?);
                    if let Some(x) = world.srv[k].st.get_mut(s) {
                        x.shape = if sh <= 5 { sh as u8 } else { 0 };
                    }
                    out.push("e".to_owned());
                }
                ('E', ["ic", s]) => {
                    let s = num(s)?;
                    if let Some(x) = world.srv[k].st.get_mut(s) {
                        x.idv += 1;
                    }
                    out.push("e".to_owned());
                }
                ('E', ["pf", s, on]) => {
                    let (s, on) = (num(s)?, bool01(on)?);
                    if let Some(x) = world.srv[k].st.get_mut(s) {
                        x.prep_fail = on;
                    }
                    out.push("e".to_owned());
                }
                ('E', ["ov", o]) => {
                    world.srv[k].ov = Some(match *o {
                        "pv" => Ov::PrepVoid,
                        "pc" => Ov::PrepCount,
                        "er" => Ov::ExecError,
                        "vo" => Ov::ExecVoid,
                        "mc" => Ov::Malformed,
                        "fm" => Ov::ForceMeta,
                        "fn" => Ov::ForceNoMeta,
                        _ => return Err(()),
                    });
                    out.push("e".to_owned());
                }
                ('E', ["li", on]) => {
                    world.srv[k].liar = bool01(on)?;
                    out.push("e".to_owned());
                }
                _ => return Err(()),
            }
            Ok(())
        }
        .await;
        if r.is_err() {
            return "bad-case".to_owned();
        }
        if world.hang {
            break;
        }
    }
    let end_cols: Vec<Option<Vec<(String, String)>>> = world.slots.iter().map(|s| s.as_ref().map(|(_, p)| cur_cols(p))).collect();
    // let unfinished operations run to their end so that the connections can serve the next case
    if !world.hang {
        let mut scratch = Vec::new();
        for k in 0..4 {
            if !matches!(world.callers[k].state, CState::Idle) {
                world.complete(k, &mut scratch).await;
            }
        }
        *clean = !world.hang && world.callers.iter().all(|c| matches!(c.state, CState::Idle)) && !scratch.iter().any(|s| s.contains("Broken"));
    }
    let dump: Vec<String> = (0..n_stmts)
        .map(|s| match &end_cols[s] {
            None => format!("q{}=none", s),
            Some(c) => format!("q{}={}", s, show_cols(c)),
        })
        .collect();
    out.push(format!("end {}", dump.join(" ")));
    for f in world.fails.drain(..) {
        ctx.fail(f);
    }
    out.join(" ; ")
}

struct Infra {
    rt: tokio::runtime::Runtime,
    net: Net,
}

thread_local! {
    static INFRA: std::cell::RefCell<Option<Infra>> = const { std::cell::RefCell::new(None) };
}

fn new_infra() -> Infra {
    let rt = tokio::runtime::Builder::new_current_thread().enable_all().build().expect("tokio runtime");
    let (ev_tx, ev_rx) = unbounded_channel();
    let nets = rt.block_on(async {
        let mut nets = Vec::new();
        for l in 0..2 * SLOTS {
            nets.push(start_node(l, l >= SLOTS, ev_tx.clone()).await);
        }
        nets
    });
    Infra { rt, net: Net { nets, conns: HashMap::new(), ts_ctr: Arc::new(std::sync::atomic::AtomicI64::new(0)), owners: vec![Vec::new(); 2 * SLOTS], ev_tx, ev_rx } }
}

pub fn run(case: &str, ctx: &mut Ctx) -> String {
    if case.starts_with("pb ") || case.starts_with("cs ") || case.starts_with("cm ") {
        return crate::c14s::run(case, ctx);
    }
    // taken out of the thread-local for the duration of the case: a panic or an unclean end drops it
    let mut infra = INFRA.with(|i| i.borrow_mut().take()).unwrap_or_else(new_infra);
    let mut clean = false;
    let s = infra.rt.block_on(run_case(case, ctx, &mut infra.net, &mut clean));
    if clean && !s.contains("Broken") {
        INFRA.with(|i| *i.borrow_mut() = Some(infra));
    } else {
        infra.rt.shutdown_background();
    }
    s
}

// ---------------------------------------------------------------------------------------------
// generators
// ---------------------------------------------------------------------------------------------

/// macro symbols of the exhaustive sequential sweep (one caller, one statement, one node)
fn symbol(sym: usize, u: u8, a: u8, b: u8) -> String {
    match sym {
        0 => format!("A0.x.0.0.{}.6.-.-.-.-.1;C0", u),
        1 => format!("A0.x.0.0.{}.1.8.9.1.p1.2;C0", u),
        2 => "A0.b.0.4.9.3.0;C0".to_owned(),
        3 => "N0.0.0;C0".to_owned(),
        4 => "E0.ev.0".to_owned(),
        5 => format!("E0.sc.0.{}", a),
        6 => format!("E0.sc.0.{}", b),
        _ => "E0.ic.0".to_owned(),
    }
}

const CONFIGS: [(&str, u8, u8); 5] = [("n1", 3, 2), ("n3", 4, 1), ("l3", 1, 4), ("z3", 5, 0), ("n0", 1, 3)];

fn event_word(rng: &mut Rng, node: usize, n_stmts: usize) -> String {
    let s = rng.below(n_stmts as u64);
    match rng.below(44) {
        0..=15 => format!("E{}.ev.{}", node, s),
        16..=33 => format!("E{}.sc.{}.{}", node, s, rng.below(6)),
        34 => format!("E{}.ic.{}", node, s),
        35..=36 => format!("E{}.pf.{}.{}", node, s, if rng.chance(1, 3) { 1 } else { 0 }),
        37..=38 => format!("E{}.li.{}", node, if rng.chance(1, 3) { 1 } else { 0 }),
        39..=42 => format!("E{}.ov.{}", node, rng.pick(&["pv", "pc", "er", "vo", "mc", "fm", "fn"])),
        _ => format!("E{}.ev.{}", node, s),
    }
}

fn scl_word(rng: &mut Rng) -> &'static str {
    match rng.below(4) {
        0 => "8",
        1 => "9",
        _ => "-",
    }
}

fn exec_word(rng: &mut Rng, k: usize, n_stmts: usize, n_nodes: usize) -> String {
    let cl = *rng.pick(&[1u16, 4, 6]);
    let ts = if rng.chance(1, 3) { rng.below(1000).to_string() } else { "-".to_owned() };
    let (pg, ps) = match rng.below(4) {
        0 => ("1".to_owned(), "-".to_owned()),
        1 => ("2".to_owned(), format!("p{}", 1 + rng.below(2))),
        _ => ("-".to_owned(), "-".to_owned()),
    };
    let nv = *rng.pick(&[1u8, 1, 1, 0, 2, 3, 4]);
    format!("A{}.x.{}.{}.{}.{}.{}.{}.{}.{}.{}", k, rng.below(n_stmts as u64), rng.below(n_nodes as u64), rng.below(2), cl, scl_word(rng), ts, pg, ps, nv)
}

fn batch_word(rng: &mut Rng, k: usize, n_stmts: usize, n_nodes: usize) -> String {
    let n = 1 + rng.below(3) as usize;
    let items: Vec<String> = (0..n).map(|_| rng.below(n_stmts as u64).to_string()).collect();
    let ts = if rng.chance(1, 3) { rng.below(1000).to_string() } else { "-".to_owned() };
    format!("A{}.b.{}.{}.{}.{}.{}", k, rng.below(n_nodes as u64), rng.pick(&[1u16, 4, 6]), scl_word(rng), ts, items.join(","))
}

/// random history: per-caller scripts (start, then node/caller steps, then `C`) merged in random order with
/// node events in between
fn random_history(rng: &mut Rng, max_len: usize) -> String {
    let n_nodes = 1 + rng.below(3) as usize;
    let n_stmts = 1 + rng.below(3) as usize;
    let n_callers = 1 + rng.below(3) as usize;
    let nodes: Vec<&str> = (0..n_nodes)
        .map(|_| match rng.below(9) {
            0..=3 => "E",
            4..=5 => "G",
            6..=7 => "N",
            _ => "H",
        })
        .collect();
    let kinds = ["n1", "n3", "n2", "l3", "z3", "n0", "l1", "z4", "n5"];
    let stmts: Vec<String> = (0..n_stmts).map(|_| format!("{}t{}", rng.pick(&kinds), rng.below(8))).collect();
    let mut steps: Vec<String> = Vec::new();
    // every statement is prepared somewhere first (sometimes on a node without the extension)
    for s in 0..n_stmts {
        steps.push(format!("N0.{}.{};C0", s, rng.below(n_nodes as u64)));
    }
    // per-caller queues of pending fine-grained steps
    let mut queues: Vec<Vec<String>> = vec![Vec::new(); n_callers];
    while steps.len() < max_len {
        match rng.below(10) {
            0..=2 => {
                let n = rng.below(n_nodes as u64) as usize;
                steps.push(event_word(rng, n, n_stmts))
            }
            _ => {
                let k = rng.below(n_callers as u64) as usize;
                if queues[k].is_empty() {
                    let first = match rng.below(10) {
                        0 => format!("N{}.{}.{}", k, rng.below(n_stmts as u64), rng.below(n_nodes as u64)),
                        1..=2 => batch_word(rng, k, n_stmts, n_nodes),
                        _ => exec_word(rng, k, n_stmts, n_nodes),
                    };
                    let mut q = vec![first];
                    if rng.chance(1, 3) {
                        q.push(format!("C{}", k));
                    } else {
                        for _ in 0..rng.below(4) {
                            q.push(format!("S{}", k));
                            q.push(format!("R{}", k));
                        }
                        q.push(format!("C{}", k));
                    }
                    q.reverse();
                    queues[k] = q;
                }
                steps.push(queues[k].pop().unwrap());
            }
        }
    }
    for (k, q) in queues.iter().enumerate() {
        if !q.is_empty() {
            steps.push(format!("C{}", k));
        }
    }
    format!("hist {} {} {}", nodes.join(","), stmts.join(","), steps.join(";"))
}

/// all interleavings of two step sequences (order within each preserved)
fn interleavings(a: &[String], b: &[String], acc: &mut Vec<String>, out: &mut Vec<Vec<String>>) {
    if a.is_empty() && b.is_empty() {
        out.push(acc.clone());
        return;
    }
    if let Some((h, t)) = a.split_first() {
        acc.push(h.clone());
        interleavings(t, b, acc, out);
        acc.pop();
    }
    if let Some((h, t)) = b.split_first() {
        acc.push(h.clone());
        interleavings(a, t, acc, out);
        acc.pop();
    }
}

pub fn generate(rng: &mut Rng, tier: Tier, emit: &mut dyn FnMut(String)) {
    let quick = tier == Tier::Quick;
    // 1. exhaustive sequential histories: PREPARE, then every word over the 8 macro symbols up to the bound that
    //    ends in an operation (a trailing event is not observed)
    for ext in ["E", "N", "G", "H"] {
        for u in 0..2u8 {
            for (ci, (stmt, a, b)) in CONFIGS.into_iter().enumerate() {
                // every word of length <= 5 (generator nodes: <= 4); thorough: also length 6 for the plain statement
                let with_gen = ext == "G" || ext == "H";
                let max_len = if with_gen { if quick { 3 } else { 4 } } else if !quick && ci == 0 { 6 } else { 5 };
                for len in 1..=max_len {
                    let total = 8usize.pow(len as u32);
                    for code in 0..total {
                        let mut c = code;
                        let syms: Vec<usize> = (0..len).map(|_| { let s = c % 8; c /= 8; s }).collect();
                        if *syms.last().unwrap() >= 4 {
                            continue;
                        }
                        let words: Vec<String> = syms.iter().map(|s| symbol(*s, u, a, b)).collect();
                        // the statement text in all 8 spellings for the short words, rotating for the long ones
                        let tvs: Vec<usize> = if len <= 2 { (0..8).collect() } else { vec![(code + len + ci) % 8] };
                        for tv in tvs {
                            emit(format!("hist {} {}t{} N0.0.0;C0;{}", ext, stmt, tv, words.join(";")));
                        }
                    }
                }
            }
        }
    }
    // 2. node events INSIDE one operation: before the node sees the first request, between UNPREPARED and the
    //    re-preparation, between the re-preparation and the re-sent request (incl. the byzantine one-shot answers)
    let inner = ["", "E0.ev.0", "E0.sc.0.A", "E0.ic.0", "E0.pf.0.1", "E0.li.1", "E0.ov.pv", "E0.ov.pc", "E0.ov.er", "E0.ov.vo", "E0.ov.mc", "E0.ov.fm", "E0.ov.fn"];
    for ext in ["E", "N", "G"] {
        for u in 0..2u8 {
            for (stmt, a, _) in CONFIGS {
                for op in [format!("A0.x.0.0.{}.4.9.11.1.p2.2", u), "A0.b.0.1.8.-.0,0".to_owned()] {
                    for warm in [true, false] {
                        for e0 in inner {
                            for e1 in inner {
                                for e2 in inner {
                                    // quick tier: at most two of the three slots carry a byzantine answer
                                    let byz = [e0, e1, e2].iter().filter(|e| e.contains(".ov.")).count();
                                    if byz > if quick { 1 } else { 2 } || (ext == "G" && byz > 0) {
                                        continue;
                                    }
                                    let mut steps = vec!["N0.0.0;C0".to_owned()];
                                    if warm {
                                        steps.push(format!("A0.x.0.0.{}.6.-.-.-.-.1;C0", u));
                                    }
                                    steps.push("E0.ev.0".to_owned());
                                    steps.push(op.clone());
                                    for (e, tail) in [(e0, "S0;R0"), (e1, "S0;R0"), (e2, "S0;R0;C0")] {
                                        if !e.is_empty() {
                                            steps.push(e.replace('A', &a.to_string()));
                                        }
                                        steps.push(tail.to_owned());
                                    }
                                    steps.push(format!("A0.x.0.0.{}.6.-.-.-.-.1;C0", u));
                                    let tv = (e0.len() + 3 * e1.len() + 5 * e2.len() + warm as usize) % 8;
                                    emit(format!("hist {} {}t{} {}", ext, stmt, tv, steps.join(";")));
                                }
                            }
                        }
                    }
                }
            }
        }
    }
    // 3. two nodes, two statements, sequential: every word of length <= 4 over executions of either statement on
    //    either node, batches on either node, eviction / schema change of statement 0 on either node
    for nodes in ["E,E", "E,N", "N,E", "N,N"] {
        for u in 0..2u8 {
            let alphabet: Vec<String> = vec![
                format!("A0.x.0.0.{}.6.-.-.-.-.1;C0", u),
                format!("A0.x.0.1.{}.6.-.-.-.-.1;C0", u),
                format!("A0.x.1.0.{}.6.-.-.-.-.1;C0", u),
                format!("A0.x.1.1.{}.6.-.-.-.-.1;C0", u),
                "A0.b.0.6.-.-.0,1;C0".to_owned(),
                "A0.b.1.6.-.-.1,0;C0".to_owned(),
                "E0.ev.0".to_owned(),
                "E1.ev.0".to_owned(),
                "E0.sc.0.3".to_owned(),
                "E1.sc.0.3".to_owned(),
            ];
            let max_len = if quick { 4 } else { 5 };
            for len in 1..=max_len {
                let total = alphabet.len().pow(len as u32);
                for code in 0..total {
                    let mut c = code;
                    let syms: Vec<usize> = (0..len).map(|_| { let s = c % alphabet.len(); c /= alphabet.len(); s }).collect();
                    if *syms.last().unwrap() >= 6 {
                        continue;
                    }
                    let words: Vec<&str> = syms.iter().map(|s| alphabet[*s].as_str()).collect();
                    emit(format!("hist {} n1t{},z3t{} N0.0.0;C0;N0.1.1;C0;{}", nodes, code % 8, (code / 8 + len) % 8, words.join(";")));
                }
            }
        }
    }
    // 4. two concurrent callers sharing the statement objects: every interleaving of their first steps
    //    (start, node answers, response delivered, rest) with one node event at every position
    let ops = |k: usize, u: u8| -> Vec<Vec<String>> {
        [format!("A{}.x.0.0.{}.6.-.-.-.-.1", k, u), format!("A{}.x.0.1.{}.6.-.-.-.-.1", k, u), format!("A{}.b.{}.6.-.-.0,1", k, k)]
            .into_iter()
            .map(|a| vec![a, format!("S{}", k), format!("R{}", k), format!("C{}", k)])
            .collect()
    };
    let events = ["", "E0.ev.0", "E1.ev.0", "E0.sc.0.3;E1.sc.0.3", "E0.sc.0.3", "E1.sc.0.3"];
    for nodes in ["E,E", "E,N", "N,N"] {
        for u in 0..2u8 {
            for a in ops(0, u) {
                for b in ops(1, u) {
                    let mut all = Vec::new();
                    interleavings(&a, &b, &mut Vec::new(), &mut all);
                    for (ii, il) in all.iter().enumerate() {
                        for (ei, ev) in events.iter().enumerate() {
                            for pos in 0..=il.len() {
                                // quick tier: a third of the (interleaving, event, position) grid
                                if quick && (ii + ei + pos) % 3 != 0 {
                                    continue;
                                }
                                if ev.is_empty() && pos > 0 {
                                    continue;
                                }
                                let mut steps: Vec<String> = vec!["N0.0.0;C0;N0.1.1;C0;A0.x.0.0.0.6.-.-.-.-.1;C0".to_owned()];
                                steps.extend(il[..pos].iter().cloned());
                                if !ev.is_empty() {
                                    steps.push((*ev).to_owned());
                                }
                                steps.extend(il[pos..].iter().cloned());
                                steps.push(format!("A0.x.0.0.{}.6.-.-.-.-.1;C0;A1.x.0.1.{}.6.-.-.-.-.1;C1", u, u));
                                emit(format!("hist {} n1t{},n3t{} {}", nodes, (ii + pos) % 8, (ii + ei) % 8, steps.join(";")));
                            }
                        }
                    }
                }
            }
        }
    }
    // 5. random histories: 1-3 nodes (mixed extension support, with/without timestamp generator), 1-3 statements,
    //    1-3 concurrent callers
    // 6. the layers above one connection: Connection::prepare_batch, CachingSession, Session::prepare (c14s.rs)
    crate::c14s::generate(rng, tier, emit);
    let n_random = if quick { 8_000 } else { 150_000 };
    for i in 0..n_random {
        let max = if i % 3 == 0 { 12 } else { 30 };
        emit(random_history(rng, max));
    }
}

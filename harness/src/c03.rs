//! C03 — routing token equals the server-side partitioner's token for the bound key.
//!
//! Real code driven: `Murmur3Partitioner` / `CDCPartitioner` streaming hashers (`write` per chunk, `finish`,
//! `hash_one`), `deser_prepared_metadata` through `result::deserialize_with_features` on a forged PREPARED body,
//! `PreparedStatement::{get_variable_pk_indexes, calculate_token, compute_partition_key}` on the statement built from
//! that response (hook `verif_hooks::prepared::statement_from_prepared`), `calculate_token_for_partition_key`.
//!
//! Model-independent oracles (server comparisons only on the server's domain: non-empty Murmur3 keys, 16-byte CDC
//! keys): chunked == one-shot; token != i64::MIN (Murmur3); token == an independent
//! transliteration of Cassandra's `MurmurHash.hash3_x64_128` (`reference_murmur3`) over the key encoded as the
//! property states it (components taken in partition-key order by `wire[seq]`); the real-cluster vectors.
use crate::rng::Rng;
use crate::util::{hex, nat_list, unhex};
use crate::{Ctx, Tier};
use bytes::Bytes;
use scylla::frame::protocol_features::ProtocolFeatures;
use scylla::routing::partitioner::{CDCPartitioner, Murmur3Partitioner, Partitioner, PartitionerHasher};
use scylla_cql_core::serialize::row::SerializedValues;
use scylla::statement::prepared::{PartitionKeyError, PartitionKeyExtractionError, TokenCalculationError};
use scylla::value::MaybeUnset;
use scylla::verif_hooks::prepared as hooks;
use scylla_cql::frame::response::result::{self, ColumnType, NativeType};
use std::panic::{AssertUnwindSafe, catch_unwind};

// ------------------------------------------------------------------------------------------------
// independent reference (oracle): Cassandra's MurmurHash.hash3_x64_128, seed 0, first word, + token normalisation
// ------------------------------------------------------------------------------------------------

fn ref_fmix(mut k: u64) -> u64 {
    k ^= k >> 33;
    k = k.wrapping_mul(0xff51afd7ed558ccd);
    k ^= k >> 33;
    k = k.wrapping_mul(0xc4ceb9fe1a85ec53);
    k ^= k >> 33;
    k
}

pub fn reference_murmur3(key: &[u8]) -> i64 {
    const C1: u64 = 0x87c37b91114253d5;
    const C2: u64 = 0x4cf5ad432745937f;
    let length = key.len();
    let nblocks = length >> 4;
    let (mut h1, mut h2) = (0u64, 0u64);
    for i in 0..nblocks {
        let mut k1 = u64::from_le_bytes(key[16 * i..16 * i + 8].try_into().unwrap());
        let mut k2 = u64::from_le_bytes(key[16 * i + 8..16 * i + 16].try_into().unwrap());
        k1 = k1.wrapping_mul(C1).rotate_left(31).wrapping_mul(C2);
        h1 ^= k1;
        h1 = h1.rotate_left(27).wrapping_add(h2).wrapping_mul(5).wrapping_add(0x52dce729);
        k2 = k2.wrapping_mul(C2).rotate_left(33).wrapping_mul(C1);
        h2 ^= k2;
        h2 = h2.rotate_left(31).wrapping_add(h1).wrapping_mul(5).wrapping_add(0x38495ab5);
    }
    let tail = &key[nblocks * 16..];
    let (mut k1, mut k2) = (0u64, 0u64);
    // `(long) key.get(i)`: Java bytes are signed
    let sb = |i: usize| tail[i] as i8 as i64 as u64;
    let rem = length & 15;
    if rem >= 9 {
        for i in (8..rem).rev() {
            k2 ^= sb(i) << ((i - 8) * 8);
        }
        k2 = k2.wrapping_mul(C2).rotate_left(33).wrapping_mul(C1);
        h2 ^= k2;
    }
    if rem >= 1 {
        for i in (0..rem.min(8)).rev() {
            k1 ^= sb(i) << (i * 8);
        }
        k1 = k1.wrapping_mul(C1).rotate_left(31).wrapping_mul(C2);
        h1 ^= k1;
    }
    h1 ^= length as u64;
    h2 ^= length as u64;
    h1 = h1.wrapping_add(h2);
    h2 = h2.wrapping_add(h1);
    h1 = ref_fmix(h1);
    h2 = ref_fmix(h2);
    h1 = h1.wrapping_add(h2);
    let t = h1 as i64;
    if t == i64::MIN { i64::MAX } else { t }
}

/// The server's Murmur3 token: `Murmur3Partitioner.getToken` answers the MINIMUM token for an empty key (which no
/// real table accepts: "Key may not be empty"), so the empty key is outside the domain (`None`).
fn server_murmur3_token(key: &[u8]) -> Option<i64> {
    if key.is_empty() { None } else { Some(reference_murmur3(key)) }
}

/// The server's CDC rule (ScyllaDB `cdc_partitioner::get_token`): minimum token unless the key is exactly 16 bytes,
/// else the first 8 bytes as a big-endian i64 (normalised). The driver is only claimed to agree on the domain
/// (16-byte stream ids) and on keys shorter than 8 bytes; `None` = lengths on which the driver is known to differ.
pub(crate) fn server_cdc_token(key: &[u8]) -> Option<i64> {
    if key.len() == 16 {
        let t = i64::from_be_bytes(key[..8].try_into().unwrap());
        Some(if t == i64::MIN { i64::MAX } else { t })
    } else if key.len() < 8 {
        Some(i64::MIN)
    } else {
        None
    }
}

fn server_token(cdc: bool, key: &[u8]) -> Option<i64> {
    if cdc { server_cdc_token(key) } else { server_murmur3_token(key) }
}

/// The partition key as the property states it (components already in partition-key order).
fn reference_encode(comps: &[&[u8]]) -> Vec<u8> {
    if comps.len() == 1 {
        return comps[0].to_vec();
    }
    let mut out = Vec::new();
    for c in comps {
        out.extend_from_slice(&(c.len() as u16).to_be_bytes());
        out.extend_from_slice(c);
        out.push(0);
    }
    out
}

// ------------------------------------------------------------------------------------------------
// case syntax
// ------------------------------------------------------------------------------------------------

#[derive(Clone, Debug)]
enum Val {
    Null,
    Unset,
    Bytes(Vec<u8>),
}


// ---------------------------------------------------------------------------------------------
// Murmur3 preimages: keys whose raw token is a chosen value (in particular i64::MIN, the one value
// `Token::new` normalises). One 16-byte block of Murmur3 x64_128 is invertible given the state before
// it, so such keys can be constructed instead of waited for (1 in 2^64 random keys).
// ---------------------------------------------------------------------------------------------

fn inv_u64(a: u64) -> u64 {
    // Newton iteration for the inverse of an odd number modulo 2^64
    let mut x = a;
    for _ in 0..6 {
        x = x.wrapping_mul(2u64.wrapping_sub(a.wrapping_mul(x)));
    }
    x
}

fn inv_fmix(mut k: u64) -> u64 {
    k ^= k >> 33;
    k = k.wrapping_mul(inv_u64(0xc4ceb9fe1a85ec53));
    k ^= k >> 33;
    k = k.wrapping_mul(inv_u64(0xff51afd7ed558ccd));
    k ^= k >> 33;
    k
}

/// A key `prefix ++ block` (prefix.len() a multiple of 16) whose raw Murmur3 h1 is `target`;
/// `free` selects among the 2^64 solutions.
pub fn murmur3_preimage(prefix: &[u8], target: u64, free: u64) -> Vec<u8> {
    const C1: u64 = 0x87c37b91114253d5;
    const C2: u64 = 0x4cf5ad432745937f;
    assert!(prefix.len() % 16 == 0);
    // state before the last block: run the blocks of the prefix forward
    let (mut h1, mut h2) = (0u64, 0u64);
    for blk in prefix.chunks(16) {
        let mut k1 = u64::from_le_bytes(blk[0..8].try_into().unwrap());
        let mut k2 = u64::from_le_bytes(blk[8..16].try_into().unwrap());
        k1 = k1.wrapping_mul(C1).rotate_left(31).wrapping_mul(C2);
        h1 ^= k1;
        h1 = h1.rotate_left(27).wrapping_add(h2).wrapping_mul(5).wrapping_add(0x52dce729);
        k2 = k2.wrapping_mul(C2).rotate_left(33).wrapping_mul(C1);
        h2 ^= k2;
        h2 = h2.rotate_left(31).wrapping_add(h1).wrapping_mul(5).wrapping_add(0x38495ab5);
    }
    let (h1p, h2p) = (h1, h2);
    let total = (prefix.len() + 16) as u64;
    // invert the finalisation: final = fmix(a) + fmix(b), a = h1x + h2x, b = h2x + a
    let b = free;
    let fa = target.wrapping_sub(ref_fmix(b));
    let a = inv_fmix(fa);
    let h2x = b.wrapping_sub(a);
    let h1x = a.wrapping_sub(h2x);
    let (h1n, h2n) = (h1x ^ total, h2x ^ total);
    // invert the block step
    let inv5 = inv_u64(5);
    let t2 = h2n.wrapping_sub(0x38495ab5).wrapping_mul(inv5).wrapping_sub(h1n).rotate_right(31);
    let k2m = t2 ^ h2p;
    let k2 = k2m.wrapping_mul(inv_u64(C1)).rotate_right(33).wrapping_mul(inv_u64(C2));
    let t1 = h1n.wrapping_sub(0x52dce729).wrapping_mul(inv5).wrapping_sub(h2p).rotate_right(27);
    let k1m = t1 ^ h1p;
    let k1 = k1m.wrapping_mul(inv_u64(C2)).rotate_right(31).wrapping_mul(inv_u64(C1));
    let mut key = prefix.to_vec();
    key.extend_from_slice(&k1.to_le_bytes());
    key.extend_from_slice(&k2.to_le_bytes());
    key
}

pub(crate) fn pattern_bytes_pub(len: usize, b: u8) -> Vec<u8> {
    pattern_bytes(len, b)
}

fn pattern_bytes(len: usize, b: u8) -> Vec<u8> {
    (0..len).map(|i| ((b as usize + 7 * i) % 256) as u8).collect()
}

fn parse_val(s: &str) -> Option<Val> {
    match s {
        "N" => Some(Val::Null),
        "U" => Some(Val::Unset),
        _ if s.starts_with('z') => {
            let (l, h) = s[1..].split_once('x')?;
            let b = unhex(h)?;
            if b.len() != 1 {
                return None;
            }
            Some(Val::Bytes(pattern_bytes(l.parse().ok()?, b[0])))
        }
        _ => unhex(s).map(Val::Bytes),
    }
}

fn parse_wire(s: &str) -> Option<Vec<u16>> {
    if s == "-" {
        return Some(vec![]);
    }
    s.split(',').map(|x| x.parse().ok()).collect()
}

fn split_chunks<'a>(data: &'a [u8], lens: &[usize]) -> Option<Vec<&'a [u8]>> {
    let mut out = Vec::new();
    let mut off = 0;
    for &l in lens {
        if off + l > data.len() {
            return None;
        }
        out.push(&data[off..off + l]);
        off += l;
    }
    if off == data.len() { Some(out) } else { None }
}

fn parse_lens(s: &str) -> Option<Vec<usize>> {
    if s == "-" {
        return Some(vec![]);
    }
    s.split(',').map(|x| x.parse().ok()).collect()
}

/// A PREPARED RESULT body: kind 4, id, prepared metadata (global table spec, `ncols` blob columns, the pk index
/// list in partition-key order), empty result metadata (NO_METADATA).
fn forge_prepared(ncols: usize, wire: &[u16]) -> Bytes {
    fn string(b: &mut Vec<u8>, s: &str) {
        b.extend_from_slice(&(s.len() as u16).to_be_bytes());
        b.extend_from_slice(s.as_bytes());
    }
    let mut b = Vec::new();
    b.extend_from_slice(&4i32.to_be_bytes());
    b.extend_from_slice(&2u16.to_be_bytes());
    b.extend_from_slice(&[0xab, 0xcd]);
    b.extend_from_slice(&1i32.to_be_bytes());
    b.extend_from_slice(&(ncols as i32).to_be_bytes());
    b.extend_from_slice(&(wire.len() as i32).to_be_bytes());
    for ix in wire {
        b.extend_from_slice(&ix.to_be_bytes());
    }
    string(&mut b, "ks");
    string(&mut b, "t");
    for i in 0..ncols {
        string(&mut b, &format!("c{i}"));
        b.extend_from_slice(&0x0003u16.to_be_bytes());
    }
    b.extend_from_slice(&4i32.to_be_bytes());
    b.extend_from_slice(&0i32.to_be_bytes());
    Bytes::from(b)
}

fn deser_prepared(ncols: usize, wire: &[u16]) -> Result<result::Prepared, String> {
    match result::deserialize_with_features(forge_prepared(ncols, wire), None, &ProtocolFeatures::default()) {
        Ok(result::Result::Prepared(p)) => Ok(p),
        Ok(_) => Err("err notPrepared".into()),
        Err(_) => Err("err parse".into()),
    }
}

fn show_pk(pk: &[result::PartitionKeyIndex]) -> String {
    if pk.is_empty() {
        "-".into()
    } else {
        pk.iter().map(|p| format!("{}:{}", p.index, p.sequence)).collect::<Vec<_>>().join(",")
    }
}

fn show_key(k: &[u8]) -> String {
    if k.len() <= 64 { hex(k) } else { format!("len{}:{}", k.len(), reference_murmur3(k)) }
}

fn show_pk_err(e: &PartitionKeyError) -> String {
    match e {
        PartitionKeyError::PartitionKeyExtraction(PartitionKeyExtractionError::NoPkIndexValue(i, c)) => {
            format!("err noPkIndexValue {} {}", i, c)
        }
        PartitionKeyError::TokenCalculation(TokenCalculationError::ValueTooLong(n)) => format!("err tooLong {}", n),
        PartitionKeyError::Serialization(_) => "err serialization".into(),
        _ => "err other".into(),
    }
}

// ------------------------------------------------------------------------------------------------
// generators
// ------------------------------------------------------------------------------------------------

fn gen_bytes(rng: &mut Rng, len: usize) -> Vec<u8> {
    match rng.below(8) {
        0 => vec![0x00; len],
        1 => vec![0x80; len],
        2 => vec![0xff; len],
        3 => (0..len).map(|i| (0x79 + i) as u8).collect(), // ramp crossing 0x80
        4 => rng.bytes(len),
        // bytes >= 0x80 favoured
        _ => (0..len).map(|_| if rng.chance(3, 4) { 0x80 | (rng.next() as u8) } else { rng.next() as u8 }).collect(),
    }
}

fn gen_chunking(rng: &mut Rng, len: usize) -> Vec<usize> {
    let mut lens = Vec::new();
    let mut left = len;
    let mode = rng.below(7);
    if mode == 0 {
        return vec![len]; // one shot
    }
    if mode == 1 && len <= 200 {
        let mut v = vec![1; len]; // all 1-byte chunks
        if rng.bool() {
            v.insert(rng.below(len as u64 + 1) as usize, 0);
        }
        return v;
    }
    while left > 0 {
        let c = match mode {
            2 => rng.below(4) as usize,                            // tiny incl. empty
            3 => *rng.pick(&[15usize, 16, 17, 0, 1, 31, 32, 33]),   // around the block size
            4 => {
                // fill the buffer exactly / one short / one over
                let in_buf = (len - left) % 16;
                let fill = 16 - in_buf;
                *rng.pick(&[fill, fill - 1, fill + 1, fill + 16, fill + 15])
            }
            5 => rng.below(left as u64 + 1) as usize, // random split points
            _ => rng.below(40) as usize,
        };
        let c = c.min(left);
        lens.push(c);
        left -= c;
    }
    if rng.chance(1, 3) {
        lens.insert(rng.below(lens.len() as u64 + 1) as usize, 0);
    }
    if rng.chance(1, 6) {
        lens.push(0);
    }
    lens
}

fn gen_val(rng: &mut Rng, tag: u8) -> String {
    // distinct leading byte per marker, so that a mix-up of markers changes the key
    match rng.below(40) {
        0 => "-".into(),
        1 => hex(&[tag]),
        2 => format!("z{}x{:02x}", rng.pick(&[15usize, 16, 17, 255, 256, 257, 4096]), tag),
        _ => {
            let n = rng.below(12) as usize;
            let mut b = vec![tag];
            b.extend(gen_bytes(rng, n));
            hex(&b)
        }
    }
}

fn emit_token_case(rng: &mut Rng, cdc: bool, m: usize, wire: &[usize], emit: &mut dyn FnMut(String), special: u64) {
    let mut vals: Vec<String> = (0..m).map(|i| gen_val(rng, 0x80 + i as u8)).collect();
    // non-key markers may be null / unset
    for (i, v) in vals.iter_mut().enumerate() {
        if !wire.contains(&i) && rng.chance(1, 5) {
            *v = if rng.bool() { "N".into() } else { "U".into() };
        }
    }
    match special {
        // boundary component lengths on a key component
        1 if !wire.is_empty() => {
            let ix = *rng.pick(wire);
            if ix < m {
                let len = *rng.pick(&[0usize, 1, 65534, 65535, 65536, 65537, 70000]);
                vals[ix] = format!("z{}x{:02x}", len, 0x80 + ix);
            }
        }
        // a null / unset key component (the code skips it)
        2 if !wire.is_empty() => {
            let ix = *rng.pick(wire);
            if ix < m {
                vals[ix] = if rng.bool() { "N".into() } else { "U".into() };
            }
        }
        _ => {}
    }
    emit(format!("token {} {} {}", cdc as u8, nat_list(wire), vals.join(" ")));
}

fn permutations_of_choices(m: usize, k: usize, cur: &mut Vec<usize>, out: &mut Vec<Vec<usize>>) {
    if cur.len() == k {
        out.push(cur.clone());
        return;
    }
    for i in 0..m {
        if !cur.contains(&i) {
            cur.push(i);
            permutations_of_choices(m, k, cur, out);
            cur.pop();
        }
    }
}

pub fn generate(rng: &mut Rng, tier: Tier, emit: &mut dyn FnMut(String)) {
    let scale: usize = if tier == Tier::Quick { 1 } else { 20 };

    // real-cluster vectors of partitioner.rs (tests)
    for (s, t) in [
        ("test", -6017608668500074083i64),
        ("xd", 4507812186440344727),
        ("primary_key", -1632642444691073360),
        ("kremówki", 4354931215268080151),
    ] {
        emit(format!("vector {} {}", hex(s.as_bytes()), t));
    }

    // (a) hasher. Deterministic sweep: lengths 0..=48 x {00, 80, ramp} x {one-shot, 1-byte chunks, split at every point}
    for len in 0..=48usize {
        for pat in 0..3 {
            let data: Vec<u8> = match pat {
                0 => vec![0u8; len],
                1 => vec![0x80u8; len],
                _ => (0..len).map(|i| (0x79 + i) as u8).collect(),
            };
            emit(format!("hash {} {}", hex(&data), nat_list(&[len])));
            emit(format!("hash {} {}", hex(&data), nat_list(&vec![1usize; len])));
            for cut in 0..=len {
                emit(format!("hash {} {}", hex(&data), nat_list(&[cut, len - cut])));
            }
        }
    }

    // constructed preimages of the boundary tokens: raw hash = i64::MIN (normalised to MAX by Token::new),
    // MIN + 1, MAX, -1, 0 - with 0..2 random full blocks in front, one-shot and chunked
    for i in 0..(40 * scale as u64) {
        for target in [1u64 << 63, (1u64 << 63) + 1, (1u64 << 63) - 1, u64::MAX, 0] {
            let nblocks = (i % 3) as usize;
            let prefix = gen_bytes(rng, 16 * nblocks);
            let key = murmur3_preimage(&prefix, target, rng.next());
            debug_assert_eq!(key.len(), 16 * (nblocks + 1));
            let chunking = gen_chunking(rng, key.len());
            emit(format!("hash {} {}", hex(&key), nat_list(&[key.len()])));
            emit(format!("hash {} {}", hex(&key), nat_list(&chunking)));
            if target == 1u64 << 63 && key.len() < 65536 {
                // the same key through the partition-key / token paths (single component = raw bytes)
                emit(format!("ptoken 0 {}", hex(&key)));
            }
        }
    }
    // lengths 0..=70, random contents and chunkings
    for _ in 0..(250 * scale) {
        for len in 0..=70usize {
            let data = gen_bytes(rng, len);
            emit(format!("hash {} {}", hex(&data), nat_list(&gen_chunking(rng, len))));
        }
    }
    // {16n-1, 16n, 16n+1} up to 4 KiB
    for _ in 0..scale {
        for n in 1..=256usize {
            for len in [16 * n - 1, 16 * n, 16 * n + 1] {
                if len > 4096 {
                    continue;
                }
                let data = gen_bytes(rng, len);
                emit(format!("hash {} {}", hex(&data), nat_list(&gen_chunking(rng, len))));
            }
        }
    }
    // CDC hasher
    for _ in 0..(60 * scale) {
        for len in 0..=20usize {
            let mut data = gen_bytes(rng, len);
            if len >= 8 && rng.chance(1, 8) {
                data[..8].copy_from_slice(&i64::MIN.to_be_bytes()); // normalised to MAX
            }
            emit(format!("cdc {} {}", hex(&data), nat_list(&gen_chunking(rng, len))));
        }
    }

    // CDC on its domain: 16-byte stream ids (sometimes with the i64::MIN prefix), every kind of chunking; and 15/17
    for _ in 0..(300 * scale) {
        let len = *rng.pick(&[16usize, 16, 16, 16, 15, 17, 7, 8, 32]);
        let mut data = gen_bytes(rng, len);
        if len >= 8 && rng.chance(1, 6) {
            data[..8].copy_from_slice(&i64::MIN.to_be_bytes());
        }
        emit(format!("cdc {} {}", hex(&data), nat_list(&gen_chunking(rng, len))));
    }
    // a CDC log table statement: one key column (the 16-byte stream id) among 1..6 markers
    for _ in 0..(300 * scale) {
        let m = rng.range(1, 6) as usize;
        let ix = rng.below(m as u64) as usize;
        let mut vals: Vec<String> = (0..m).map(|i| gen_val(rng, 0x80 + i as u8)).collect();
        let mut id = gen_bytes(rng, 16);
        if rng.chance(1, 6) {
            id[..8].copy_from_slice(&i64::MIN.to_be_bytes());
        }
        vals[ix] = hex(&id);
        emit(format!("token 1 {} {}", ix, vals.join(" ")));
        if rng.chance(1, 4) {
            emit(format!("ptoken 1 {}", hex(&id)));
        }
    }

    // SerializedValuesIterator::nth over buffers with NULL / unset / empty / long cells
    for _ in 0..(400 * scale) {
        let m = rng.below(10) as usize;
        let vals: Vec<String> = (0..m)
            .map(|i| match rng.below(6) {
                0 => "N".to_owned(),
                1 => "U".to_owned(),
                2 => "-".to_owned(),
                _ => gen_val(rng, 0x80 + i as u8),
            })
            .collect();
        let calls = rng.range(1, 5) as usize;
        let ks: Vec<u64> = (0..calls).map(|_| rng.below(4)).collect();
        emit(format!("svnth {} {}", nat_list(&ks), vals.join(" ")).trim_end().to_owned());
    }

    // partitioner selection by name
    let names = [
        "com.scylladb.dht.CDCPartitioner",
        "org.apache.cassandra.dht.Murmur3Partitioner",
        "org.apache.cassandra.dht.RandomPartitioner",
        "org.apache.cassandra.dht.ByteOrderedPartitioner",
        "CDCPartitioner",
        "Murmur3Partitioner",
        "",
        "CDCPartitionerMurmur3Partitioner",
        "Murmur3PartitionerCDCPartitioner",
        "cdcpartitioner",
        "CDCPartitioner ",
        " CDCPartitioner",
        "DCPartitioner",
        "urmur3Partitioner",
        "com.scylladb.dht.CDCPartitioner\u{0}",
        "zażółć.CDCPartitioner",
        "CDCPartitioneŕ",
        "Murmur3Partitioner.CDCPartitioneR",
    ];
    emit("pname N".to_owned());
    for n in names {
        emit(format!("pname {}", hex(n.as_bytes())));
    }
    for _ in 0..(150 * scale) {
        let base = *rng.pick(&names);
        let chars: Vec<char> = base.chars().collect();
        let mut t: String = match rng.below(4) {
            0 => chars[rng.below(chars.len() as u64 + 1) as usize..].iter().collect(), // a suffix
            1 => chars[..rng.below(chars.len() as u64 + 1) as usize].iter().collect(), // a prefix
            2 => format!("{}{}", *rng.pick(&["x", "ś", ".", "dht."]), base),
            _ => format!("{}{}", base, *rng.pick(&["x", "ś", ".", "s"])),
        };
        if rng.chance(1, 5) {
            t = format!("{}{}", t, *rng.pick(&["CDCPartitioner", "Murmur3Partitioner"]));
        }
        emit(format!("pname {}", hex(t.as_bytes())));
    }

    // (b) pk index bookkeeping: forged PREPARED frames
    let mut choices = Vec::new();
    for m in 1..=5usize {
        for k in 0..=m.min(4) {
            permutations_of_choices(m, k, &mut Vec::new(), &mut choices);
        }
    }
    for w in &choices {
        emit(format!("pkidx {}", nat_list(w)));
    }
    for _ in 0..(300 * scale) {
        let k = rng.range(1, 12) as usize;
        let w: Vec<u64> = (0..k)
            .map(|_| match rng.below(6) {
                0 => *rng.pick(&[0u64, 1, 255, 256, 32767, 32768, 65534, 65535]),
                1 => rng.below(65536),
                _ => rng.below(16), // repeats likely
            })
            .collect();
        emit(format!("pkidx {}", nat_list(&w)));
    }

    // long pk index lists (beyond the small-slice path of `sort_unstable_by_key`): distinct shuffled, then with repeats
    for i in 0..(60 * scale) {
        let k = rng.range(21, 300) as usize;
        let base = rng.below(65536 - 300) as usize;
        let mut w: Vec<usize> = (0..k).map(|j| base + j).collect();
        rng.shuffle(&mut w);
        if i % 3 == 0 {
            for _ in 0..rng.range(1, 5) {
                let (a, b) = (rng.below(k as u64) as usize, rng.below(k as u64) as usize);
                w[a] = w[b];
            }
        }
        emit(format!("pkidx {}", nat_list(&w)));
    }

    // (b) token: every choice of k key markers among m markers, every order, k <= 4, m <= 5 (6 in thorough)
    let mut token_choices = Vec::new();
    let mmax = if tier == Tier::Quick { 5 } else { 6 };
    for m in 1..=mmax {
        for k in 1..=m.min(4) {
            permutations_of_choices(m, k, &mut Vec::new(), &mut token_choices);
        }
    }
    for (i, w) in token_choices.iter().enumerate() {
        let m = w.iter().max().unwrap() + 1 + (i % 2);
        emit_token_case(rng, false, m, w, emit, 0);
    }
    // random larger shapes: 1..8 key components among 1..16 markers
    for i in 0..(6000 * scale) {
        let k = rng.range(1, 8) as usize;
        let m = rng.range(k as i64, 16) as usize;
        let mut markers: Vec<usize> = (0..m).collect();
        rng.shuffle(&mut markers);
        let w: Vec<usize> = markers[..k].to_vec();
        let cdc = rng.chance(1, 10);
        let special = match i % 40 {
            0 | 1 => 1,
            2 => 2,
            _ => 0,
        };
        emit_token_case(rng, cdc, m, &w, emit, special);
    }
    // malformed pk index lists: marker index beyond the bound values, repeated marker, no pk indexes
    for _ in 0..(150 * scale) {
        let m = rng.range(1, 6) as usize;
        let k = rng.range(1, 4) as usize;
        let mut w: Vec<usize> = (0..k).map(|_| rng.below(m as u64) as usize).collect();
        match rng.below(3) {
            0 => w[0] = m + rng.below(3) as usize,
            1 => w[0] = *rng.pick(&[65535usize, 65534, 256]),
            _ => {}
        }
        emit_token_case(rng, false, m, &w, emit, 0);
    }
    for m in 0..3usize {
        emit_token_case(rng, false, m, &[], emit, 0);
    }

    // calculate_token_for_partition_key (values already in partition-key order)
    for i in 0..(1500 * scale) {
        let k = rng.range(1, 8) as usize;
        let mut vals: Vec<String> = (0..k).map(|j| gen_val(rng, 0x80 + j as u8)).collect();
        if i % 10 == 0 {
            let j = rng.below(k as u64) as usize;
            vals[j] = if rng.bool() { "N".into() } else { "U".into() };
        }
        if i % 25 == 1 {
            let j = rng.below(k as u64) as usize;
            vals[j] = format!("z{}x{:02x}", rng.pick(&[65535usize, 65536, 65537]), 0x80 + j);
        }
        emit(format!("ptoken {} {}", rng.chance(1, 10) as u8, vals.join(" ")));
    }
    emit("ptoken 0".to_owned());

    // batches: the routing token is that of the FIRST row under the FIRST statement (peek_first_token)
    for i in 0..(1200 * scale) {
        let nst = rng.range(1, 4) as usize;
        let mut stmts: Vec<String> = Vec::new();
        let mut rows: Vec<String> = Vec::new();
        for j in 0..nst {
            // the first statement is mostly prepared; others vary freely
            let unprepared = if j == 0 { rng.chance(1, 8) } else { rng.chance(1, 3) };
            let m = rng.range(1, 6) as usize;
            if unprepared {
                stmts.push("U".to_owned());
            } else {
                let k = rng.range(1, m.min(3) as i64) as usize;
                let mut markers: Vec<usize> = (0..m).collect();
                rng.shuffle(&mut markers);
                let mut wire: Vec<usize> = markers[..k].to_vec();
                if j == 0 && i % 50 == 7 {
                    wire[0] = m + 1; // a key marker beyond the row
                }
                stmts.push(format!("P{}:{}:{}", rng.chance(1, 8) as u8, m, nat_list(&wire)));
            }
            // a row for this statement: usually of its width, values tagged by statement so that rows differ
            let width = if j == 0 && i % 40 == 3 { m + 1 } else { m };
            let vals: Vec<String> = (0..width)
                .map(|c| if rng.chance(1, 25) { "N".to_owned() } else { gen_val(rng, (0x80 + 16 * j + c) as u8) })
                .collect();
            rows.push(if vals.is_empty() { ".".to_owned() } else { vals.join(",") });
        }
        let rows_s = match i % 30 {
            11 => "none".to_owned(),                    // no values at all
            12 => rows[..1].join(";"),                   // fewer rows than statements
            _ => rows.join(";"),
        };
        emit(format!("btoken {} {}", stmts.join(";"), rows_s));
    }
    emit("btoken none none".to_owned());

    // session level: Session::prepare / ClusterState::compute_token against the mock cluster, compared with the model
    crate::e2e::partitioner::generate_sesspart(rng, tier, emit);
    // the metadata fetch behind compute_token: partition-key column order from system_schema.columns rows in any order
    crate::e2e::partitioner::generate_pkfetch(rng, tier, emit);
}

// ------------------------------------------------------------------------------------------------
// running the real implementation
// ------------------------------------------------------------------------------------------------

fn run_hasher<P: Partitioner>(p: P, chunks: &[&[u8]]) -> i64 {
    let mut h = p.build_hasher();
    for c in chunks {
        h.write(c);
    }
    h.finish().value()
}

fn bind(vals: &[Val]) -> Vec<MaybeUnset<Option<Vec<u8>>>> {
    vals.iter()
        .map(|v| match v {
            Val::Null => MaybeUnset::Set(None),
            Val::Unset => MaybeUnset::Unset,
            Val::Bytes(b) => MaybeUnset::Set(Some(b.clone())),
        })
        .collect()
}

pub fn run(case: &str, ctx: &mut Ctx) -> String {
    let w: Vec<&str> = case.split_whitespace().collect();
    if w.is_empty() {
        return "bad-case".into();
    }
    match (w[0], w.len()) {
        ("hash", 3) | ("cdc", 3) => {
            let (Some(data), Some(lens)) = (unhex(w[1]), parse_lens(w[2])) else { return "bad-case".into() };
            let Some(chunks) = split_chunks(&data, &lens) else { return "bad-case".into() };
            let cdc = w[0] == "cdc";
            let (chunked, oneshot) = if cdc {
                (run_hasher(CDCPartitioner, &chunks), CDCPartitioner.hash_one(&data).value())
            } else {
                (run_hasher(Murmur3Partitioner, &chunks), Murmur3Partitioner.hash_one(&data).value())
            };
            if chunked != oneshot {
                ctx.fail(format!("chunked token {} != one-shot token {} (chunks {})", chunked, oneshot, w[2]));
            }
            if !cdc && (chunked == i64::MIN || oneshot == i64::MIN) {
                ctx.fail("Murmur3 token is i64::MIN (not normalised)");
            }
            // server-side token (independent reference), on the server's domain only
            if let Some(reference) = server_token(cdc, &data) {
                if oneshot != reference {
                    ctx.fail(format!(
                        "token {} differs from the server-side partitioner's token {} (independent reference)",
                        oneshot, reference
                    ));
                }
            }
            format!("{} {}", chunked, oneshot)
        }
        ("vector", 3) => {
            let Some(data) = unhex(w[1]) else { return "bad-case".into() };
            let Ok(expected) = w[2].parse::<i64>() else { return "bad-case".into() };
            let t = Murmur3Partitioner.hash_one(&data).value();
            if t != expected {
                ctx.fail(format!("token {} differs from the token {} a real cluster computed", t, expected));
            }
            t.to_string()
        }
        ("pkidx", 2) => {
            let Some(wire) = parse_wire(w[1]) else { return "bad-case".into() };
            match deser_prepared(1, &wire) {
                Ok(p) => {
                    let pk = &p.prepared_metadata.pk_indexes;
                    // oracle: sorted by marker index; sequence s belongs to the marker the frame listed at position s
                    if pk.windows(2).any(|x| x[0].index > x[1].index) {
                        ctx.fail("pk_indexes not sorted by bind-marker index");
                    }
                    if pk.len() != wire.len()
                        || pk.iter().any(|p| wire.get(p.sequence as usize) != Some(&p.index))
                    {
                        ctx.fail("pk_indexes: sequence does not name the frame position of its marker index");
                    }
                    show_pk(pk)
                }
                Err(e) => e,
            }
        }
        ("token", n) if n >= 3 => {
            let cdc = w[1] == "1";
            if w[1] != "0" && w[1] != "1" {
                return "bad-case".into();
            }
            let Some(wire) = parse_wire(w[2]) else { return "bad-case".into() };
            let Some(vals) = w[3..].iter().map(|s| parse_val(s)).collect::<Option<Vec<Val>>>() else {
                return "bad-case".into();
            };
            let prepared = match deser_prepared(vals.len(), &wire) {
                Ok(p) => p,
                Err(e) => return e,
            };
            let ps = hooks::statement_from_prepared(prepared, cdc);
            let pk = show_pk(ps.get_variable_pk_indexes());
            let bound = bind(&vals);
            let tok = catch_unwind(AssertUnwindSafe(|| ps.calculate_token(&bound)));
            let key = catch_unwind(AssertUnwindSafe(|| ps.compute_partition_key(&bound)));

            // ---- oracles (independent of the model)
            let distinct = {
                let mut s = wire.clone();
                s.sort_unstable();
                s.dedup();
                s.len() == wire.len()
            };
            let in_range = wire.iter().all(|&i| (i as usize) < vals.len());
            let show = |r: &std::thread::Result<Result<Option<scylla::routing::Token>, PartitionKeyError>>| match r {
                Ok(Ok(None)) => "none".to_owned(),
                Ok(Ok(Some(t))) => format!("ok {}", t.value()),
                Ok(Err(e)) => show_pk_err(e),
                Err(_) => "panic".to_owned(),
            };
            if vals.len() > 65535 {
                // serialize_values cannot hold more than u16::MAX values
                if !matches!(&tok, Ok(Err(PartitionKeyError::Serialization(_)))) {
                    ctx.fail(format!("{} bound values did not fail serialization: {}", vals.len(), show(&tok)));
                }
            } else if wire.is_empty() {
                if !matches!(&tok, Ok(Ok(None))) {
                    ctx.fail(format!("statement without pk indexes is not token-unaware: {}", show(&tok)));
                }
            } else if !in_range && distinct {
                // a key marker beyond the bound values: must be reported for the smallest such marker, never routed
                let first_bad = wire.iter().copied().filter(|&i| (i as usize) >= vals.len()).min().unwrap();
                match &tok {
                    Ok(Err(PartitionKeyError::PartitionKeyExtraction(PartitionKeyExtractionError::NoPkIndexValue(i, c))))
                        if *i == first_bad && *c as usize == vals.len() => {}
                    other => ctx.fail(format!(
                        "key marker {} beyond {} bound values: expected NoPkIndexValue, got {}",
                        first_bad,
                        vals.len(),
                        show(other)
                    )),
                }
            } else if !distinct {
                // a marker listed twice (no server sends this): whatever happens, no token may come out
                if matches!(&tok, Ok(Ok(Some(_)))) {
                    ctx.fail(format!("a token was computed from a pk index list with a repeated marker: {}", show(&tok)));
                }
            } else {
                let comps: Option<Vec<&[u8]>> = wire
                    .iter()
                    .map(|&i| match &vals[i as usize] {
                        Val::Bytes(b) => Some(b.as_slice()),
                        _ => None,
                    })
                    .collect();
                if let Some(comps) = comps {
                    // the property as stated: fully bound key
                    let too_long = comps.len() > 1 && comps.iter().any(|c| c.len() > 65535);
                    match (&tok, too_long) {
                        (Ok(Err(PartitionKeyError::TokenCalculation(_))), true) => {}
                        (other, true) => ctx.fail(format!(
                            "composite key component of >= 65536 bytes was not rejected: {}",
                            show(other)
                        )),
                        (Ok(Ok(Some(t))), false) => {
                            let enc = reference_encode(&comps);
                            if let Some(expected) = server_token(cdc, &enc) {
                                if t.value() != expected {
                                    ctx.fail(format!(
                                        "token {} differs from the server-side token {} of the key in partition-key order",
                                        t.value(),
                                        expected
                                    ));
                                }
                            }
                            if !cdc && t.value() == i64::MIN {
                                ctx.fail("Murmur3 token is i64::MIN");
                            }
                            match &key {
                                Ok(Ok(k)) if k.as_ref() == enc.as_slice() => {}
                                _ => ctx.fail("compute_partition_key differs from the encoded key in partition-key order"),
                            }
                        }
                        (other, false) => ctx.fail(format!(
                            "no token for a fully bound partition key: {}",
                            show(other)
                        )),
                    }
                } else {
                    // a null / unset key component: the server rejects such a request; the driver must not panic
                    if tok.is_err() || key.is_err() {
                        ctx.fail("panic on a null / unset partition key component");
                    }
                }
            }
            // consistency on EVERY case: a token exists iff a key exists, and the token is the hash of exactly the
            // bytes compute_partition_key returns (real one-shot hasher)
            match (&tok, &key) {
                (Ok(Ok(Some(t))), Ok(Ok(k))) => {
                    let h = if cdc { CDCPartitioner.hash_one(k).value() } else { Murmur3Partitioner.hash_one(k).value() };
                    if h != t.value() {
                        ctx.fail(format!("token {} is not the hash {} of compute_partition_key's bytes", t.value(), h));
                    }
                }
                (Ok(Ok(Some(_))), _) => ctx.fail("a token was computed but compute_partition_key failed"),
                (Ok(Ok(None)), _) | (Ok(Err(_)), Ok(Err(_))) | (Err(_), Err(_)) => {}
                _ => ctx.fail("calculate_token and compute_partition_key disagree on failure"),
            }

            let tok_s = match &tok {
                Ok(Ok(None)) => "none".to_owned(),
                Ok(Ok(Some(t))) => format!("ok {}", t.value()),
                Ok(Err(e)) => show_pk_err(e),
                Err(_) => "panic".to_owned(),
            };
            let key_s = match &key {
                Ok(Ok(k)) => show_key(k),
                Ok(Err(e)) => show_pk_err(e),
                Err(_) => "panic".to_owned(),
            };
            format!("pk={} tok={} key={}", pk, tok_s, key_s)
        }
        ("ptoken", n) if n >= 2 => {
            if w[1] != "0" && w[1] != "1" {
                return "bad-case".into();
            }
            let cdc = w[1] == "1";
            let Some(vals) = w[2..].iter().map(|s| parse_val(s)).collect::<Option<Vec<Val>>>() else {
                return "bad-case".into();
            };
            let blob = ColumnType::Native(NativeType::Blob);
            let mut sv = SerializedValues::new();
            for v in bind(&vals) {
                sv.add_value(&v, &blob).unwrap();
            }
            let res = hooks::calculate_token_for_partition_key(&sv, cdc);
            // oracle: for a fully bound key the token is the server-side token of the encoded key
            let comps: Option<Vec<&[u8]>> = vals
                .iter()
                .map(|v| match v {
                    Val::Bytes(b) => Some(b.as_slice()),
                    _ => None,
                })
                .collect();
            if let (Some(comps), false) = (comps, vals.is_empty()) {
                let too_long = comps.len() > 1 && comps.iter().any(|c| c.len() > 65535);
                let enc = reference_encode(&comps);
                let expected = server_token(cdc, &enc);
                match (res, too_long) {
                    (Err(_), true) => {}
                    (Ok(t), false) if expected.is_none() || expected == Some(t) => {}
                    (r, _) => ctx.fail(format!(
                        "calculate_token_for_partition_key gave {:?}, server-side token is {:?} (too long: {})",
                        r, expected, too_long
                    )),
                }
            }
            match res {
                Ok(t) => format!("ok {}", t),
                Err(n) => format!("err tooLong {}", n),
            }
        }
        ("btoken", 3) => {
            // stmts: `;`-separated `U` | `P<cdc>:<ncols>:<wire>`; rows: `;`-separated comma lists (`.` = empty row)
            use scylla::statement::batch::Batch;
            let mut batch = Batch::default();
            let mut first: Option<(bool, scylla::statement::prepared::PreparedStatement)> = None;
            if w[1] != "none" {
                for (i, d) in w[1].split(';').enumerate() {
                    if d == "U" {
                        batch.append_statement(scylla::statement::Statement::new("INSERT INTO ks.t (a) VALUES (?)"));
                    } else if let Some(rest) = d.strip_prefix('P') {
                        let parts: Vec<&str> = rest.split(':').collect();
                        if parts.len() != 3 || (parts[0] != "0" && parts[0] != "1") {
                            return "bad-case".into();
                        }
                        let (Ok(ncols), Some(wire)) = (parts[1].parse::<usize>(), parse_wire(parts[2])) else {
                            return "bad-case".into();
                        };
                        let prepared = match deser_prepared(ncols, &wire) {
                            Ok(p) => p,
                            Err(e) => return e,
                        };
                        let ps = hooks::statement_from_prepared(prepared, parts[0] == "1");
                        if i == 0 {
                            first = Some((parts[0] == "1", ps.clone()));
                        }
                        batch.append_statement(ps);
                    } else {
                        return "bad-case".into();
                    }
                }
            }
            let mut rows: Vec<Vec<Val>> = Vec::new();
            if w[2] != "none" {
                for r in w[2].split(';') {
                    if r == "." {
                        rows.push(vec![]);
                    } else {
                        let Some(vs) = r.split(',').map(parse_val).collect::<Option<Vec<Val>>>() else {
                            return "bad-case".into();
                        };
                        rows.push(vs);
                    }
                }
            }
            let bound: Vec<Vec<MaybeUnset<Option<Vec<u8>>>>> = rows.iter().map(|r| bind(r)).collect();
            let got = catch_unwind(AssertUnwindSafe(|| hooks::batch_first_token(&batch, &bound)));
            use scylla::errors::{BadQuery, ExecutionError};
            let shown = match &got {
                Ok(Ok(Some(t))) => format!("ok:{}", t.value()),
                Ok(Ok(None)) => "none".to_owned(),
                Ok(Err(ExecutionError::BadQuery(BadQuery::SerializationError(_)))) => "err:serialization".to_owned(),
                Ok(Err(ExecutionError::BadQuery(BadQuery::PartitionKeyExtraction))) => "err:pkExtraction".to_owned(),
                Ok(Err(ExecutionError::BadQuery(BadQuery::ValuesTooLongForKey(n, _)))) => format!("err:tooLong:{}", n),
                Ok(Err(_)) => "err:other".to_owned(),
                Err(_) => "panic".to_owned(),
            };
            // oracle: the batch's routing token is the token of the FIRST row under the FIRST statement (if prepared)
            let expected = match (&first, rows.first()) {
                (Some((_, ps)), Some(_)) => {
                    let r = catch_unwind(AssertUnwindSafe(|| ps.calculate_token(&bound[0])));
                    match r {
                        Ok(Ok(Some(t))) => format!("ok:{}", t.value()),
                        Ok(Ok(None)) => "none".to_owned(),
                        Ok(Err(PartitionKeyError::Serialization(_))) => "err:serialization".to_owned(),
                        Ok(Err(PartitionKeyError::PartitionKeyExtraction(_))) => "err:pkExtraction".to_owned(),
                        Ok(Err(PartitionKeyError::TokenCalculation(TokenCalculationError::ValueTooLong(n)))) => format!("err:tooLong:{}", n),
                        Ok(Err(_)) => "err:other".to_owned(),
                        Err(_) => "panic".to_owned(),
                    }
                }
                _ => "none".to_owned(),
            };
            if shown != expected {
                ctx.fail(format!(
                    "batch routing token {} is not the token {} of the first row under the first statement",
                    shown, expected
                ));
            }
            // and, for a fully bound well-formed first row, the server-side token of its key
            if let (Some((cdc, ps)), Some(row)) = (&first, rows.first()) {
                let pk = ps.get_variable_pk_indexes();
                let mut by_seq: Vec<(u16, u16)> = pk.iter().map(|p| (p.sequence, p.index)).collect();
                by_seq.sort_unstable();
                let comps: Option<Vec<&[u8]>> = by_seq
                    .iter()
                    .map(|(_, ix)| match row.get(*ix as usize) {
                        Some(Val::Bytes(b)) => Some(b.as_slice()),
                        _ => None,
                    })
                    .collect();
                if let Some(comps) = comps {
                    let distinct = { let mut s: Vec<u16> = by_seq.iter().map(|x| x.1).collect(); s.sort_unstable(); s.dedup(); s.len() == by_seq.len() };
                    let small = comps.len() == 1 || comps.iter().all(|c| c.len() <= 65535);
                    if !comps.is_empty() && distinct && small && row.len() == ps.get_variable_col_specs().len() {
                        if let Some(t) = server_token(*cdc, &reference_encode(&comps)) {
                            if shown != format!("ok:{}", t) {
                                ctx.fail(format!("batch routing token {} differs from the server-side token {} of the first row's key", shown, t));
                            }
                        }
                    }
                }
            }
            // the model prints extraction errors by kind
            match shown.as_str() {
                "err:pkExtraction" => match first.as_ref().map(|(_, ps)| ps.calculate_token(&bound[0])) {
                    Some(Err(PartitionKeyError::PartitionKeyExtraction(PartitionKeyExtractionError::NoPkIndexValue(i, c)))) => {
                        format!("err:noPk:{}:{}", i, c)
                    }
                    _ => shown,
                },
                _ => shown,
            }
        }
        ("sesspart", _) => crate::e2e::partitioner::run(&w[1..], ctx),
        ("pkfetch", 3) => crate::e2e::partitioner::run_pkfetch(&w[1..], ctx),
        ("svnth", n) if n >= 2 => {
            let Some(ks) = parse_lens(w[1]) else { return "bad-case".into() };
            let Some(vals) = w[2..].iter().map(|s| parse_val(s)).collect::<Option<Vec<Val>>>() else {
                return "bad-case".into();
            };
            let blob = ColumnType::Native(NativeType::Blob);
            let mut sv = SerializedValues::new();
            for v in bind(&vals) {
                sv.add_value(&v, &blob).unwrap();
            }
            let mut it = sv.iter();
            let mut pos = 0usize; // oracle: plain indexing into the bound values
            let mut out = Vec::new();
            for k in ks {
                let got = it.nth(k);
                let expected = vals.get(pos + k);
                pos = (pos + k + 1).min(vals.len() + 1);
                let shown = match &got {
                    None => "none".to_owned(),
                    Some(scylla_cql_core::frame::types::RawValue::Null) => "N".to_owned(),
                    Some(scylla_cql_core::frame::types::RawValue::Unset) => "U".to_owned(),
                    Some(scylla_cql_core::frame::types::RawValue::Value(b)) => format!("v:{}", hex(b)),
                };
                let want = match expected {
                    None => "none".to_owned(),
                    Some(Val::Null) => "N".to_owned(),
                    Some(Val::Unset) => "U".to_owned(),
                    Some(Val::Bytes(b)) => format!("v:{}", hex(b)),
                };
                if shown != want {
                    ctx.fail(format!("SerializedValues::iter().nth({}) gave {}, the bound value at that position is {}", k, shown, want));
                }
                if got.is_none() {
                    pos = vals.len() + 1;
                    // the model iterator stays exhausted
                }
                out.push(shown);
            }
            // the serialized buffer itself, as `write_to_request` emits it: u16 count, then the cells
            let mut raw = Vec::new();
            sv.write_to_request(&mut raw);
            format!("{} buf={}", out.join(" "), hex(&raw))
        }
        ("pname", 2) => {
            let name: Option<String> = if w[1] == "N" {
                None
            } else {
                match unhex(w[1]).and_then(|b| String::from_utf8(b).ok()) {
                    Some(s) => Some(s),
                    None => return "bad-case".into(),
                }
            };
            let (parsed, selected_cdc) = hooks::partitioner_from_name(name.as_deref());
            // oracle: the names the servers report, and the default for anything unrecognised
            let expect_cdc = match name.as_deref() {
                Some("com.scylladb.dht.CDCPartitioner") => Some(true),
                Some("org.apache.cassandra.dht.Murmur3Partitioner") | None => Some(false),
                Some("org.apache.cassandra.dht.RandomPartitioner")
                | Some("org.apache.cassandra.dht.ByteOrderedPartitioner")
                | Some("") => Some(false),
                _ => None,
            };
            if let Some(e) = expect_cdc {
                if selected_cdc != e {
                    ctx.fail(format!("partitioner name {:?} selects cdc={}, expected cdc={}", name, selected_cdc, e));
                }
            }
            // the rule itself, restated on bytes: CDC iff the name ends in "CDCPartitioner" (a name cannot end in both)
            let ends = |pat: &[u8]| {
                let b = name.as_deref().unwrap_or("").as_bytes();
                b.len() >= pat.len() && &b[b.len() - pat.len()..] == pat
            };
            let rule_cdc = name.is_some() && ends(b"CDCPartitioner") && !ends(b"Murmur3Partitioner");
            if selected_cdc != rule_cdc {
                ctx.fail(format!(
                    "partitioner name {:?} selects cdc={}, but its suffix says cdc={}",
                    name, selected_cdc, rule_cdc
                ));
            }
            if parsed.is_none() && selected_cdc {
                ctx.fail("an unrecognised partitioner name selected the CDC partitioner instead of the default");
            }
            if let Some(p) = parsed {
                if p != selected_cdc {
                    ctx.fail("recognised partitioner differs from the selected one");
                }
            }
            let show = |c: bool| if c { "cdc" } else { "murmur3" };
            format!("parsed={} selected={}", parsed.map(show).unwrap_or("none"), show(selected_cdc))
        }
        _ => "bad-case".to_owned(),
    }
}

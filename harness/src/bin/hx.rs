use std::io::{BufRead, Write};
use verif_harness::{Ctx, Tier, property, rng::Rng};

// C08: counting allocator (counts only on threads that opted in; see c08alloc.rs)
#[global_allocator]
static GLOBAL: verif_harness::c08alloc::Counting = verif_harness::c08alloc::Counting;

fn usage() -> ! {
    eprintln!("usage: hx <Cxx> gen --seed S --tier quick|thorough | hx <Cxx> run [--oracle-out FILE]");
    std::process::exit(2)
}

fn main() {
    let args: Vec<String> = std::env::args().collect();
    if args.len() < 3 {
        usage();
    }
    let Some((genf, runf)) = property(&args[1]) else {
        eprintln!("unknown property {}", args[1]);
        std::process::exit(2)
    };
    let mut seed = 1u64;
    let mut tier = Tier::Quick;
    let mut oracle_out: Option<String> = None;
    let mut i = 3;
    while i < args.len() {
        match args[i].as_str() {
            "--seed" => {
                seed = args[i + 1].parse().expect("seed");
                i += 2;
            }
            "--tier" => {
                tier = if args[i + 1] == "thorough" { Tier::Thorough } else { Tier::Quick };
                i += 2;
            }
            "--oracle-out" => {
                oracle_out = Some(args[i + 1].clone());
                i += 2;
            }
            _ => usage(),
        }
    }
    let stdout = std::io::stdout();
    let mut out = std::io::BufWriter::new(stdout.lock());
    match args[2].as_str() {
        "gen" => {
            let mut rng = Rng::new(seed);
            genf(&mut rng, tier, &mut |line: String| {
                debug_assert!(!line.contains('\n') && !line.contains('\t'));
                writeln!(out, "{}", line).unwrap();
            });
            // end-to-end cases (a real Session against the mock cluster); oracle-only, see e2e.rs
            verif_harness::e2e::generate(&args[1], &mut rng, tier, &mut |line: String| {
                debug_assert!(line.starts_with("e2e ") && !line.contains('\n') && !line.contains('\t'));
                writeln!(out, "{}", line).unwrap();
            });
        }
        "run" => {
            // Panics are outcomes, not crashes of the harness: silence the default hook.
            std::panic::set_hook(Box::new(|_| {}));
            let mut oracle = oracle_out.map(|p| std::io::BufWriter::new(std::fs::File::create(p).unwrap()));
            let stdin = std::io::stdin();
            for (idx, line) in stdin.lock().lines().enumerate() {
                let line = line.unwrap();
                let mut ctx = Ctx::default();
                let res = std::panic::catch_unwind(std::panic::AssertUnwindSafe(|| {
                    if line.starts_with("e2e ") {
                        verif_harness::e2e::run(&args[1], &line, &mut ctx)
                    } else {
                        runf(&line, &mut ctx)
                    }
                }));
                let outline = match res {
                    Ok(s) => s,
                    Err(e) => {
                        let msg = e
                            .downcast_ref::<String>()
                            .cloned()
                            .or_else(|| e.downcast_ref::<&str>().map(|s| s.to_string()))
                            .unwrap_or_default();
                        ctx.fail(format!("panic: {}", msg.replace(['\n', '\t'], " ")));
                        "PANIC".to_owned()
                    }
                };
                writeln!(out, "{}", outline.replace(['\n', '\t'], " ")).unwrap();
                if args[1] == "C08" {
                    out.flush().unwrap(); // a crash of the process must be attributed to the right case
                }
                if let Some(o) = oracle.as_mut() {
                    for f in &ctx.oracle_failures {
                        writeln!(o, "{}\t{}", idx, f.replace(['\n', '\t'], " ")).unwrap();
                    }
                }
            }
            if let Some(mut o) = oracle {
                o.flush().unwrap();
            }
        }
        _ => usage(),
    }
    out.flush().unwrap();
}

// Smoke test of the mock node + VerifConn hook (developer tool).
use scylla::statement::unprepared::Statement;
use scylla::verif_hooks::connection::{VerifConn, VerifConnOptions};
use verif_harness::mocknode::*;

#[tokio::main(flavor = "current_thread")]
async fn main() {
    let handler: Handler = Box::new(|req: &Request| match &req.parsed {
        Parsed::Query { text, .. } if text.starts_with("USE ") => {
            vec![Action::Respond(RESP_RESULT, body_set_keyspace(text.trim_start_matches("USE ").trim_matches('"')))]
        }
        Parsed::Prepare { text } => {
            let rm = ResultMeta { cols: Some(vec![Col { name: "a".into(), type_id: 9 }]), col_count: 1, ..Default::default() };
            vec![Action::Respond(RESP_RESULT, body_prepared(&md5ish(text), Some(b"m1"), &[], &[], &rm))]
        }
        Parsed::Execute { params, .. } => {
            let rm = ResultMeta { cols: if params.skip_metadata { None } else { Some(vec![Col { name: "a".into(), type_id: 9 }]) }, col_count: 1, ..Default::default() };
            vec![Action::Respond(RESP_RESULT, body_rows(&rm, &[vec![Some(vec![0, 0, 0, 7])]]))]
        }
        _ => vec![Action::Respond(RESP_ERROR, body_error(0x2200, "invalid", &[]))],
    });
    let node = MockNode::start(true, None, handler).await;
    let conn = VerifConn::open(node.addr, VerifConnOptions::default()).await.unwrap();
    println!("ext = {}", conn.metadata_id_supported());
    println!("use ks: {:?}", conn.use_keyspace("abc", false).await);
    println!("use bad: {:?}", conn.use_keyspace("a b", false).await);
    let ps = conn.prepare(&Statement::new("SELECT a FROM t")).await.unwrap();
    let (res, _) = conn
        .execute(&ps, &scylla_cql_core::serialize::row::SerializedValues::new(), None, scylla::response::PagingState::start())
        .await
        .unwrap();
    let rows = res.into_rows_result().unwrap();
    let v: Vec<(i32,)> = rows.rows::<(i32,)>().unwrap().map(|r| r.unwrap()).collect();
    println!("rows = {:?}", v);
    for r in node.requests() {
        println!("{} {:?}", r.opcode, r.parsed);
    }
}

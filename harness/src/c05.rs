//! C05 — default load-balancing plans are complete, duplicate-free and correctly ordered.
//!
//! Case: `plan <topology> <keyspace strategies> <config> <request> <samples>` (topology syntax: `topology.rs`; the flags
//! word of a peer contains `d` = rejected by the host filter, `x` = no usable connection).
//! ```text
//! config  := pref "/" ("t"|"n") "/" ("f"|"n") "/" ("s"|"x")     token-aware / failover permitted / replica shuffling
//! pref    := "i" (inherit from the request; config only) | "a" (Any) | "d"<dc> | "r"<dc>"."<rack>
//! request := (token|"-") "/" (keyspace index|"-") "/" ("0"|"1") "/" consistency "/" serial "/" pref
//! ```
//! The flags word may also carry `s<nr_shards>.<msb_ignore>`: that peer gets a sharder (hook `set_sharders`), so the
//! shard the policy supplies for a replica is a real number; a peer without it answers shard 0.
//! The cluster is built through `ClusterState::new` (hook `cluster_from_topology`, pool-less nodes whose
//! `is_enabled` / `is_connected` / `sharder` answer the flags); the policy through `DefaultPolicy::builder()`; per
//! sample one `policy.pick(..)`, one `policy.fallback(..)` and one `Plan::new(..)` iterated to exhaustion (thread RNG).
//! The sample count must be positive.
//!
//! Output: `set=<ids of the first plan, sorted> rep=<targets with a shard in the first fallback, by id>
//! lwt=<replica prefix of the first fallback | x> det=<the plan's ids if every sample gave the same plan | *> |
//! P<pick>/F<fallback>/L<plan> ...` with `target := id ["@" shard]` (the plan's targets always carry a shard: `Plan`
//! draws one below the node's shard count when the policy supplied none).
//!
//! Oracle (independent of the Lean model; replicas by a brute-force transcription of the two placement rules, shards
//! by the C11 rule): no node twice in a plan, no disabled node, no node outside the preferred datacenter unless
//! failover is permitted, every other enabled token-owning node present, live replicas first (local rack, local
//! datacenter, remote), live nodes before down nodes, for LWT requests the same replica prefix in every sampled plan
//! and in ring order, with replica shuffling disabled the same replica pick / replica order in every sample, every
//! supplied shard = the token's shard on that node, every drawn shard below the node's shard count.
use crate::rng::Rng;
use crate::topology::*;
use crate::util::nat_list;
use crate::{Ctx, Tier};
use scylla::cluster::ClusterState;
use scylla::frame::response::result::TableSpec;
use scylla::frame::types::{Consistency, SerialConsistency};
use scylla::policies::load_balancing::{DefaultPolicy, LatencyAwarenessBuilder, LoadBalancingPolicy, Plan, RoutingInfo};
use scylla::routing::{NodeLocationPreference, Token};
use scylla::verif_hooks::cluster::{KeyspaceSpec, NodeSpec, cluster_from_topology_with_tablets, node_has_pool, set_sharders};
use std::cell::RefCell;
use std::collections::HashMap;
use std::rc::Rc;
use std::sync::Arc;

// ---------------------------------------------------------------------------------------------
// case syntax

#[derive(Clone, Debug, PartialEq, Eq)]
enum Pref {
    Inherit,
    Any,
    Dc(u32),
    DcRack(u32, u32),
}

impl Pref {
    fn parse(s: &str) -> Option<Pref> {
        match s {
            "i" => Some(Pref::Inherit),
            "a" => Some(Pref::Any),
            _ if s.starts_with('d') => s[1..].parse().ok().map(Pref::Dc),
            _ if s.starts_with('r') => {
                let (d, r) = s[1..].split_once('.')?;
                Some(Pref::DcRack(d.parse().ok()?, r.parse().ok()?))
            }
            _ => None,
        }
    }
    fn fmt(&self) -> String {
        match self {
            Pref::Inherit => "i".into(),
            Pref::Any => "a".into(),
            Pref::Dc(d) => format!("d{}", d),
            Pref::DcRack(d, r) => format!("r{}.{}", d, r),
        }
    }
    fn to_driver(&self) -> NodeLocationPreference {
        match self {
            Pref::Inherit | Pref::Any => NodeLocationPreference::Any,
            Pref::Dc(d) => NodeLocationPreference::Datacenter(dc_name(*d)),
            Pref::DcRack(d, r) => NodeLocationPreference::DatacenterAndRack(dc_name(*d), rack_name(*r)),
        }
    }
    fn dc(&self) -> Option<u32> {
        match self {
            Pref::Dc(d) | Pref::DcRack(d, _) => Some(*d),
            _ => None,
        }
    }
    fn rack(&self) -> Option<u32> {
        match self {
            Pref::DcRack(_, r) => Some(*r),
            _ => None,
        }
    }
}

struct Config {
    pref: Pref,
    token_aware: bool,
    failover: bool,
    shuffle: bool,
}

struct Request {
    token: Option<i64>,
    ks: Option<usize>,
    lwt: bool,
    consistency: Consistency,
    serial: Option<SerialConsistency>,
    pref: Pref,
}

const CONSISTENCIES: [(&str, Consistency); 11] = [
    ("any", Consistency::Any),
    ("one", Consistency::One),
    ("two", Consistency::Two),
    ("three", Consistency::Three),
    ("quorum", Consistency::Quorum),
    ("all", Consistency::All),
    ("lq", Consistency::LocalQuorum),
    ("eq", Consistency::EachQuorum),
    ("lo", Consistency::LocalOne),
    ("serial", Consistency::Serial),
    ("lserial", Consistency::LocalSerial),
];

fn flag(s: &str, yes: &str, no: &str) -> Option<bool> {
    if s == yes {
        Some(true)
    } else if s == no {
        Some(false)
    } else {
        None
    }
}

fn parse_config(s: &str) -> Option<Config> {
    let f: Vec<&str> = s.split('/').collect();
    if f.len() != 4 {
        return None;
    }
    Some(Config {
        pref: Pref::parse(f[0])?,
        token_aware: flag(f[1], "t", "n")?,
        failover: flag(f[2], "f", "n")?,
        shuffle: flag(f[3], "s", "x")?,
    })
}

fn parse_request(s: &str) -> Option<Request> {
    let f: Vec<&str> = s.split('/').collect();
    if f.len() != 6 {
        return None;
    }
    let pref = Pref::parse(f[5])?;
    if pref == Pref::Inherit {
        return None;
    }
    Some(Request {
        token: if f[0] == "-" { None } else { Some(f[0].parse().ok()?) },
        ks: if f[1] == "-" { None } else { Some(f[1].parse().ok()?) },
        lwt: flag(f[2], "1", "0")?,
        consistency: CONSISTENCIES.iter().find(|(n, _)| *n == f[3])?.1,
        serial: match f[4] {
            "-" => None,
            "s" => Some(SerialConsistency::Serial),
            "l" => Some(SerialConsistency::LocalSerial),
            _ => return None,
        },
        pref,
    })
}

// ---------------------------------------------------------------------------------------------
// cluster cache (cases of one topology are consecutive)

thread_local! {
    static CACHE: RefCell<HashMap<String, Rc<ClusterState>>> = RefCell::new(HashMap::new());
    /// States of refresh histories, with the pool-presence oracle messages found while building them.
    static HCACHE: RefCell<HashMap<String, (Rc<ClusterState>, Vec<String>)>> = RefCell::new(HashMap::new());
}

thread_local! {
    /// The runtime of the latency-aware cases: its clock is paused and only moves when a case advances it.
    static RTP: &'static tokio::runtime::Runtime = Box::leak(Box::new(
        tokio::runtime::Builder::new_current_thread().enable_all().start_paused(true).build().unwrap(),
    ));
    static RT5: tokio::runtime::Runtime =
        tokio::runtime::Builder::new_current_thread().enable_all().build().unwrap();
}

/// A tablet on the case line: first and last token (both inside) and the replicas `(host, shard)`.
type TabletSpec = (i64, i64, Vec<(u64, u32)>);

/// A cluster whose keyspace `k0` is tablet based with table `t` and the given tablets (fed one by one through
/// `update_tablets`, as tablet feedback arrives).
fn build_tablet_cluster(peers: &[PeerSpec], kss: &[Strat], tablets: &[TabletSpec]) -> ClusterState {
    let nodes: Vec<NodeSpec> = peers
        .iter()
        .map(|p| NodeSpec {
            host_id: host_id(p.id),
            datacenter: p.dc.map(dc_name),
            rack: p.rack.map(rack_name),
            tokens: p.tokens.clone(),
            enabled: !p.flags.contains('d'),
            connected: !p.flags.contains('x'),
        })
        .collect();
    let ksv: Vec<KeyspaceSpec> = kss
        .iter()
        .enumerate()
        .map(|(i, s)| KeyspaceSpec { name: format!("k{}", i), strategy: to_strategy(s) })
        .collect();
    let mut tables: HashMap<String, Vec<String>> = HashMap::new();
    tables.insert("k0".to_owned(), vec!["t".to_owned()]);
    let mut cs = RT5.with(|rt| rt.block_on(cluster_from_topology_with_tablets(&nodes, &ksv, &tables)));
    for (first, last, reps) in tablets {
        let r: Vec<(uuid::Uuid, u32)> = reps.iter().map(|(h, s)| (host_id(*h), *s)).collect();
        cs.verif_update_tablets(&[("k0".to_owned(), "t".to_owned(), *first, *last, r)]);
    }
    cs
}

/// The state of a `thplan` history (see `run`): `ClusterState::new` with per-peer verdicts, the tablets learnt one by one,
/// then filtered full / topology-only refreshes; keyspace `k0` stays tablet based with table `t` throughout.  After every
/// step the REAL pool presence of every peer must be the host filter's verdict (messages returned).
fn build_tablet_history(
    steps: &[(&str, &str)],
    parsed: &[Vec<PeerSpec>],
    kss: &[Strat],
    learnt: &[TabletSpec],
) -> (ClusterState, Vec<String>) {
    use scylla::verif_hooks::cluster::{cluster_refresh_topology_filtered, cluster_state_filtered};
    let specs = |peers: &[PeerSpec]| -> Vec<NodeSpec> {
        peers
            .iter()
            .map(|p| NodeSpec {
                host_id: host_id(p.id),
                datacenter: p.dc.map(dc_name),
                rack: p.rack.map(rack_name),
                tokens: p.tokens.clone(),
                enabled: !p.flags.contains('d'),
                connected: !p.flags.contains('x'),
            })
            .collect()
    };
    let accepted = |peers: &[PeerSpec]| -> Vec<uuid::Uuid> {
        peers.iter().filter(|p| p.flags.contains('a')).map(|p| host_id(p.id)).collect()
    };
    let ksv: Vec<KeyspaceSpec> =
        kss.iter().enumerate().map(|(i, s)| KeyspaceSpec { name: format!("k{}", i), strategy: to_strategy(s) }).collect();
    let mut tables: HashMap<String, Vec<String>> = HashMap::new();
    tables.insert("k0".to_owned(), vec!["t".to_owned()]);
    let none: HashMap<String, Vec<String>> = HashMap::new();
    let mut msgs: Vec<String> = Vec::new();
    let mut check_pools = |state: &ClusterState, i: usize| {
        for p in &parsed[i] {
            let real = node_has_pool(state, host_id(p.id));
            if real != Some(p.flags.contains('a')) {
                msgs.push(format!(
                    "after step {} ({}): node {} has_pool={:?} but the host filter's verdict was {}",
                    i + 1,
                    steps[i].0,
                    p.id,
                    real,
                    if p.flags.contains('a') { "accept" } else { "reject" }
                ));
            }
        }
    };
    let mut state =
        block_on(cluster_state_filtered(None, &specs(&parsed[0]), &ksv, &tables, &none, &[], &accepted(&parsed[0])));
    check_pools(&state, 0);
    for (first, last, reps) in learnt {
        let r: Vec<(uuid::Uuid, u32)> = reps.iter().map(|(h, s)| (host_id(*h), *s)).collect();
        state.verif_update_tablets(&[("k0".to_owned(), "t".to_owned(), *first, *last, r)]);
    }
    for i in 1..steps.len() {
        // the overrides of the previous state's nodes as its own metadata imposed them
        for node in state.get_nodes_info() {
            let id = node_id(node.host_id);
            let flags = parsed[i - 1].iter().find(|p| p.id == id).map(|p| p.flags.as_str()).unwrap_or("");
            node.verif_override_state(!flags.contains('d'), !flags.contains('x'));
        }
        state = if steps[i].0 == "F" {
            block_on(cluster_state_filtered(Some(&state), &specs(&parsed[i]), &ksv, &tables, &none, &[], &accepted(&parsed[i])))
        } else {
            block_on(cluster_refresh_topology_filtered(&state, &specs(&parsed[i]), &accepted(&parsed[i])))
        };
        check_pools(&state, i);
    }
    (state, msgs)
}

fn cluster(
    topo_s: &str,
    peers: &[PeerSpec],
    ks_s: &str,
    ks: &[Strat],
    sharders: &HashMap<uuid::Uuid, (u16, u8)>,
    tablet: Option<(&str, &[TabletSpec])>,
) -> Rc<ClusterState> {
    let key = match tablet {
        None => format!("{} {}", topo_s, ks_s),
        Some((t, _)) => format!("{} {} T {}", topo_s, ks_s, t),
    };
    CACHE.with(|c| {
        let mut c = c.borrow_mut();
        if let Some(cs) = c.get(&key) {
            return cs.clone();
        }
        if c.len() >= 16 {
            c.clear();
        }
        let cs = Rc::new(match tablet {
            None => build_cluster(peers, ks),
            Some((_, tablets)) => build_tablet_cluster(peers, ks, tablets),
        });
        // pool-less nodes get the sharder the flags word asks for (`Node::sharder()` answers it)
        set_sharders(&cs, sharders);
        c.insert(key, cs.clone());
        cs
    })
}

// ---------------------------------------------------------------------------------------------
// brute-force replica placement, written from the property statement of C04 (independent of the Lean model)

/// (token, index into peers), sorted by token (stable, metadata order).
fn ring_of(peers: &[PeerSpec], only_dc: Option<u32>) -> Vec<(i64, usize)> {
    let mut r: Vec<(i64, usize)> = Vec::new();
    for (i, p) in peers.iter().enumerate() {
        if only_dc.is_none() || p.dc == only_dc {
            for t in &p.tokens {
                r.push((norm_token(*t), i));
            }
        }
    }
    r.sort_by_key(|e| e.0);
    r
}

/// Distinct nodes clockwise from the token: owners of tokens >= tok in ascending order, then the rest.
fn clockwise_distinct(ring: &[(i64, usize)], tok: i64) -> Vec<usize> {
    let mut out: Vec<usize> = Vec::new();
    for (_, n) in ring.iter().filter(|e| e.0 >= tok).chain(ring.iter().filter(|e| e.0 < tok)) {
        if !out.contains(n) {
            out.push(*n);
        }
    }
    out
}

fn brute_nts_dc(peers: &[PeerSpec], tok: i64, dc: u32, rf: usize) -> Vec<usize> {
    let ring = ring_of(peers, Some(dc));
    let nodes = clockwise_distinct(&ring, tok);
    let mut racks: Vec<Option<u32>> = nodes.iter().map(|i| peers[*i].rack).collect();
    racks.sort();
    racks.dedup();
    let allowed_repeats = rf.saturating_sub(racks.len());
    let target = rf.min(nodes.len());
    let mut taken: Vec<usize> = Vec::new();
    let mut repeats = 0usize;
    for n in nodes {
        if taken.len() == target {
            break;
        }
        let rack_new = !taken.iter().any(|t| peers[*t].rack == peers[n].rack);
        if rack_new {
            taken.push(n);
        } else if repeats < allowed_repeats {
            repeats += 1;
            taken.push(n);
        }
    }
    taken
}

/// All replicas of the token (indices into peers).
fn brute_replicas(peers: &[PeerSpec], strat: &Strat, tok: i64) -> Vec<usize> {
    let simple = |rf: usize| -> Vec<usize> {
        clockwise_distinct(&ring_of(peers, None), tok).into_iter().take(rf).collect()
    };
    match strat {
        Strat::Simple(rf) => simple(*rf),
        Strat::Nts(v) => v.iter().flat_map(|(dc, rf)| brute_nts_dc(peers, tok, *dc, *rf)).collect(),
        Strat::Local | Strat::Other => simple(1),
    }
}

// ---------------------------------------------------------------------------------------------

/// Sharder of a peer from its flags word: `s<nr_shards>.<msb_ignore>` (absent = no sharder, shard 0).
fn sharder_of(flags: &str) -> Option<Option<(u16, u8)>> {
    match flags.split_once('s') {
        None => Some(None),
        Some((_, spec)) => {
            let (n, m) = spec.split_once('.')?;
            let (n, m): (u16, u8) = (n.parse().ok()?, m.parse().ok()?);
            if n == 0 || m >= 64 {
                return None;
            }
            Some(Some((n, m)))
        }
    }
}

/// ScyllaDB's shard-of-token rule as the C11 property states it (independent of `Sharder::shard_of`).
fn spec_shard(nr_shards: u16, msb: u8, tok: i64) -> u32 {
    let biased = (tok as i128 + (1i128 << 63)) as u64;
    let shifted = if msb == 0 { biased } else { biased << msb };
    ((shifted as u128 * nr_shards as u128) >> 64) as u32
}

type Obs = (u64, Option<u32>);

fn obs(o: &Obs) -> String {
    match o.1 {
        Some(s) => format!("{}@{}", o.0, s),
        None => o.0.to_string(),
    }
}

fn obs_list(v: &[Obs]) -> String {
    if v.is_empty() { "-".into() } else { v.iter().map(obs).collect::<Vec<_>>().join(",") }
}

pub fn run(case: &str, ctx: &mut Ctx) -> String {
    let w: Vec<&str> = case.split_whitespace().collect();
    let w0: Vec<&str> = w.clone();
    let is_plan = !w.is_empty() && (w[0] == "plan" || w[0].starts_with("plan."));
    let is_tplan = !w.is_empty() && (w[0] == "tplan" || w[0].starts_with("tplan."));
    let is_hplan = !w.is_empty() && (w[0] == "hplan" || w[0].starts_with("hplan."));
    // lplan: as plan, with latency awareness ON (an observation outside the property's quantifier): flag `p` = the node
    // is reported slow (100 ms, the others 1 ms), so it is penalised as soon as some node is not
    let is_lplan = !w.is_empty() && (w[0] == "lplan" || w[0].starts_with("lplan."));
    // xplan: `xplan <topology> <keyspaces> <config> <request> <flip> <samples>` - as plan, but the connected-override of the
    // nodes `flip` (host ids, comma separated) is inverted between the first and the second `Plan::next()`: `pick()` runs
    // on one liveness snapshot, the lazily called `fallback()` on another (model: `PlanRefresh.plan2`)
    let is_xplan = !w.is_empty() && (w[0] == "xplan" || w[0].starts_with("xplan."));
    // thplan: `thplan <n> (<mode> <topology>)xn <keyspaces> <config> <request> <tablets> <samples>` - a TABLET table (k0, t)
    // on a refresh HISTORY: step 1 is `N` (ClusterState::new with one host-filter verdict per peer), the tablets are learnt
    // right after it (update_tablets; replica host ids unknown at that moment stay unresolved until the next refresh), the
    // steps 2..n are filtered refreshes `F` (new_updated) / `G` (new_with_updated_topology) in which nodes are re-created
    // (datacenter / rack / address / verdict change), leave and join: TabletsInfo::perform_maintenance runs in every one.
    // Plans are computed on the last state and judged against the LAST metadata and the tablets that survive
    let is_thplan = !w.is_empty() && (w[0] == "thplan" || w[0].starts_with("thplan."));
    let mut is_tplan = is_tplan;
    let mut flip: Vec<u64> = Vec::new();
    let w: Vec<&str> = if is_xplan {
        if w.len() != 7 {
            return "bad-case".into();
        }
        if w[5] != "-" {
            for e in w[5].split(',') {
                let Ok(i) = e.parse::<u64>() else { return "bad-case".into() };
                flip.push(i);
            }
        }
        vec!["plan", w[1], w[2], w[3], w[4], w[6]]
    } else {
        w
    };
    let is_plan = is_plan || is_lplan || is_xplan;
    // kinds whose plan may name its FIRST node again (counted, not judged) and whose order is not judged
    let relaxed = is_lplan || is_xplan;
    // hplan: `hplan <n> (<mode> <topology>)xn <keyspaces> <config> <request> <samples>` - the cluster state is obtained by
    // a HISTORY of metadata refreshes (mode `n` = ClusterState::new, `r` / `t` = full / topology-only refresh with a
    // rejecting host filter, `R` / `T` = the same with an accepting one: the reuse / inherit arms of
    // calculate_new_topology); plans are computed on the last state and judged against the LAST metadata
    let mut history: Option<Vec<(&str, &str)>> = None;
    let w: Vec<&str> = if is_hplan {
        let Some(n) = w.get(1).and_then(|x| x.parse::<usize>().ok()) else { return "bad-case".into() };
        if n == 0 || w.len() != 2 + 2 * n + 4 {
            return "bad-case".into();
        }
        let steps: Vec<(&str, &str)> = (0..n).map(|i| (w[2 + 2 * i], w[3 + 2 * i])).collect();
        if !["n", "N"].contains(&steps[0].0) || steps[1..].iter().any(|(m, _)| !["r", "t", "R", "T", "F", "G"].contains(m)) {
            return "bad-case".into();
        }
        let last = steps[n - 1].1;
        let t = &w[2 + 2 * n..];
        history = Some(steps);
        vec!["plan", last, t[0], t[1], t[2], t[3]]
    } else if is_thplan {
        let Some(n) = w.get(1).and_then(|x| x.parse::<usize>().ok()) else { return "bad-case".into() };
        if n == 0 || n > 64 || w.len() != 2 + 2 * n + 5 {
            return "bad-case".into();
        }
        let steps: Vec<(&str, &str)> = (0..n).map(|i| (w[2 + 2 * i], w[3 + 2 * i])).collect();
        if steps[0].0 != "N" || steps[1..].iter().any(|(m, _)| !["F", "G"].contains(m)) {
            return "bad-case".into();
        }
        let last = steps[n - 1].1;
        let t = &w[2 + 2 * n..];
        history = Some(steps);
        is_tplan = true;
        vec!["tplan", last, t[0], t[1], t[2], t[3], t[4]]
    } else {
        w
    };
    if !((is_plan && w.len() == 6) || (is_tplan && w.len() == 7) || is_hplan) {
        return "bad-case".into();
    }
    let (Some(peers), Some(kss), Some(cfg), Some(rq), Ok(samples)) = (
        parse_topology(w[1]),
        parse_strategies(w[2]),
        parse_config(w[3]),
        parse_request(w[4]),
        w[w.len() - 1].parse::<usize>(),
    ) else {
        return "bad-case".into();
    };
    if samples == 0 || flip.iter().any(|i| !peers.iter().any(|p| p.id == *i)) {
        return "bad-case".into();
    }
    // tplan: the table (k0, t) is tablet based; `-` = no tablet yet, else tablets `first:last:id@shard,..` separated by
    // `|`, ascending and disjoint (a bare replica list = one tablet covering every token; known host ids only; a node
    // may be listed twice with different shards)
    let tablets: Option<Vec<TabletSpec>> = if is_tplan {
        if kss.is_empty() {
            return "bad-case".into();
        }
        let mut v: Vec<TabletSpec> = Vec::new();
        if w[5] != "-" {
            for t in w[5].split('|') {
                let f: Vec<&str> = t.split(':').collect();
                let (first, last, reps_s) = match f.len() {
                    1 => (i64::MIN + 1, i64::MAX, f[0]),
                    3 => {
                        let (Ok(a), Ok(b)) = (f[0].parse::<i64>(), f[1].parse::<i64>()) else { return "bad-case".into() };
                        (a, b, f[2])
                    }
                    _ => return "bad-case".into(),
                };
                if first == i64::MIN || first > last {
                    return "bad-case".into();
                }
                let mut reps: Vec<(u64, u32)> = Vec::new();
                for e in reps_s.split(',') {
                    let Some((i, sh)) = e.split_once('@') else { return "bad-case".into() };
                    let (Ok(i), Ok(sh)) = (i.parse::<u64>(), sh.parse::<u32>()) else { return "bad-case".into() };
                    if !is_thplan && !peers.iter().any(|p| p.id == i) {
                        return "bad-case".into();
                    }
                    reps.push((i, sh));
                }
                if let Some(prev) = v.last() {
                    if prev.1 >= first {
                        return "bad-case".into();
                    }
                }
                v.push((first, last, reps));
            }
        }
        Some(v)
    } else {
        None
    };
    // thplan: the tablets as learnt, and the ones the property lets survive the history - a tablet is dropped by the first
    // refresh after which one of its replicas is not a known node (removed, or still unknown); written from the doc comment
    // of TabletsInfo::perform_maintenance, independent of the Lean model
    let learnt: Vec<TabletSpec> = if is_thplan { tablets.clone().unwrap_or_default() } else { Vec::new() };
    let mut th_steps: Vec<Vec<PeerSpec>> = Vec::new();
    let tablets: Option<Vec<TabletSpec>> = if is_thplan {
        for (_, t) in history.as_ref().unwrap() {
            let Some(p) = parse_topology(t) else { return "bad-case".into() };
            if p.iter().any(|x| x.flags.contains('s') || x.flags.contains('a') == x.flags.contains('d')) {
                return "bad-case".into();
            }
            th_steps.push(p);
        }
        let known_in = |i: usize, id: u64| th_steps[i].iter().any(|p| p.id == id);
        if th_steps.len() == 1 && learnt.iter().any(|t| t.2.iter().any(|r| !known_in(0, r.0))) {
            return "bad-case".into();
        }
        Some(
            learnt
                .iter()
                .filter(|t| t.2.iter().all(|r| (1..th_steps.len()).all(|i| known_in(i, r.0))))
                .cloned()
                .collect(),
        )
    } else {
        tablets
    };
    let mut sharders: HashMap<uuid::Uuid, (u16, u8)> = HashMap::new();
    let mut sharder_by_id: HashMap<u64, (u16, u8)> = HashMap::new();
    for p in &peers {
        match sharder_of(&p.flags) {
            None => return "bad-case".into(),
            Some(None) => {}
            Some(Some(sh)) => {
                sharders.insert(host_id(p.id), sh);
                sharder_by_id.insert(p.id, sh);
            }
        }
    }
    let cs = match &history {
        Some(steps) if is_thplan => {
            let key = format!("TH {} {}", w0[1..w0.len() - 4].join(" "), w0[w0.len() - 2]);
            let (cs, msgs) = HCACHE.with(|c| {
                let mut c = c.borrow_mut();
                if let Some(e) = c.get(&key) {
                    return e.clone();
                }
                if c.len() >= 16 {
                    c.clear();
                }
                let e = build_tablet_history(steps, &th_steps, &kss, &learnt);
                let e = (Rc::new(e.0), e.1);
                c.insert(key, e.clone());
                e
            });
            for m in msgs {
                ctx.fail(m);
            }
            cs
        }
        None => cluster(w[1], &peers, w[2], &kss, &sharders, tablets.as_ref().map(|t| (w[5], t.as_slice()))),
        Some(steps) => {
            // no sharders on history states (node objects are re-created by refreshes)
            let mut parsed: Vec<Vec<PeerSpec>> = Vec::new();
            for (_, t) in steps {
                let Some(p) = parse_topology(t) else { return "bad-case".into() };
                if p.iter().any(|x| x.flags.contains('s')) {
                    return "bad-case".into();
                }
                parsed.push(p);
            }
            // a filtered refresh (`F` full, `G` topology only): one host-filter verdict per peer, flag `a` = accepted;
            // the rejected peers carry `d`, so that the override imposed afterwards agrees with the real `pool.is_some()`
            for (i, (m, _)) in steps.iter().enumerate() {
                if ["N", "F", "G"].contains(m) && parsed[i].iter().any(|x| x.flags.contains('a') == x.flags.contains('d')) {
                    return "bad-case".into();
                }
            }
            let key = format!("H {}", w0[1..w0.len() - 3].join(" "));
            // a history of filtered steps only (`N`, then `F` / `G`): no override ever disagrees with a real pool, so after
            // EVERY step the real `pool.is_some()` of every peer (hook `node_has_pool`) must be the host filter's verdict
            let all_filtered = steps.iter().all(|(m, _)| ["N", "F", "G"].contains(m));
            let (cs, pool_msgs) = HCACHE.with(|c| {
                let mut c = c.borrow_mut();
                if let Some(e) = c.get(&key) {
                    return e.clone();
                }
                if c.len() >= 16 {
                    c.clear();
                }
                let fetched: Vec<Option<Strat>> = kss.iter().cloned().map(Some).collect();
                let mut msgs: Vec<String> = Vec::new();
                let mut check_pools = |state: &ClusterState, i: usize| {
                    if all_filtered {
                        for p in &parsed[i] {
                            let real = node_has_pool(state, host_id(p.id));
                            if real != Some(p.flags.contains('a')) {
                                msgs.push(format!(
                                    "after step {} ({}): node {} has_pool={:?} but the host filter's verdict was {}",
                                    i + 1,
                                    steps[i].0,
                                    p.id,
                                    real,
                                    if p.flags.contains('a') { "accept" } else { "reject" }
                                ));
                            }
                        }
                    }
                };
                let mut state = if steps[0].0 == "N" {
                    build_state_filtered(None, &parsed[0], &fetched)
                } else {
                    build_cluster(&parsed[0], &kss)
                };
                check_pools(&state, 0);
                for i in 1..steps.len() {
                    state = match steps[i].0 {
                        "r" => refresh_cluster(&state, &parsed[i], &kss),
                        "t" => refresh_cluster_topology(&state, &parsed[i]),
                        "R" => refresh_cluster_accepting(&state, &parsed[i - 1], &parsed[i], &kss),
                        "F" => build_state_filtered(Some((&state, &parsed[i - 1])), &parsed[i], &fetched),
                        "G" => refresh_topology_filtered(&state, &parsed[i - 1], &parsed[i]),
                        _ => refresh_cluster_topology_accepting(&state, &parsed[i - 1], &parsed[i]),
                    };
                    check_pools(&state, i);
                }
                let e = (Rc::new(state), msgs);
                c.insert(key, e.clone());
                e
            });
            for m in pool_msgs {
                ctx.fail(m);
            }
            cs
        }
    };

    // the policy, through the public builder
    let mut b = DefaultPolicy::builder()
        .token_aware(cfg.token_aware)
        .permit_dc_failover(cfg.failover)
        .enable_shuffling_replicas(cfg.shuffle);
    b = match &cfg.pref {
        Pref::Inherit => b.inherit_location_preference(),
        Pref::Any => b.prefer_no_datacenter(),
        Pref::Dc(d) => b.prefer_datacenter(dc_name(*d)),
        Pref::DcRack(d, r) => b.prefer_datacenter_and_rack(dc_name(*d), rack_name(*r)),
    };
    // latency awareness needs a runtime (its updater task) and reads tokio's clock: a paused clock, entered for the rest of
    // this case
    let rtp: &'static tokio::runtime::Runtime = RTP.with(|r| *r);
    let _rtp_guard = if is_lplan { Some(rtp.enter()) } else { None };
    if is_lplan {
        b = b.latency_awareness(
            LatencyAwarenessBuilder::new()
                .exclusion_threshold(2.0)
                .minimum_measurements(2)
                .update_rate(std::time::Duration::from_millis(100))
                .retry_period(std::time::Duration::from_secs(100_000)),
        );
    }
    let policy: Arc<dyn LoadBalancingPolicy> = b.build();
    if is_lplan {
        // scripted latencies through the public reporting API, then let the updater compute the minimum average
        let empty = RoutingInfo::default();
        for _ in 0..5 {
            for n in cs.get_nodes_info() {
                let slow = peers.iter().any(|p| p.id == node_id(n.host_id) && p.flags.contains('p'));
                policy.on_request_success(&empty, std::time::Duration::from_millis(if slow { 100 } else { 1 }), n);
                rtp.block_on(tokio::time::advance(std::time::Duration::from_millis(10)));
            }
        }
        rtp.block_on(async {
            tokio::time::advance(std::time::Duration::from_millis(300)).await;
            tokio::task::yield_now().await;
        });
    }

    // the request
    let table: Option<TableSpec<'static>> = rq.ks.map(|k| TableSpec::owned(format!("k{}", k), "t".to_owned()));
    let req_pref = rq.pref.to_driver();
    let mut ri = RoutingInfo::default();
    ri.consistency = rq.consistency;
    ri.serial_consistency = rq.serial;
    ri.token = rq.token.map(Token::new);
    ri.table = table.as_ref();
    ri.is_confirmed_lwt = rq.lwt;
    ri.node_location_preference = &req_pref;

    // ---- what the property statement talks about, computed without the model
    let by_id: HashMap<u64, &PeerSpec> = peers.iter().map(|p| (p.id, p)).collect();
    let enabled = |p: &PeerSpec| !p.flags.contains('d');
    let live = |p: &PeerSpec| enabled(p) && !p.flags.contains('x');
    let pref = if cfg.pref == Pref::Inherit { rq.pref.clone() } else { cfg.pref.clone() };
    let permitted = |p: &PeerSpec| pref.dc().is_none() || cfg.failover || p.dc == pref.dc();
    let expected_set: Vec<u64> = {
        let mut v: Vec<u64> =
            peers.iter().filter(|p| !p.tokens.is_empty() && enabled(p) && permitted(p)).map(|p| p.id).collect();
        v.sort_unstable();
        v
    };
    // the code's own answer to "is this request routed as LWT", cross-checked with the statement's rule
    let lwt = ri.should_route_as_lwt();
    if lwt != (rq.lwt || matches!(rq.consistency, Consistency::Serial | Consistency::LocalSerial)) {
        ctx.fail("should_route_as_lwt disagrees with: confirmed LWT, or consistency SERIAL / LOCAL_SERIAL".to_string());
    }
    let strat: Option<&Strat> = if cfg.token_aware && rq.token.is_some() { rq.ks.and_then(|k| kss.get(k)) } else { None };
    let tok = rq.token.map(norm_token).unwrap_or(0);
    // a request on the tablet table (k0, t): the replicas of the tablet covering the token (none if no tablet does - the
    // ring is not consulted); any other request of a tplan case is routed by the ring
    let tablet_reps: Option<Vec<(u64, u32)>> = match (&tablets, rq.ks) {
        (Some(ts), Some(0)) => Some(
            ts.iter().find(|t| rq.token.is_some() && t.0 <= tok && tok <= t.1).map(|t| t.2.clone()).unwrap_or_default(),
        ),
        _ => None,
    };
    let replicas: Vec<u64> = match (&tablet_reps, strat) {
        // a tablet table: the replicas are the tablet's, the ring is not consulted
        (Some(reps), Some(_)) => reps.iter().map(|r| r.0).collect(),
        (None, Some(s)) => brute_replicas(&peers, s, tok).into_iter().map(|i| peers[i].id).collect(),
        _ => vec![],
    };
    // the deterministic replica order: ring order clockwise from the token, tablet definition order for a tablet table
    let ring_pos: HashMap<u64, usize> = match &tablet_reps {
        Some(reps) => {
            let mut m = HashMap::new();
            for (pos, r) in reps.iter().enumerate() {
                m.entry(r.0).or_insert(pos);
            }
            m
        }
        None => clockwise_distinct(&ring_of(&peers, None), tok)
            .into_iter()
            .enumerate()
            .map(|(pos, i)| (peers[i].id, pos))
            .collect(),
    };
    let nr_shards = |id: u64| -> u32 { sharder_by_id.get(&id).map(|s| s.0 as u32).unwrap_or(1) };
    // the shards a replica target of this node may carry: the tablet's, or the token's shard under the node's sharder
    let shards_of = |id: u64| -> Vec<u32> {
        match &tablet_reps {
            Some(reps) => reps.iter().filter(|r| r.0 == id).map(|r| r.1).collect(),
            None => vec![sharder_by_id.get(&id).map(|s| spec_shard(s.0, s.1, tok)).unwrap_or(0)],
        }
    };
    let multiplicity = |id: u64| -> usize {
        let mut v = shards_of(id);
        v.sort_unstable();
        v.dedup();
        v.len().max(1)
    };
    // coarse order classes of the statement: live replica in the local rack / local datacenter / elsewhere,
    // other live node, node believed down
    let class = |id: u64| -> u8 {
        let p = by_id[&id];
        if live(p) && replicas.contains(&id) {
            match (pref.dc(), pref.rack()) {
                (Some(d), Some(r)) if p.dc == Some(d) && p.rack == Some(r) => 0,
                (Some(d), _) if p.dc == Some(d) => 1,
                _ => 2,
            }
        } else if live(p) {
            3
        } else {
            4
        }
    };

    let mut out_samples: Vec<String> = Vec::new();
    let mut plans: Vec<Vec<(u64, u32)>> = Vec::new();
    let mut first_set: Option<Vec<u64>> = None;
    let mut first_rep: Option<Vec<Obs>> = None;
    let mut first_lwt: Option<Vec<Obs>> = None;
    let mut replica_prefix: Option<Vec<u64>> = None;
    let mut fixed_pick: Option<Option<Obs>> = None;
    let mut fixed_fb: Option<Vec<Obs>> = None;
    let mut la_dups = 0usize;
    for k in 0..samples {
        // xplan: invert / restore the connected-override of the `flip` nodes (the overrides are atomics of the node objects)
        let set_flipped = |on: bool| {
            for n in cs.get_nodes_info() {
                let id = node_id(n.host_id);
                if flip.contains(&id) {
                    if let Some(p) = peers.iter().find(|p| p.id == id) {
                        let connected = !p.flags.contains('x');
                        n.verif_override_state(!p.flags.contains('d'), if on { !connected } else { connected });
                    }
                }
            }
        };
        // every node the policy hands out must be the `Node` object of the CURRENT cluster state (a stale object - one a
        // refresh has replaced - carries the old datacenter, the old host-filter verdict and the old connection pool)
        let mut not_current: Vec<u64> = Vec::new();
        let mut see = |n: &Arc<scylla::cluster::Node>| {
            if !cs.get_node_by_host_id(n.host_id).is_some_and(|c| Arc::ptr_eq(c, n)) {
                not_current.push(node_id(n.host_id));
            }
        };
        let picked: Option<Obs> = policy.pick(&ri, &cs).map(|(n, s)| {
            see(n);
            (node_id(n.host_id), s)
        });
        set_flipped(true);
        let fb: Vec<Obs> = policy
            .fallback(&ri, &cs)
            .map(|(n, s)| {
                see(n);
                (node_id(n.host_id), s)
            })
            .collect();
        set_flipped(false);
        let plan: Vec<(u64, u32)> = {
            // first `next()` (= pick) on the first snapshot, everything after it (fallback is computed at the second
            // `next()`) on the second
            let mut it = Plan::new(&*policy, &ri, &cs);
            let mut v: Vec<(u64, u32)> = Vec::new();
            if let Some((n, shard)) = it.next() {
                see(n);
                v.push((node_id(n.host_id), shard));
                // (when `pick()` answers nothing - which does not depend on the random choices - `Plan` has already
                // created the LAZY fallback iterator inside this first `next()`; a flip would then be seen element by
                // element, which `plan2` does not model: no flip in that case)
                set_flipped(picked.is_some());
                v.extend(it.map(|(n, shard)| {
                    see(n);
                    (node_id(n.host_id), shard)
                }));
                set_flipped(false);
            }
            v
        };
        not_current.sort_unstable();
        not_current.dedup();
        for id in &not_current {
            ctx.fail(format!(
                "sample {}: the policy hands out a Node object of host {} that is not the one of the current cluster state (stale object)",
                k, id
            ));
        }
        let plan_ids: Vec<u64> = plan.iter().map(|x| x.0).collect();

        // ---- oracle on the plan
        for (i, (id, shard)) in plan.iter().enumerate() {
            // (latency awareness: the FIRST node may be named again - counted, not judged; nothing else may repeat)
            let before: &[(u64, u32)] = if relaxed && i > 0 { &plan[1..i] } else { &plan[..i] };
            if !relaxed && before.contains(&(*id, *shard)) {
                ctx.fail(format!("sample {}: target {}@{} twice in the plan {}", k, id, shard, nat_list(&plan_ids)));
            }
            if before.iter().filter(|j| j.0 == *id).count() >= multiplicity(*id) {
                ctx.fail(format!("sample {}: node {} more often in the plan than it has replica shards: {}", k, id, nat_list(&plan_ids)));
            }
            let Some(p) = by_id.get(id) else {
                ctx.fail(format!("sample {}: unknown node {} in the plan", k, id));
                continue;
            };
            if !enabled(p) {
                ctx.fail(format!("sample {}: disabled node {} in the plan {}", k, id, nat_list(&plan_ids)));
            }
            if !permitted(p) {
                ctx.fail(format!(
                    "sample {}: node {} outside the preferred datacenter dc{} although failover is not permitted: {}",
                    k,
                    id,
                    pref.dc().unwrap_or(0),
                    nat_list(&plan_ids)
                ));
            }
            if class(*id) > 2 && *shard >= nr_shards(*id) {
                ctx.fail(format!("sample {}: shard {} of node {} is not below its shard count {}", k, shard, id, nr_shards(*id)));
            }
            if class(*id) <= 2 && !shards_of(*id).contains(shard) && !(relaxed && (i == 0 || flip.contains(id))) {
                ctx.fail(format!(
                    "sample {}: replica {} is planned on shard {}, the token's / tablet's shard there is {:?}",
                    k,
                    id,
                    shard,
                    shards_of(*id)
                ));
            }
        }
        for id in &expected_set {
            if !plan_ids.contains(id) {
                ctx.fail(format!("sample {}: enabled token-owning node {} missing from the plan {}", k, id, nat_list(&plan_ids)));
            }
        }
        if relaxed && plan_ids.len() > 1 && plan_ids[1..].contains(&plan_ids[0]) {
            la_dups += 1;
            // two snapshots: only a picked node whose own liveness was flipped can come back (plan2_nodup_of_stable_pick)
            if is_xplan && !flip.contains(&plan_ids[0]) {
                ctx.fail(format!(
                    "sample {}: node {} twice in the plan {} although its own liveness did not change",
                    k,
                    plan_ids[0],
                    nat_list(&plan_ids)
                ));
            }
        }
        if !relaxed && plan_ids.iter().all(|id| by_id.contains_key(id)) {
            for i in 1..plan_ids.len() {
                if class(plan_ids[i - 1]) > class(plan_ids[i]) {
                    ctx.fail(format!(
                        "sample {}: order violated at position {}: node {} (class {}) before node {} (class {}) in {}",
                        k,
                        i,
                        plan_ids[i - 1],
                        class(plan_ids[i - 1]),
                        plan_ids[i],
                        class(plan_ids[i]),
                        nat_list(&plan_ids)
                    ));
                    break;
                }
            }
            let prefix: Vec<u64> = plan_ids.iter().copied().take_while(|id| class(*id) <= 2).collect();
            if lwt {
                // ring order within each replica class
                // position in the deterministic order: of the node on the ring walk, of the (node, shard) entry in a tablet
                let pos = |i: usize| -> usize {
                    match &tablet_reps {
                        Some(reps) => reps.iter().position(|r| *r == plan[i]).unwrap_or(usize::MAX),
                        None => ring_pos.get(&plan[i].0).copied().unwrap_or(0),
                    }
                };
                for i in 1..prefix.len() {
                    if class(prefix[i - 1]) == class(prefix[i]) && pos(i - 1) > pos(i) {
                        ctx.fail(format!("sample {}: LWT replicas not in ring order: {}", k, nat_list(&prefix)));
                        break;
                    }
                }
            }
            // LWT, or replica shuffling disabled: one replica order for all plans of this policy
            if lwt || !cfg.shuffle {
                match &replica_prefix {
                    None => replica_prefix = Some(prefix),
                    Some(p0) => {
                        if *p0 != prefix {
                            ctx.fail(format!(
                                "sample {}: {} replica prefix {} differs from the first sample's {}",
                                k,
                                if lwt { "LWT" } else { "shuffling-disabled" },
                                nat_list(&prefix),
                                nat_list(p0)
                            ));
                        }
                    }
                }
            }
        }
        // the fallback iterator itself must not repeat a node, and a shard it supplies is the token's shard
        for (i, (id, shard)) in fb.iter().enumerate() {
            if fb[..i].iter().any(|(j, sj)| j == id && (sj.is_none() || shard.is_none() || sj == shard)) {
                ctx.fail(format!("sample {}: target of node {} twice in fallback {}", k, id, obs_list(&fb)));
            }
            if let Some(s) = shard {
                if !shards_of(*id).contains(s) {
                    ctx.fail(format!("sample {}: fallback gives node {} shard {}, expected one of {:?}", k, id, s, shards_of(*id)));
                }
            }
        }
        if !cfg.shuffle && !relaxed {
            let fixed_p = picked.filter(|p| p.1.is_some());
            let fixed_f: Vec<Obs> = fb.iter().filter(|o| o.1.is_some()).cloned().collect();
            match (&fixed_pick, &fixed_fb) {
                (Some(p0), Some(f0)) => {
                    if *p0 != fixed_p || *f0 != fixed_f {
                        ctx.fail(format!(
                            "sample {}: shuffling disabled, but the replica pick / replica order changed: {} / {}",
                            k,
                            fixed_p.as_ref().map(obs).unwrap_or_else(|| "-".into()),
                            obs_list(&fixed_f)
                        ));
                    }
                }
                _ => {
                    fixed_pick = Some(fixed_p);
                    fixed_fb = Some(fixed_f);
                }
            }
        }

        if first_set.is_none() {
            let mut s = plan_ids.clone();
            s.sort_unstable();
            if relaxed {
                s.dedup();
            }
            first_set = Some(s);
            let mut r: Vec<Obs> = fb.iter().filter(|o| o.1.is_some()).cloned().collect();
            first_lwt = Some(r.clone());
            r.sort_unstable();
            first_rep = Some(r);
        }
        out_samples.push(format!(
            "P{}/F{}/L{}",
            picked.as_ref().map(obs).unwrap_or_else(|| "-".into()),
            obs_list(&fb),
            obs_list(&plan.iter().map(|(i, s)| (*i, Some(*s))).collect::<Vec<_>>())
        ));
        plans.push(plan);
    }
    // developer statistics (C05_STATS=1): how many cases are sensitive to which breaking change
    if std::env::var_os("C05_STATS").is_some() {
        let in_ring: Vec<&PeerSpec> = peers.iter().filter(|p| !p.tokens.is_empty()).collect();
        let cls: Vec<u8> = expected_set.iter().map(|id| class(*id)).collect();
        let count = |c: u8| cls.iter().filter(|x| **x == c).count();
        let mut tags: Vec<&str> = Vec::new();
        if pref.dc().is_some() && !cfg.failover && in_ring.iter().any(|p| live(p) && replicas.contains(&p.id) && p.dc != pref.dc()) {
            tags.push("live-remote-replica-while-failover-forbidden");
        }
        if pref.dc().is_some() && !cfg.failover && in_ring.iter().any(|p| enabled(p) && p.dc != pref.dc()) {
            tags.push("enabled-remote-node-while-failover-forbidden");
        }
        if (0..3).any(|c| count(c) >= 2) {
            tags.push(if lwt { "lwt-two-replicas-in-one-class" } else { "shuffle-two-replicas-in-one-class" });
        }
        if count(0) > 0 && count(1) > 0 {
            tags.push("rack-replicas-and-dc-replicas");
        }
        if count(1) > 0 && count(2) > 0 {
            tags.push("dc-replicas-and-remote-replicas");
        }
        if (count(0) + count(1) + count(2)) > 0 && count(3) > 0 {
            tags.push("replicas-and-other-live-nodes");
        }
        if count(3) > 0 && count(4) > 0 {
            tags.push("live-and-down-nodes");
        }
        if in_ring.iter().any(|p| !enabled(p)) {
            tags.push("disabled-token-owner");
        }
        if in_ring.iter().any(|p| enabled(p) && !live(p) && replicas.contains(&p.id)) {
            tags.push("down-replica");
        }
        if let (Some(d), Some(r)) = (pref.dc(), pref.rack()) {
            let loc: Vec<&&PeerSpec> = in_ring.iter().filter(|p| p.dc == Some(d) && live(p) && !replicas.contains(&p.id)).collect();
            if loc.iter().any(|p| p.rack == Some(r)) && loc.iter().any(|p| p.rack != Some(r)) {
                tags.push("live-nodes-in-and-out-of-the-rack");
            }
        }
        if out_samples.iter().any(|s| s.starts_with("P-/")) && !expected_set.is_empty() {
            tags.push("pick-answers-nothing-plan-nonempty");
        }
        if expected_set.is_empty() {
            tags.push("empty-plan");
        }
        eprintln!("C05STAT {}", tags.join(" "));
    }
    // `det`: the plan when every sample gave the same one (shards of shard-less targets are random: ids only there)
    let all_same = plans.windows(2).all(|w| w[0].iter().map(|x| x.0).eq(w[1].iter().map(|x| x.0)));
    let det = if all_same { nat_list(&plans[0].iter().map(|x| x.0).collect::<Vec<_>>()) } else { "*".to_owned() };
    let mut line = format!(
        "set={} rep={} lwt={} det={}{} |",
        nat_list(&first_set.unwrap_or_default()),
        obs_list(&first_rep.unwrap_or_default()),
        if lwt { obs_list(&first_lwt.unwrap_or_default()) } else { "x".into() },
        det,
        if relaxed { format!(" dups={}", la_dups) } else { String::new() }
    );
    for s in out_samples {
        line.push(' ');
        line.push_str(&s);
    }
    line
}

// ---------------------------------------------------------------------------------------------
// generators

fn dcs_of(peers: &[PeerSpec]) -> Vec<u32> {
    let mut d: Vec<u32> = peers.iter().filter_map(|p| p.dc).collect();
    d.sort_unstable();
    d.dedup();
    d
}

fn racks_of(peers: &[PeerSpec]) -> Vec<u32> {
    let mut d: Vec<u32> = peers.iter().filter_map(|p| p.rack).collect();
    d.sort_unstable();
    d.dedup();
    d
}

fn gen_strategy(rng: &mut Rng, peers: &[PeerSpec]) -> Strat {
    let n = peers.iter().filter(|p| !p.tokens.is_empty()).count();
    match rng.below(12) {
        0 => Strat::Local,
        1 => Strat::Other,
        2..=5 => Strat::Simple(match rng.below(6) {
            0 => 0,
            1 => n + 1,
            _ => rng.range(1, n.max(1) as i64) as usize,
        }),
        _ => {
            let mut v: Vec<(u32, usize)> = Vec::new();
            for d in dcs_of(peers) {
                if rng.chance(5, 6) {
                    let nodes = peers.iter().filter(|p| p.dc == Some(d) && !p.tokens.is_empty()).count();
                    v.push((d, match rng.below(6) {
                        0 => 0,
                        1 => nodes + 1,
                        _ => rng.range(1, nodes.max(1) as i64) as usize,
                    }));
                }
            }
            if rng.chance(1, 8) {
                v.push((77, rng.below(3) as usize));
            }
            if rng.chance(1, 3) {
                rng.shuffle(&mut v);
            }
            Strat::Nts(v)
        }
    }
}

/// A location preference: mostly a datacenter / rack of the topology, sometimes one that does not exist.
fn gen_pref(rng: &mut Rng, peers: &[PeerSpec], allow_inherit: bool) -> Pref {
    let dcs = dcs_of(peers);
    let racks = racks_of(peers);
    let dc = |rng: &mut Rng| if dcs.is_empty() || rng.chance(1, 10) { 77 } else { *rng.pick(&dcs) };
    match rng.below(if allow_inherit { 8 } else { 6 }) {
        0 => Pref::Any,
        1 | 2 => Pref::Dc(dc(rng)),
        3..=5 => {
            let d = dc(rng);
            // a rack that exists in that datacenter, most of the time
            let in_dc: Vec<u32> = peers.iter().filter(|p| p.dc == Some(d)).filter_map(|p| p.rack).collect();
            let r = if !in_dc.is_empty() && rng.chance(4, 5) {
                *rng.pick(&in_dc)
            } else if !racks.is_empty() && rng.chance(1, 2) {
                *rng.pick(&racks)
            } else {
                55
            };
            Pref::DcRack(d, r)
        }
        _ => Pref::Inherit,
    }
}

fn gen_config(rng: &mut Rng, peers: &[PeerSpec]) -> String {
    format!(
        "{}/{}/{}/{}",
        gen_pref(rng, peers, true).fmt(),
        if rng.chance(5, 6) { "t" } else { "n" },
        if rng.chance(1, 2) { "f" } else { "n" },
        if rng.chance(3, 4) { "s" } else { "x" }
    )
}

fn gen_request(rng: &mut Rng, peers: &[PeerSpec], nks: usize) -> String {
    let toks = query_tokens(peers);
    let tok = if rng.chance(1, 8) { "-".to_owned() } else { rng.pick(&toks).to_string() };
    let ks = match rng.below(10) {
        0 => "-".to_owned(),
        1 => (nks + 3).to_string(),
        _ if nks > 0 => rng.below(nks as u64).to_string(),
        _ => "0".to_owned(),
    };
    let lwt = rng.chance(1, 3);
    let cons = if rng.chance(1, 5) { *rng.pick(&["serial", "lserial"]) } else { CONSISTENCIES[rng.below(9) as usize].0 };
    let serial = *rng.pick(&["-", "s", "l"]);
    format!("{}/{}/{}/{}/{}/{}", tok, ks, if lwt { 1 } else { 0 }, cons, serial, gen_pref(rng, peers, false).fmt())
}

/// Random liveness flags: mostly live, some down, some disabled (and disabled + down, which must behave as disabled).
fn random_flags(rng: &mut Rng, peers: &mut [PeerSpec]) {
    let mode = rng.below(6);
    for p in peers.iter_mut() {
        p.flags = match mode {
            0 => String::new(),                                   // everything live
            1 => if rng.chance(1, 2) { "x".into() } else { String::new() },
            2 => "x".into(),                                      // everything down
            _ => match rng.below(8) {
                0 | 1 => "x".into(),
                2 => "d".into(),
                3 => "dx".into(),
                _ => String::new(),
            },
        };
    }
}

/// Gives most nodes a sharder (`s<nr_shards>.<msb_ignore>` appended to the flags word), so that the shards the policy
/// supplies for replicas are real numbers (shard-less peers answer shard 0).
fn add_sharders(rng: &mut Rng, peers: &mut [PeerSpec]) {
    for p in peers.iter_mut() {
        if rng.chance(3, 4) {
            let n = *rng.pick(&[1u32, 2, 3, 4, 7, 8, 16, 30, 64, 255]);
            let msb = *rng.pick(&[0u32, 12, 12, 12, 1, 63]);
            p.flags.push_str(&format!("s{}.{}", n, msb));
        }
    }
}

/// The `idx`-th assignment of {live, down, disabled} to the nodes (base 3).
fn flags_by_index(peers: &mut [PeerSpec], mut idx: usize) {
    for p in peers.iter_mut() {
        p.flags = match idx % 3 {
            0 => String::new(),
            1 => "x".into(),
            _ => "d".into(),
        };
        idx /= 3;
    }
}

fn pow3(n: usize) -> usize {
    3usize.pow(n as u32)
}

/// A grid of configurations x request shapes for one flagged topology.
fn grid(rng: &mut Rng, peers: &[PeerSpec], kss: &[Strat], samples: usize, stride: usize, emit: &mut dyn FnMut(String)) {
    let topo = fmt_topology(peers);
    let ks_s = fmt_strategies(kss);
    let dcs = dcs_of(peers);
    let d0 = dcs.first().copied().unwrap_or(0);
    let r0 = peers.iter().filter(|p| p.dc == Some(d0)).filter_map(|p| p.rack).next().unwrap_or(0);
    let prefs = ["a".to_owned(), format!("d{}", d0), format!("r{}.{}", d0, r0), "i".to_owned()];
    let toks = query_tokens(peers);
    let mut n = 0usize;
    for pref in &prefs {
        for ta in ["t", "n"] {
            for fo in ["f", "n"] {
                for (lwt, tokp) in [(0, true), (1, true), (0, false)] {
                    n += 1;
                    if n % stride != 0 {
                        continue;
                    }
                    let tok = if tokp { rng.pick(&toks).to_string() } else { "-".into() };
                    let ks = if kss.is_empty() { 0 } else { rng.below(kss.len() as u64) };
                    let rp = if pref == "i" { format!("r{}.{}", d0, r0) } else { "a".to_owned() };
                    emit(format!(
                        "plan {} {} {}/{}/{}/s {}/{}/{}/quorum/-/{} {}",
                        topo, ks_s, pref, ta, fo, tok, ks, lwt, rp, samples
                    ));
                }
            }
        }
    }
}

/// `plan` -> `plan.<pref kind><token-aware><failover><L|N>`: the first word doubles as the input-kind tag of the
/// evidence histogram (both sides accept any first word `plan` or `plan.<tag>`).
fn tagged(line: String) -> String {
    let w: Vec<&str> = line.split(' ').collect();
    if w[0] == "hplan" && w.len() >= 8 {
        // tag from the configuration / request words, which sit before the sample count
        let k = w.len();
        let t = tagged(format!("plan - - {} {} {}", w[k - 3], w[k - 2], w[k - 1]));
        let tag = t.split(' ').next().unwrap_or("plan").trim_start_matches("plan").to_owned();
        return format!("hplan{} {}", tag, w[1..].join(" "));
    }
    if w[0] == "thplan" && w.len() >= 9 {
        let k = w.len();
        let t = tagged(format!("plan - - {} {} {}", w[k - 4], w[k - 3], w[k - 1]));
        let tag = t.split(' ').next().unwrap_or("plan").trim_start_matches("plan").to_owned();
        return format!("thplan{} {}", tag, w[1..].join(" "));
    }
    if w.len() == 7 && w[0] == "xplan" {
        let t = tagged(format!("plan {} {} {} {} {}", w[1], w[2], w[3], w[4], w[6]));
        let tag = t.split(' ').next().unwrap_or("plan").trim_start_matches("plan").to_owned();
        return format!("xplan{} {}", tag, w[1..].join(" "));
    }
    if !((w.len() == 6 && (w[0] == "plan" || w[0] == "lplan")) || (w.len() == 7 && w[0] == "tplan")) {
        return line;
    }
    let (Some(cfg), Some(rq)) = (parse_config(w[3]), parse_request(w[4])) else {
        return line;
    };
    let kind = |p: &Pref| match p {
        Pref::Inherit => "i",
        Pref::Any => "a",
        Pref::Dc(_) => "d",
        Pref::DcRack(..) => "r",
    };
    let pref = if cfg.pref == Pref::Inherit { format!("i{}", kind(&rq.pref)) } else { kind(&cfg.pref).to_owned() };
    let lwt = rq.lwt || matches!(rq.consistency, Consistency::Serial | Consistency::LocalSerial);
    let aware = cfg.token_aware && rq.token.is_some() && rq.ks.is_some();
    format!(
        "{}.{}{}{}{} {}",
        w[0],
        pref,
        if aware { "T" } else { "U" },
        if cfg.failover { "f" } else { "n" },
        if lwt { "L" } else { "N" },
        w[1..].join(" ")
    )
}

pub fn generate(rng: &mut Rng, tier: Tier, emit0: &mut dyn FnMut(String)) {
    let emit: &mut dyn FnMut(String) = &mut |line: String| emit0(tagged(line));
    let quick = tier == Tier::Quick;
    let samples = if quick { 20 } else { 40 };

    // 1. exhaustive liveness: every {live, down, disabled} assignment of small topologies x a configuration grid
    let small = TopoShape { max_nodes: if quick { 4 } else { 6 }, max_dcs: 2, max_racks: 2, max_vnodes: 2, dups: 0 };
    let n_small = if quick { 4 } else { 12 };
    let mut done = 0;
    while done < n_small {
        let mut peers = gen_topology(rng, small);
        if peers.len() < 3 {
            continue;
        }
        done += 1;
        let kss: Vec<Strat> = (0..2).map(|_| gen_strategy(rng, &peers)).collect();
        let total = pow3(peers.len());
        for idx in 0..total {
            flags_by_index(&mut peers, idx);
            add_sharders(rng, &mut peers);
            // every configuration for a few assignments, a stride of the grid for the others
            let stride = if idx % 9 == 4 { 1 } else { 7 };
            grid(rng, &peers, &kss, if quick { 8 } else { 12 }, stride, emit);
        }
    }

    // 2. random topologies (as C04) x liveness x policy settings x request shapes
    let shape = TopoShape { max_nodes: 9, max_dcs: 3, max_racks: 3, max_vnodes: 3, dups: 1 };
    let n_topo = if quick { 1200 } else { 20000 };
    for _ in 0..n_topo {
        let mut peers = gen_topology(rng, shape);
        let nks = rng.range(0, 3) as usize;
        let kss: Vec<Strat> = (0..nks).map(|_| gen_strategy(rng, &peers)).collect();
        let ks_s = fmt_strategies(&kss);
        for _ in 0..3 {
            if peers.len() <= 6 && rng.chance(1, 3) {
                let idx = rng.below(pow3(peers.len()) as u64) as usize;
                flags_by_index(&mut peers, idx);
            } else {
                random_flags(rng, &mut peers);
            }
            add_sharders(rng, &mut peers);
            let topo = fmt_topology(&peers);
            for _ in 0..6 {
                emit(format!(
                    "plan {} {} {} {} {}",
                    topo,
                    ks_s,
                    gen_config(rng, &peers),
                    gen_request(rng, &peers, nks),
                    samples
                ));
            }
        }
    }

    // 2b. replica-rich: mostly live nodes, replication factors >= 2, token-aware requests - several live replicas per
    // class, so that shuffling, the LWT order and the rack / datacenter / remote grouping of replicas are all visible
    let rich = TopoShape { max_nodes: 10, max_dcs: 2, max_racks: 3, max_vnodes: 3, dups: 1 };
    for _ in 0..if quick { 1200 } else { 25000 } {
        let mut peers = gen_topology(rng, rich);
        if peers.len() < 4 {
            continue;
        }
        let n = peers.iter().filter(|p| !p.tokens.is_empty()).count();
        let dcs = dcs_of(&peers);
        let kss: Vec<Strat> = vec![
            Strat::Simple(rng.range(2, n.max(2) as i64) as usize),
            Strat::Nts(
                dcs.iter()
                    .map(|d| {
                        let nodes = peers.iter().filter(|p| p.dc == Some(*d) && !p.tokens.is_empty()).count();
                        (*d, rng.range(1, nodes.max(1) as i64 + 1) as usize)
                    })
                    .collect(),
            ),
        ];
        let ks_s = fmt_strategies(&kss);
        for p in peers.iter_mut() {
            p.flags = match rng.below(25) {
                0..=2 => "x".into(),
                3 | 4 => "d".into(),
                _ => String::new(),
            };
        }
        add_sharders(rng, &mut peers);
        let topo = fmt_topology(&peers);
        let toks = query_tokens(&peers);
        for _ in 0..6 {
            let cfg = format!(
                "{}/t/{}/{}",
                gen_pref(rng, &peers, true).fmt(),
                if rng.chance(1, 2) { "f" } else { "n" },
                if rng.chance(3, 4) { "s" } else { "x" }
            );
            let (lwt, cons) = match rng.below(4) {
                0 => (1, "quorum"),
                1 => (0, *rng.pick(&["serial", "lserial"])),
                _ => (0, *rng.pick(&["one", "lq", "quorum", "all"])),
            };
            emit(format!(
                "plan {} {} {} {}/{}/{}/{}/{}/{} {}",
                topo,
                ks_s,
                cfg,
                rng.pick(&toks),
                rng.below(2),
                lwt,
                cons,
                *rng.pick(&["-", "s", "l"]),
                gen_pref(rng, &peers, false).fmt(),
                samples
            ));
        }
    }

    // 3. larger rings: many nodes, random liveness
    let big = TopoShape { max_nodes: 14, max_dcs: 3, max_racks: 4, max_vnodes: 4, dups: 2 };
    for _ in 0..if quick { 150 } else { 1500 } {
        let mut peers = gen_topology(rng, big);
        let kss: Vec<Strat> = (0..2).map(|_| gen_strategy(rng, &peers)).collect();
        random_flags(rng, &mut peers);
        add_sharders(rng, &mut peers);
        let topo = fmt_topology(&peers);
        for _ in 0..4 {
            emit(format!(
                "plan {} {} {} {} {}",
                topo,
                fmt_strategies(&kss),
                gen_config(rng, &peers),
                gen_request(rng, &peers, 2),
                samples
            ));
        }
    }

    // 3b. tablet tables: the replicas come from the tablet map (one tablet covering every token), the ring is not
    // consulted; replicas may be down / disabled / without tokens, a node may be listed twice with different shards
    for _ in 0..if quick { 500 } else { 8000 } {
        let mut peers = gen_topology(rng, rich);
        if peers.len() < 3 {
            continue;
        }
        let kss: Vec<Strat> = (0..2).map(|_| gen_strategy(rng, &peers)).collect();
        for p in peers.iter_mut() {
            p.flags = match rng.below(12) {
                0 | 1 => "x".into(),
                2 => "d".into(),
                _ => String::new(),
            };
        }
        add_sharders(rng, &mut peers);
        let topo = fmt_topology(&peers);
        let toks = query_tokens(&peers);
        for _ in 0..4 {
            let gen_reps = |rng: &mut Rng| -> String {
                let k = rng.range(1, 4.min(peers.len() as i64)) as usize;
                let mut reps: Vec<(u64, u64)> = Vec::new();
                let mut idx: Vec<usize> = (0..peers.len()).collect();
                rng.shuffle(&mut idx);
                for i in idx.into_iter().take(k) {
                    reps.push((peers[i].id, rng.below(9)));
                }
                if rng.chance(1, 5) {
                    // the same node once more, with another shard
                    let (id, sh) = *rng.pick(&reps);
                    reps.push((id, sh + 1 + rng.below(3)));
                }
                reps.iter().map(|(i, s)| format!("{}@{}", i, s)).collect::<Vec<_>>().join(",")
            };
            let tablet = match rng.below(12) {
                0 => "-".to_owned(),
                // several tablets cut at ring tokens, some ranges left uncovered (a token there has no replicas)
                1..=4 => {
                    let mut cuts: Vec<i64> = (0..rng.range(1, 4)).map(|_| *rng.pick(&toks)).filter(|t| *t > i64::MIN + 1).collect();
                    cuts.sort_unstable();
                    cuts.dedup();
                    let mut parts: Vec<String> = Vec::new();
                    let mut first = i64::MIN + 1;
                    for c in cuts.iter().chain(std::iter::once(&i64::MAX)) {
                        if *c < first {
                            continue;
                        }
                        if rng.chance(4, 5) {
                            parts.push(format!("{}:{}:{}", first, c, gen_reps(rng)));
                        }
                        if *c == i64::MAX {
                            break;
                        }
                        first = c + 1;
                    }
                    if parts.is_empty() { "-".to_owned() } else { parts.join("|") }
                }
                _ => gen_reps(rng),
            };
            let cfg = format!(
                "{}/{}/{}/{}",
                gen_pref(rng, &peers, true).fmt(),
                if rng.chance(7, 8) { "t" } else { "n" },
                if rng.chance(1, 2) { "f" } else { "n" },
                if rng.chance(3, 4) { "s" } else { "x" }
            );
            let (lwt, cons) = match rng.below(4) {
                0 => (1, "quorum"),
                1 => (0, *rng.pick(&["serial", "lserial"])),
                _ => (0, *rng.pick(&["one", "lq", "quorum", "all"])),
            };
            let tok = if rng.chance(1, 10) { "-".to_owned() } else { rng.pick(&toks).to_string() };
            emit(format!(
                "tplan {} {} {} {}/{}/{}/{}/-/{} {} {}",
                topo,
                fmt_strategies(&kss),
                cfg,
                tok,
                // mostly the tablet table's keyspace k0; also the ring keyspace k1, an unknown keyspace, no table
                match rng.below(10) {
                    0 => "1".to_owned(),
                    1 => "5".to_owned(),
                    2 => "-".to_owned(),
                    _ => "0".to_owned(),
                },
                lwt,
                cons,
                gen_pref(rng, &peers, false).fmt(),
                tablet,
                samples
            ));
        }
    }

    // 3c. refresh histories: the cluster state the plans are computed on is the result of ClusterState::new followed by
    // 1..3 metadata refreshes in which nodes change rack (the stale-rack hazard of the node-reuse arms), datacenter,
    // position (= address: the inherit arm), tokens, leave and join, get enabled / disabled / down; rejecting (r, t) and
    // accepting (R, T) host filters.  Judged against the LAST metadata.
    let hshape = TopoShape { max_nodes: 8, max_dcs: 2, max_racks: 3, max_vnodes: 2, dups: 0 };
    for _ in 0..if quick { 350 } else { 6000 } {
        let mut peers = gen_topology(rng, hshape);
        if peers.len() < 3 {
            continue;
        }
        let kss: Vec<Strat> = vec![gen_strategy(rng, &peers), gen_strategy(rng, &peers)];
        let flag = |rng: &mut Rng| -> String {
            match rng.below(10) {
                0 => "x".into(),
                1 => "d".into(),
                _ => String::new(),
            }
        };
        // half of the histories consist of filtered steps only (`N`, then `F` / `G`): there the harness also asserts the
        // REAL pool presence of every node after every step
        let all_filtered = rng.chance(1, 2);
        let verdict_flags = |rng: &mut Rng| -> String {
            match rng.below(10) {
                0..=2 => "d".into(),
                3 => "ax".into(),
                _ => "a".into(),
            }
        };
        for p in peers.iter_mut() {
            p.flags = if all_filtered { verdict_flags(rng) } else { flag(rng) };
        }
        let mut steps: Vec<String> = vec![format!("{} {}", if all_filtered { "N" } else { "n" }, fmt_topology(&peers))];
        let next_id = peers.iter().map(|p| p.id).max().unwrap_or(0) + 1;
        for step in 0..rng.range(1, 3) {
            // mutate the metadata
            for p in peers.iter_mut() {
                match rng.below(12) {
                    // the rack changes, the datacenter stays (node objects may be reused / inherited)
                    0..=2 => p.rack = Some(rng.below(3) as u32),
                    3 => p.rack = None,
                    4 => p.dc = Some(rng.below(2) as u32),
                    5 => p.flags = flag(rng),
                    _ => {}
                }
            }
            match rng.below(8) {
                0 if peers.len() > 3 => {
                    let i = rng.below(peers.len() as u64) as usize;
                    peers.remove(i);
                }
                1 => peers.push(PeerSpec {
                    id: next_id + step as u64,
                    dc: Some(rng.below(2) as u32),
                    rack: Some(rng.below(3) as u32),
                    tokens: vec![rng.range(100, 100_000) * 7 + step],
                    flags: flag(rng),
                }),
                // positions change: the address of every later peer changes
                2 | 3 => rng.shuffle(&mut peers),
                _ => {}
            }
            let mode = if all_filtered { *rng.pick(&["F", "G"]) } else { *rng.pick(&["R", "T", "r", "t", "F", "F", "G", "G"]) };
            if mode == "F" || mode == "G" {
                // one host-filter verdict per peer: accepted (`a`, possibly down) or rejected (`d`)
                let mut with_verdicts = peers.clone();
                for p in with_verdicts.iter_mut() {
                    p.flags = match rng.below(10) {
                        0..=2 => "d".into(),
                        3 => "ax".into(),
                        _ => "a".into(),
                    };
                }
                peers = with_verdicts;
            } else {
                for p in peers.iter_mut() {
                    p.flags = p.flags.replace('a', "");
                }
            }
            steps.push(format!("{} {}", mode, fmt_topology(&peers)));
        }
        let toks = query_tokens(&peers);
        for _ in 0..5 {
            let pref = match rng.below(6) {
                0 => gen_pref(rng, &peers, true),
                1 => Pref::Dc(rng.below(2) as u32),
                _ => Pref::DcRack(rng.below(2) as u32, rng.below(3) as u32),
            };
            let cfg = format!(
                "{}/{}/{}/{}",
                pref.fmt(),
                if rng.chance(9, 10) { "t" } else { "n" },
                if rng.chance(1, 2) { "f" } else { "n" },
                if rng.chance(3, 4) { "s" } else { "x" }
            );
            emit(format!(
                "hplan {} {} {} {} {}/{}/{}/{}/-/{} {}",
                steps.len(),
                steps.join(" "),
                fmt_strategies(&kss),
                cfg,
                rng.pick(&toks),
                rng.below(2),
                if rng.chance(1, 3) { 1 } else { 0 },
                *rng.pick(&["one", "lq", "quorum", "serial"]),
                gen_pref(rng, &peers, false).fmt(),
                samples
            ));
        }
    }

    // 3f. tablet tables on refresh histories (`thplan`): the tablets are learnt on the first state; in the refreshes that
    // follow, replicas of those tablets get their Node object RE-CREATED (datacenter / rack / address change, host-filter
    // verdict flipping) - mostly WITHOUT any node leaving and without unknown replicas in the same refresh, so that the
    // re-created nodes alone must make TabletsInfo::perform_maintenance walk the tablets -, sometimes leave (the tablet is
    // dropped) or join (an unknown replica gets resolved).  Requests are mostly token-aware requests on the tablet table.
    for _ in 0..if quick { 450 } else { 7000 } {
        let mut peers = gen_topology(rng, hshape);
        if peers.len() < 3 {
            continue;
        }
        let kss: Vec<Strat> = vec![gen_strategy(rng, &peers), gen_strategy(rng, &peers)];
        let verdict = |rng: &mut Rng| -> String {
            match rng.below(10) {
                0 | 1 => "d".into(),
                2 => "ax".into(),
                _ => "a".into(),
            }
        };
        for p in peers.iter_mut() {
            p.flags = verdict(rng);
        }
        let next_id = peers.iter().map(|p| p.id).max().unwrap_or(0) + 1;
        let n_steps = rng.range(1, 3) as usize;
        // tablets over the first peers; rarely a replica that is unknown yet (it may join in a later step)
        let unknown_ok = rng.chance(1, 6);
        let first_peers = peers.clone();
        let gen_reps = |rng: &mut Rng| -> String {
            let k = rng.range(1, 3.min(first_peers.len() as i64)) as usize;
            let mut idx: Vec<usize> = (0..first_peers.len()).collect();
            rng.shuffle(&mut idx);
            let mut reps: Vec<(u64, u64)> = idx.into_iter().take(k).map(|i| (first_peers[i].id, rng.below(5))).collect();
            if unknown_ok && rng.chance(1, 2) {
                reps.push((next_id, rng.below(5)));
            }
            reps.iter().map(|(i, s)| format!("{}@{}", i, s)).collect::<Vec<_>>().join(",")
        };
        let toks0 = query_tokens(&peers);
        let tablet = if rng.chance(1, 3) {
            let mut cuts: Vec<i64> = (0..rng.range(1, 3)).map(|_| *rng.pick(&toks0)).filter(|t| *t > i64::MIN + 1).collect();
            cuts.sort_unstable();
            cuts.dedup();
            let mut parts: Vec<String> = Vec::new();
            let mut first = i64::MIN + 1;
            for c in cuts.iter().chain(std::iter::once(&i64::MAX)) {
                if *c < first {
                    continue;
                }
                if rng.chance(5, 6) {
                    parts.push(format!("{}:{}:{}", first, c, gen_reps(rng)));
                }
                if *c == i64::MAX {
                    break;
                }
                first = c + 1;
            }
            if parts.is_empty() { gen_reps(rng) } else { parts.join("|") }
        } else {
            gen_reps(rng)
        };
        let mut steps: Vec<String> = vec![format!("N {}", fmt_topology(&peers))];
        for step in 0..n_steps {
            for p in peers.iter_mut() {
                match rng.below(12) {
                    0 | 1 => p.rack = Some(rng.below(3) as u32),
                    2 | 3 => p.dc = Some(rng.below(2) as u32),
                    // the verdict flips (e.g. a datacenter host filter and a node that moved)
                    4 | 5 => p.flags = if p.flags.contains('a') { "d".into() } else { "a".into() },
                    6 => p.flags = verdict(rng),
                    _ => {}
                }
            }
            match rng.below(10) {
                0 if peers.len() > 3 => {
                    let i = rng.below(peers.len() as u64) as usize;
                    peers.remove(i);
                }
                1 | 2 if unknown_ok && !peers.iter().any(|p| p.id == next_id) => peers.push(PeerSpec {
                    id: next_id,
                    dc: Some(rng.below(2) as u32),
                    rack: Some(rng.below(3) as u32),
                    tokens: vec![rng.range(100, 100_000) * 7 + step as i64],
                    flags: verdict(rng),
                }),
                // positions change: the address of every later peer changes
                3 => rng.shuffle(&mut peers),
                _ => {}
            }
            steps.push(format!("{} {}", *rng.pick(&["F", "G"]), fmt_topology(&peers)));
        }
        if n_steps == 0 {
            continue;
        }
        let toks = query_tokens(&peers);
        for _ in 0..5 {
            let pref = match rng.below(6) {
                0 => gen_pref(rng, &peers, true),
                1 | 2 => Pref::Dc(rng.below(2) as u32),
                _ => Pref::DcRack(rng.below(2) as u32, rng.below(3) as u32),
            };
            let cfg = format!(
                "{}/{}/{}/{}",
                pref.fmt(),
                if rng.chance(11, 12) { "t" } else { "n" },
                if rng.chance(1, 2) { "f" } else { "n" },
                if rng.chance(3, 4) { "s" } else { "x" }
            );
            emit(format!(
                "thplan {} {} {} {} {}/{}/{}/{}/-/{} {} {}",
                steps.len(),
                steps.join(" "),
                fmt_strategies(&kss),
                cfg,
                if rng.chance(1, 12) { "-".to_owned() } else { rng.pick(&toks).to_string() },
                match rng.below(12) {
                    0 => "1",
                    1 => "-",
                    _ => "0",
                },
                if rng.chance(1, 3) { 1 } else { 0 },
                *rng.pick(&["one", "lq", "quorum", "serial"]),
                gen_pref(rng, &peers, false).fmt(),
                tablet,
                samples
            ));
        }
    }

    // 3e. two liveness snapshots: the connected-override of one or two nodes is inverted between the first and the second
    // `Plan::next()` - mostly of nodes that are likely to be picked (live replicas), also of down nodes coming back
    for _ in 0..if quick { 350 } else { 6000 } {
        let mut peers = gen_topology(rng, rich);
        if peers.len() < 3 {
            continue;
        }
        let n = peers.iter().filter(|p| !p.tokens.is_empty()).count();
        let kss: Vec<Strat> = vec![Strat::Simple(rng.range(1, n.max(1) as i64) as usize), gen_strategy(rng, &peers)];
        for p in peers.iter_mut() {
            p.flags = match rng.below(10) {
                0 | 1 => "x".into(),
                2 => "d".into(),
                _ => String::new(),
            };
        }
        add_sharders(rng, &mut peers);
        let topo = fmt_topology(&peers);
        for _ in 0..5 {
            let k = rng.range(0, 2) as usize;
            let mut idx: Vec<usize> = (0..peers.len()).collect();
            rng.shuffle(&mut idx);
            let fl: Vec<String> = idx.into_iter().take(k).map(|i| peers[i].id.to_string()).collect();
            emit(format!(
                "xplan {} {} {} {} {} {}",
                topo,
                fmt_strategies(&kss),
                gen_config(rng, &peers),
                gen_request(rng, &peers, 2),
                if fl.is_empty() { "-".to_owned() } else { fl.join(",") },
                samples
            ));
        }
    }

    // 3d. latency awareness ON (an observation outside the property's quantifier): some nodes are reported slow (flag `p`)
    // and are penalised; the fast ones may be down or disabled, so that every alive candidate is penalised
    for _ in 0..if quick { 250 } else { 4000 } {
        let mut peers = gen_topology(rng, rich);
        if peers.len() < 3 {
            continue;
        }
        let kss: Vec<Strat> = (0..2).map(|_| gen_strategy(rng, &peers)).collect();
        let mode = rng.below(4);
        for p in peers.iter_mut() {
            let slow = match mode {
                0 => true,
                1 => rng.chance(3, 4),
                _ => rng.chance(1, 3),
            };
            let fl = match rng.below(10) {
                0 | 1 => "x",
                2 => "d",
                _ => "",
            };
            // the fast nodes are the ones that tend to be away
            p.flags = if slow { "p".to_owned() } else { format!("{}", if rng.chance(1, 2) { "x" } else { fl }) };
            if slow && rng.chance(1, 6) {
                p.flags.push('x');
            }
        }
        let topo = fmt_topology(&peers);
        for _ in 0..4 {
            emit(format!(
                "lplan {} {} {} {} {}",
                topo,
                fmt_strategies(&kss),
                gen_config(rng, &peers),
                gen_request(rng, &peers, 2),
                samples
            ));
        }
    }

    // 4. malformed case lines (both sides must answer `bad-case`)
    for bad in [
        "plan",
        "plan - - a/t/f/s -/-/0/one/-/a",
        "plan 1:0:0:5 - q/t/f/s -/-/0/one/-/a 3",
        "plan 1:0:0:5 - a/t/f/s -/-/0/one/-/i 3",
        "plan 1:0:0:5 - a/t/f/s -/-/2/one/-/a 3",
        "plan 1:0:0:5 - a/t/f/s -/-/0/fast/-/a 3",
        "plan 1:0:0:5;1:0:0:6 - a/t/f/s -/-/0/one/-/a 3",
        "plan 1:0:0:5 S1 a/t/f 5/0/0/one/-/a 3",
        "route 1:0:0:5 S1 a/t/f/s 5/0/0/one/-/a 3",
        "tplan 1:0:0:5 S1 a/t/f/s 5/0/0/one/-/a 3",
        "tplan 1:0:0:5 - a/t/f/s 5/0/0/one/-/a 1@0 3",
        "hplan 0 S1 a/t/f/s 5/0/0/one/-/a 3",
        "hplan 2 n 1:0:0:5 F 1:0:1:5 S1 a/t/f/s 5/0/0/one/-/a 3",
        "hplan 2 n 1:0:0:5 G 1:0:1:5:ad S1 a/t/f/s 5/0/0/one/-/a 3",
        "lplan 1:0:0:5 S1 a/t/f/s 5/0/0/one/-/a 0",
        "xplan 1:0:0:5 S1 a/t/f/s 5/0/0/one/-/a 9 3",
        "xplan 1:0:0:5 S1 a/t/f/s 5/0/0/one/-/a 1,x 3",
        "hplan 2 N 1:0:0:5 F 1:0:1:5:a S1 a/t/f/s 5/0/0/one/-/a 3",
        "hplan 2 r 1:0:0:5 R 1:0:1:5 S1 a/t/f/s 5/0/0/one/-/a 3",
        "hplan 2 n 1:0:0:5 n 1:0:1:5 S1 a/t/f/s 5/0/0/one/-/a 3",
        "hplan 2 n 1:0:0:5:s4.12 R 1:0:1:5 S1 a/t/f/s 5/0/0/one/-/a 3",
        "hplan 2 n 1:0:0:5 R 1:0:1:5 S1 a/t/f/s 5/0/0/one/-/a",
        "tplan 1:0:0:5 S1 a/t/f/s 5/0/0/one/-/a 1:5:1@0|5:9:1@0 3",
        "tplan 1:0:0:5 S1 a/t/f/s 5/0/0/one/-/a 7:5:1@0 3",
        "tplan 1:0:0:5 S1 a/t/f/s 5/0/0/one/-/a -9223372036854775808:5:1@0 3",
        "tplan 1:0:0:5 S1 a/t/f/s 5/0/0/one/-/a 1:5 3",
        "tplan 1:0:0:5 S1 a/t/f/s 5/0/0/one/-/a 9@0 3",
        "tplan 1:0:0:5 S1 a/t/f/s 5/0/0/one/-/a 1 3",
        "tplan 1:0:0:5 S1 a/t/f/s 5/0/0/one/-/a 1@0 0",
        "thplan 1 N 1:0:0:5:a S1 a/t/f/s 5/0/0/one/-/a 9@0 3",
        "thplan 2 N 1:0:0:5:a R 1:0:1:5:a S1 a/t/f/s 5/0/0/one/-/a 1@0 3",
        "thplan 2 N 1:0:0:5 F 1:0:1:5:a S1 a/t/f/s 5/0/0/one/-/a 1@0 3",
        "thplan 2 N 1:0:0:5:a F 1:0:1:5:a S1 a/t/f/s 5/0/0/one/-/a 1@0",
    ] {
        emit(bad.to_owned());
    }
}

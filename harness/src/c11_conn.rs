//! C11, second layer: the consumer of the port iterator and what the connection layer makes of SUPPORTED.
//!
//! * `conn n s lo hi reuse inuse taken broken` - ONE call of the real `open_connection_to_shard_aware_port`
//!   (`connection.rs:2178-2199`, through `VerifConn::open_to_shard_aware_port`) towards a scripted node, with the
//!   configured range `[lo, hi]`, a local address private to the case, and source ports made busy FOR REAL:
//!   `inuse` are held by bound sockets (EADDRINUSE at the driver's `bind`); `taken` by established connections to the
//!   same node port from sockets bound with SO_REUSEADDR (with `reuse=1` the driver's `bind` then succeeds and its
//!   `connect` answers EADDRNOTAVAIL; with `reuse=0` its `bind` answers EADDRINUSE); on `broken` ports the node hangs
//!   up during the handshake (an error that is NOT address-unavailable).
//!   Output: `ok <source port>` / `nosource <shard>` / `err <port> other` / `err-unavailable <label>` / `skip <why>`.
//! * `conn6 … <any|lo>` - the same over IPv6 (`connect_with_source_ip_and_port`'s V6 arm, `connection.rs:2219-2226`): the node
//!   listens on `[::1]`; `lo` = `local_ip_address = Some(::1)`, `any` = `None` (the driver binds `[::]:port`). `::1` is shared
//!   by the whole machine, so these cases run under a cross-process file lock, take ranges outside the OS's ephemeral
//!   range, and leave no TIME_WAIT socket behind (the node closes first, the holders reset). `features6`: likewise.
//! * `sess n lo hi reuse inuse taken` - a real `Session` built with `SessionBuilder::{local_ip_address,
//!   shard_aware_local_port_range, tcp_reuse_address}` against a one-node mock cluster; output: per shard the source
//!   port of the pool's connection when it lies in the configured range, else `x`.
//! * `sessx n lo hi reuse inuse taken` - the same real `Session`, but SOME SHARD HAS NO USABLE PORT in the configured range
//!   (the range is shorter than the shard count, or every port of the shard is busy): the refiller's shard-aware
//!   attempt for it (`PoolRefiller::start_opening_connection`, `connection_pool.rs:1041-1095`) must end with
//!   `NoSourcePortForShard` and be followed by a plain attempt. The driver's FALLBACK ports, had it any - the ports of
//!   those shards in 49152..=<top of the OS's ephemeral range> outside the configured range - are held busy too, so a
//!   driver that walks any other range ends up on a port that neither the configuration nor the OS can explain.
//!   Output: `shards <per shard: port in the configured range | x> outside <number of connections from a source port
//!   that lies neither in the configured range nor in the OS's ephemeral range>`.
//! * `poolx n lo hi reuse inuse taken` - the same starved ranges against the real `NodeConnectionPool` / `PoolRefiller`
//!   (`VerifPool::new_with_ports`) and a node with TWO listeners, the regular port and a distinct SCYLLA_SHARD_AWARE_PORT:
//!   what arrives at the shard-aware listener is exactly what `start_opening_connection`'s shard-aware arm opened.
//!   Output as `sessx`; `outside` counts shard-aware connections from outside the configured range plus regular
//!   connections from inside it.
//! * `features plain <shard> <nr> <msb> <port> <portssl>` - a real `open_connection` against a node whose SUPPORTED
//!   carries these entries; output what the connection kept: `info=<s>/<n>/<m>|none port=<p>|none`.
//! * `drawpub n s k` / `iterpub n s` - the PUBLIC wrappers over the fixed ephemeral range, under `catch_unwind`.
//! * `range lo hi` - `ShardAwarePortRange::new(lo..=hi)`: `ok` / `err`.
use crate::mockcluster::{self, MockCluster, NodeSpec, Topology};
use crate::mocknode::{self, ShardMode};
use crate::rng::Rng;
use crate::util::nat_list;
use crate::{Ctx, Tier};
use scylla::routing::{ShardAwarePortRange, ShardCount, Sharder};
use scylla::verif_hooks::connection::{VerifConn, VerifConnOptions};
use std::collections::BTreeSet;
use std::net::{IpAddr, Ipv4Addr, Ipv6Addr, SocketAddr};
use std::sync::atomic::{AtomicU32, Ordering};
use std::sync::{Arc, Mutex};
use std::time::Duration;
use tokio::io::{AsyncReadExt, AsyncWriteExt};
use tokio::net::{TcpListener, TcpSocket, TcpStream};

const MSB: u8 = 12;

// ---------------------------------------------------------------------------------------------------------------
// generation
// ---------------------------------------------------------------------------------------------------------------

/// Entry words of the SUPPORTED cases: `-` key absent, `e` empty value list, `""` the empty string, else the value.
pub const NUM_WORDS: [&str; 16] = ["-", "e", "x", "0", "1", "3", "255", "256", "65535", "65536", "4294967296", "12", "+5", "1_0", "\"\"", "007"];

fn port_word(rng: &mut Rng) -> &'static str {
    match rng.below(10) {
        0..=3 => "19042",
        4 => "-",
        _ => *rng.pick(&["e", "\"\"", "x", "0", "+19042", "019042", "65535", "65536", "1_0", "19142", "-1", "70000"]),
    }
}

fn small_range(rng: &mut Rng) -> (u16, u16) {
    let len = match rng.below(6) {
        0 => rng.range(1, 4),
        1 => rng.range(60, 96),
        _ => rng.range(8, 64),
    } as u16;
    match rng.below(5) {
        // ending at 65535 (the `checked_add` corner of the lowest-port computation)
        0 => (65535 - (len - 1), 65535),
        // starting at the lowest allowed port
        1 => (1024, 1024 + len - 1),
        _ => {
            let lo = rng.range(1024, 65535 - len as i64) as u16;
            (lo, lo + len - 1)
        }
    }
}

fn take_some(rng: &mut Rng, pool: &mut Vec<u16>, k: usize) -> Vec<u16> {
    rng.shuffle(pool);
    let k = k.min(pool.len());
    let mut out: Vec<u16> = pool.drain(..k).collect();
    out.sort_unstable();
    out
}

/// A short range outside the OS's ephemeral port range (`::1` is shared with every other socket of the machine).
fn v6_range(rng: &mut Rng) -> (u16, u16) {
    let len = rng.range(1, 24) as u16;
    match rng.below(4) {
        0 => (65535 - (len - 1), 65535),
        1 => {
            let lo = rng.range(61100, 65535 - len as i64) as u16;
            (lo, lo + len - 1)
        }
        _ => {
            let lo = rng.range(1100, 32000) as u16;
            (lo, lo + len - 1)
        }
    }
}

fn gen_conn(rng: &mut Rng, v6: bool) -> String {
    let (lo, hi) = if v6 { v6_range(rng) } else { small_range(rng) };
    let len = (hi - lo + 1) as u64;
    let n = match rng.below(8) {
        0 => 1,
        // more shards than ports: some shards have no port at all
        1 => (len + rng.below(len + 3)) as u16,
        2 => *rng.pick(&[2u16, 3, 4, 8, 16, 32]),
        _ => rng.range(2, 12) as u16,
    }
    .max(1);
    let s = rng.below(n as u64) as u16;
    let mut valid: Vec<u16> = (lo..=hi).filter(|p| p % n == s).collect();
    let mut others: Vec<u16> = (lo..=hi).filter(|p| p % n != s).collect();
    let k = valid.len();
    let (mut inuse, mut taken, mut broken) = (Vec::new(), Vec::new(), Vec::new());
    let busy_split = |rng: &mut Rng, ports: Vec<u16>, inuse: &mut Vec<u16>, taken: &mut Vec<u16>| {
        let mode = rng.below(3);
        for p in ports {
            match mode {
                0 => inuse.push(p),
                1 => taken.push(p),
                _ => {
                    if rng.bool() {
                        inuse.push(p)
                    } else {
                        taken.push(p)
                    }
                }
            }
        }
    };
    match rng.below(8) {
        // every port free
        0 => {}
        // all but one busy: the loop has to walk the whole shard from wherever its pivot falls
        1 | 2 => {
            let b = take_some(rng, &mut valid, k.saturating_sub(1));
            busy_split(rng, b, &mut inuse, &mut taken);
        }
        // every port busy: NoSourcePortForShard
        3 => {
            let b = take_some(rng, &mut valid, k);
            busy_split(rng, b, &mut inuse, &mut taken);
        }
        // some busy, some hung up on, some free
        4 | 5 => {
            let kb = rng.below(k as u64 + 1) as usize;
            let b = take_some(rng, &mut valid, kb);
            busy_split(rng, b, &mut inuse, &mut taken);
            let kx = rng.below(valid.len() as u64 + 1) as usize;
            broken = take_some(rng, &mut valid, kx.min(2));
        }
        // every port either busy or hung up on, at least one hung up on
        6 => {
            broken = take_some(rng, &mut valid, 1);
            let rest = take_some(rng, &mut valid, k);
            busy_split(rng, rest, &mut inuse, &mut taken);
        }
        // a random busy subset
        _ => {
            let kb = rng.below(k as u64 + 1) as usize;
            let b = take_some(rng, &mut valid, kb);
            busy_split(rng, b, &mut inuse, &mut taken);
        }
    }
    // ports of OTHER shards, busy or hung up on: they must not matter
    if rng.chance(1, 3) {
        let ko = rng.below(4) as usize;
        let o = take_some(rng, &mut others, ko);
        busy_split(rng, o, &mut inuse, &mut taken);
        if rng.chance(1, 3) {
            broken.extend(take_some(rng, &mut others, 1));
        }
    }
    inuse.sort_unstable();
    taken.sort_unstable();
    broken.sort_unstable();
    let reuse = if taken.is_empty() { rng.chance(1, 3) } else { rng.chance(3, 4) };
    if v6 {
        let local = if rng.bool() { "lo" } else { "any" };
        return format!("conn6 {} {} {} {} {} {} {} {} {}", n, s, lo, hi, reuse as u8, nat_list(&inuse), nat_list(&taken), nat_list(&broken), local);
    }
    format!("conn {} {} {} {} {} {} {} {}", n, s, lo, hi, reuse as u8, nat_list(&inuse), nat_list(&taken), nat_list(&broken))
}

fn gen_sess(rng: &mut Rng) -> String {
    // the configured range lies outside the OS's own ephemeral range (see `os_ephemeral`), so a source port inside it
    // can only have been chosen by the driver
    let n = rng.range(2, 6) as u16;
    let per_shard = rng.range(2, 6) as u16;
    let len = n * per_shard + rng.below(n as u64) as u16;
    let lo = if rng.bool() { rng.range(1024, 9000) as u16 } else { rng.range(61500, 65535 - len as i64) as u16 };
    let hi = lo + len - 1;
    let (mut inuse, mut taken) = (Vec::new(), Vec::new());
    for s in 0..n {
        // every shard keeps at least one free port
        let mut valid: Vec<u16> = (lo..=hi).filter(|p| p % n == s).collect();
        let kb = match rng.below(3) {
            0 => 0,
            _ => valid.len() - 1,
        };
        for p in take_some(rng, &mut valid, kb) {
            if rng.chance(2, 3) { taken.push(p) } else { inuse.push(p) }
        }
    }
    inuse.sort_unstable();
    taken.sort_unstable();
    format!("sess {} {} {} {} {} {}", n, lo, hi, (!taken.is_empty() || rng.bool()) as u8, nat_list(&inuse), nat_list(&taken))
}

/// A session whose configured range has NO usable port for at least one shard.
fn gen_sessx(rng: &mut Rng) -> String {
    let n = rng.range(2, 6) as u16;
    let (mut inuse, mut taken) = (Vec::new(), Vec::new());
    let (lo, hi) = match rng.below(3) {
        // shorter than the shard count: n - len residues have no port at all
        0 => {
            let len = rng.range(1, n as i64 - 1) as u16;
            let lo = match rng.below(3) {
                0 => 65535 - (len - 1),
                1 => rng.range(1024, 9000) as u16,
                _ => rng.range(61500, 65535 - len as i64) as u16,
            };
            (lo, lo + (len - 1))
        }
        // every shard has ports, but all ports of one or two shards are busy
        _ => {
            let per_shard = rng.range(1, 4) as u16;
            let len = n * per_shard + rng.below(n as u64) as u16;
            let lo = match rng.below(3) {
                0 => 65535 - (len - 1),
                1 => rng.range(1024, 9000) as u16,
                _ => rng.range(61500, 65535 - len as i64) as u16,
            };
            let hi = lo + (len - 1);
            let starved = rng.below(n as u64) as u16;
            let starved2 = if rng.chance(1, 3) { rng.below(n as u64) as u16 } else { starved };
            for s in 0..n {
                let mut valid: Vec<u16> = (lo..=hi).filter(|p| p % n == s).collect();
                let kb = if s == starved || s == starved2 {
                    valid.len()
                } else if rng.bool() {
                    0
                } else {
                    valid.len() - 1
                };
                for p in take_some(rng, &mut valid, kb) {
                    if rng.chance(1, 2) { taken.push(p) } else { inuse.push(p) }
                }
            }
            (lo, hi)
        }
    };
    inuse.sort_unstable();
    taken.sort_unstable();
    format!("sessx {} {} {} {} {} {}", n, lo, hi, (!taken.is_empty() || rng.bool()) as u8, nat_list(&inuse), nat_list(&taken))
}

pub fn generate(rng: &mut Rng, tier: Tier, emit: &mut dyn FnMut(String)) {
    let scale: u64 = if tier == Tier::Quick { 1 } else { 12 };
    // ShardAwarePortRange::new: the boundary grid, then random
    let edge: [u32; 10] = [0, 1, 1023, 1024, 1025, 49151, 49152, 65534, 65535, 2000];
    for lo in edge {
        for hi in edge {
            emit(format!("range {} {}", lo, hi));
        }
    }
    for _ in 0..200 * scale {
        emit(format!("range {} {}", rng.below(65536), rng.below(65536)));
    }
    // the public wrappers over the fixed ephemeral range: around the 16384-shard threshold and far above it
    for n in [1u32, 2, 3, 4, 7, 16, 255, 4096, 16383, 16384, 16385, 16386, 20000, 32768, 40000, 49152, 49153, 65535] {
        for s in [0u32, 1, n / 2, n.saturating_sub(2), n - 1, n, n + 1, 16383, 16384, 30000, 49151, 65535, 70000] {
            emit(format!("drawpub {} {} 6", n, s));
            emit(format!("iterpub {} {}", n, s));
        }
    }
    for _ in 0..300 * scale {
        let n = match rng.below(4) {
            0 => rng.range(1, 64),
            1 => rng.range(16000, 17000),
            _ => rng.range(1, 65535),
        } as u32;
        let s = if rng.chance(1, 8) { n + rng.below(3) as u32 } else { rng.below(n as u64) as u32 };
        emit(format!("drawpub {} {} 4", n, s));
        emit(format!("iterpub {} {}", n, s));
    }
    // what open_connection keeps of SUPPORTED
    for _ in 0..400 * scale {
        let sw = |rng: &mut Rng, ok: &'static str| -> &'static str { if rng.chance(2, 3) { ok } else { *rng.pick(&NUM_WORDS) } };
        let (oa, ob, oc) = (*rng.pick(&["0", "1", "3", "+5", "007"]), *rng.pick(&["12", "255", "65535", "256"]), *rng.pick(&["0", "12", "255"]));
        let a = sw(rng, oa);
        let b = sw(rng, ob);
        let c = sw(rng, oc);
        let (a, b, c) = if rng.chance(1, 12) { ("-", "-", "-") } else { (a, b, c) };
        let kind = if rng.chance(1, 8) { "features6" } else { "features" };
        emit(format!("{} plain {} {} {} {} {}", kind, a, b, c, port_word(rng), port_word(rng)));
    }
    // the consumer loop
    for _ in 0..1500 * scale {
        emit(gen_conn(rng, false));
    }
    // the same loop over IPv6 loopback (the V6 arm of connect_with_source_ip_and_port)
    for _ in 0..150 * scale {
        emit(gen_conn(rng, true));
    }
    for _ in 0..10 * scale {
        emit(gen_sess(rng));
    }
    // a real Session whose configured range starves some shard: the refiller's use of the configured range
    for _ in 0..60 * scale {
        emit(gen_sessx(rng));
    }
    // the same against the bare pool and a node whose shard-aware port is a listener of its own
    for _ in 0..120 * scale {
        emit(gen_sessx(rng).replacen("sessx", "poolx", 1));
    }
}

// ---------------------------------------------------------------------------------------------------------------
// a scripted node of its own (the shared `mocknode` binds 127.0.0.1 and does not script SUPPORTED)
// ---------------------------------------------------------------------------------------------------------------

struct MiniNode {
    addr: SocketAddr,
    /// source ports of the accepted connections, in accept order
    accepted: Arc<Mutex<Vec<u16>>>,
    task: tokio::task::JoinHandle<()>,
    conn_tasks: Arc<Mutex<Vec<tokio::task::JoinHandle<()>>>>,
}

impl MiniNode {
    /// The node closes every connection FIRST (the TIME_WAIT state then stays on the node's side, whose port is the
    /// case's own), and gives the peers a moment to see it.
    async fn close_all(&self) {
        self.task.abort();
        for t in self.conn_tasks.lock().unwrap().drain(..) {
            t.abort();
        }
        tokio::time::sleep(Duration::from_millis(3)).await;
    }
}

impl Drop for MiniNode {
    fn drop(&mut self) {
        self.task.abort();
    }
}

#[derive(Clone)]
enum Script {
    /// ScyllaDB's shard-aware port: the connection's shard is `source_port % n`
    ByPort(u16),
    /// these SUPPORTED entries, literally
    Entries(Vec<(String, Vec<String>)>),
    /// as `ByPort`, and SUPPORTED advertises this SCYLLA_SHARD_AWARE_PORT (a listener of its own: `poolx`)
    ByPortAware(u16, u16),
}

async fn start_mini(ip: IpAddr, script: Script, broken: BTreeSet<u16>) -> std::io::Result<MiniNode> {
    let listener = TcpListener::bind(SocketAddr::from((ip, 0))).await?;
    start_mini_on(listener, script, broken)
}

fn start_mini_on(listener: TcpListener, script: Script, broken: BTreeSet<u16>) -> std::io::Result<MiniNode> {
    let addr = listener.local_addr()?;
    let accepted: Arc<Mutex<Vec<u16>>> = Arc::new(Mutex::new(Vec::new()));
    let acc2 = Arc::clone(&accepted);
    let conn_tasks: Arc<Mutex<Vec<tokio::task::JoinHandle<()>>>> = Arc::new(Mutex::new(Vec::new()));
    let ct2 = Arc::clone(&conn_tasks);
    let task = tokio::spawn(async move {
        loop {
            let Ok((mut sock, peer)) = listener.accept().await else { return };
            acc2.lock().unwrap().push(peer.port());
            if broken.contains(&peer.port()) {
                // hang up before answering OPTIONS
                drop(sock);
                continue;
            }
            let script = script.clone();
            let handle = tokio::spawn(async move {
                loop {
                    let mut hdr = [0u8; 9];
                    if sock.read_exact(&mut hdr).await.is_err() {
                        return;
                    }
                    let len = u32::from_be_bytes([hdr[5], hdr[6], hdr[7], hdr[8]]) as usize;
                    let mut body = vec![0u8; len];
                    if sock.read_exact(&mut body).await.is_err() {
                        return;
                    }
                    let stream = i16::from_be_bytes([hdr[2], hdr[3]]);
                    let (op, resp) = match hdr[4] {
                        mocknode::OP_OPTIONS => {
                            let mut entries: Vec<(String, Vec<String>)> = vec![("CQL_VERSION".into(), vec!["3.0.0".into()]), ("COMPRESSION".into(), vec![])];
                            match &script {
                                Script::ByPort(n) => {
                                    entries.push(("SCYLLA_SHARD".into(), vec![(peer.port() % n).to_string()]));
                                    entries.push(("SCYLLA_NR_SHARDS".into(), vec![n.to_string()]));
                                    entries.push(("SCYLLA_SHARDING_IGNORE_MSB".into(), vec![MSB.to_string()]));
                                }
                                Script::ByPortAware(n, aware) => {
                                    entries.push(("SCYLLA_SHARD".into(), vec![(peer.port() % n).to_string()]));
                                    entries.push(("SCYLLA_NR_SHARDS".into(), vec![n.to_string()]));
                                    entries.push(("SCYLLA_SHARDING_IGNORE_MSB".into(), vec![MSB.to_string()]));
                                    entries.push(("SCYLLA_SHARD_AWARE_PORT".into(), vec![aware.to_string()]));
                                }
                                Script::Entries(es) => entries.extend(es.iter().cloned()),
                            }
                            let view: Vec<(&str, Vec<&str>)> = entries.iter().map(|(k, vs)| (k.as_str(), vs.iter().map(|v| v.as_str()).collect())).collect();
                            let mut b = Vec::new();
                            mocknode::w_string_multimap(&mut b, &view);
                            (mocknode::RESP_SUPPORTED, b)
                        }
                        mocknode::OP_STARTUP | mocknode::OP_REGISTER => (mocknode::RESP_READY, vec![]),
                        _ => (mocknode::RESP_RESULT, mocknode::body_void()),
                    };
                    if sock.write_all(&mocknode::frame(stream, op, &resp)).await.is_err() {
                        return;
                    }
                }
            });
            ct2.lock().unwrap().push(handle);
        }
    });
    Ok(MiniNode { addr, accepted, task, conn_tasks })
}

static CASE_COUNTER: AtomicU32 = AtomicU32::new(0);

/// (node address, local address): loopback addresses private to this process AND to this case, so that neither other
/// processes nor the TIME_WAIT leftovers of earlier cases hold any of the case's source ports.
fn case_ips() -> (Ipv4Addr, Ipv4Addr) {
    let pid = std::process::id();
    let k = CASE_COUNTER.fetch_add(1, Ordering::SeqCst);
    let a = 2 * (1 + (pid % 120)) as u8; // even: the node; odd: the driver's local address
    let b = ((k / 250 + pid / 120) % 250) as u8;
    let c = (1 + k % 250) as u8;
    (Ipv4Addr::new(127, a, b, c), Ipv4Addr::new(127, a + 1, b, c))
}

/// What holds the source ports of a case busy.
struct Holders {
    _bound: Vec<TcpSocket>,
    _connected: Vec<TcpStream>,
}

fn new_socket(ip: IpAddr) -> std::io::Result<TcpSocket> {
    if ip.is_ipv4() { TcpSocket::new_v4() } else { TcpSocket::new_v6() }
}

/// `Err(why)`: the environment does not allow the case (a port that should be free is not, a holder cannot be set up).
/// `driver_bind`: the address the driver will bind its sockets to (the probe binds exactly there); `local`: where the
/// holders sit; `reset_on_close`: the holders close with a reset (SO_LINGER 0), leaving no TIME_WAIT socket.
#[allow(deprecated)] // SO_LINGER 0 on a holder that is dropped: a reset, nothing blocks
async fn hold_ports(driver_bind: IpAddr, local: IpAddr, node: SocketAddr, should_be_free: &[u16], inuse: &[u16], taken: &[u16], reset_on_close: bool) -> Result<Holders, String> {
    // probe: a port the case counts as free must be bindable right now (no SO_REUSEADDR: the strictest test)
    for &p in should_be_free {
        let s = new_socket(driver_bind).map_err(|e| format!("socket:{:?}", e.kind()))?;
        if s.bind(SocketAddr::new(driver_bind, p)).is_err() {
            return Err(format!("port-not-free:{p}"));
        }
    }
    let mut bound = Vec::new();
    for &p in inuse {
        let s = new_socket(local).map_err(|e| format!("socket:{:?}", e.kind()))?;
        s.bind(SocketAddr::new(local, p)).map_err(|e| format!("hold-bind:{p}:{:?}", e.kind()))?;
        bound.push(s);
    }
    let mut connected = Vec::new();
    for &p in taken {
        let s = new_socket(local).map_err(|e| format!("socket:{:?}", e.kind()))?;
        s.set_reuseaddr(true).map_err(|e| format!("reuseaddr:{:?}", e.kind()))?;
        if reset_on_close {
            s.set_linger(Some(Duration::ZERO)).map_err(|e| format!("linger:{:?}", e.kind()))?;
        }
        s.bind(SocketAddr::new(local, p)).map_err(|e| format!("hold-bind:{p}:{:?}", e.kind()))?;
        connected.push(s.connect(node).await.map_err(|e| format!("hold-connect:{p}:{:?}", e.kind()))?);
    }
    Ok(Holders { _bound: bound, _connected: connected })
}

/// IPv6 loopback is ONE address for the whole machine: cases on it are serialised across processes.
fn v6_lock() -> Option<std::fs::File> {
    let f = std::fs::OpenOptions::new().create(true).truncate(false).write(true).open("/tmp/verif_c11_v6.lock").ok()?;
    f.lock().ok()?;
    Some(f)
}

fn parse_list(w: &str) -> Option<Vec<u16>> {
    if w == "-" {
        return Some(vec![]);
    }
    w.split(',').map(|x| x.parse().ok()).collect()
}

fn is_unavailable_label(label: &str) -> bool {
    matches!(label, "IoError:AddrInUse" | "IoError:AddrNotAvailable" | "IoError:PermissionDenied")
}

// ---------------------------------------------------------------------------------------------------------------
// conn
// ---------------------------------------------------------------------------------------------------------------

fn run_conn(w: &[&str], ctx: &mut Ctx) -> String {
    // `conn6 … any|lo`: over IPv6 loopback, with `local_ip_address` None / Some(::1)
    let v6: Option<bool> = match (w[0], w.len()) {
        ("conn", 9) => None,
        ("conn6", 10) if w[9] == "lo" => Some(true),
        ("conn6", 10) if w[9] == "any" => Some(false),
        _ => return "bad-case".into(),
    };
    let (Ok(n), Ok(s), Ok(lo), Ok(hi), Ok(reuse)) = (w[1].parse::<u16>(), w[2].parse::<u16>(), w[3].parse::<u16>(), w[4].parse::<u16>(), w[5].parse::<u8>()) else {
        return "bad-case".into();
    };
    let (Some(inuse), Some(taken), Some(broken)) = (parse_list(w[6]), parse_list(w[7]), parse_list(w[8])) else { return "bad-case".into() };
    let (Some(nr), Ok(range)) = (ShardCount::new(n), ShardAwarePortRange::new(lo..=hi)) else { return "bad-case".into() };
    if s >= n {
        return "bad-case".into();
    }
    // brute force, independent of the driver's arithmetic
    let valid: Vec<u16> = (lo..=hi).filter(|p| p % n == s).collect();
    let busy: BTreeSet<u16> = inuse.iter().chain(taken.iter()).copied().collect();
    let hung: BTreeSet<u16> = broken.iter().copied().filter(|p| !busy.contains(p)).collect();
    let free: Vec<u16> = valid.iter().copied().filter(|p| !busy.contains(p) && !hung.contains(p)).collect();
    let should_be_free: Vec<u16> = (lo..=hi).filter(|p| !busy.contains(p)).collect();

    if v6.is_some() {
        let (elo, ehi) = os_ephemeral();
        if lo <= ehi && elo <= hi {
            return "skip range-overlaps-os-ephemeral-range".into();
        }
    }
    let _lock = match v6 {
        Some(_) => match v6_lock() {
            Some(l) => Some(l),
            None => return "skip no-v6-lock".into(),
        },
        None => None,
    };
    let rt = mockcluster::runtime(1);
    rt.block_on(async {
        let (node_ip, local, driver_local): (IpAddr, IpAddr, Option<IpAddr>) = match v6 {
            None => {
                let (a, b) = case_ips();
                (IpAddr::V4(a), IpAddr::V4(b), Some(IpAddr::V4(b)))
            }
            Some(with_local) => {
                let l = IpAddr::V6(Ipv6Addr::LOCALHOST);
                (l, l, with_local.then_some(l))
            }
        };
        let driver_bind = driver_local.unwrap_or(IpAddr::V6(Ipv6Addr::UNSPECIFIED));
        let node = match start_mini(node_ip, Script::ByPort(n), hung.clone()).await {
            Ok(nd) => nd,
            Err(e) if v6.is_some() => return format!("skip no-ipv6-loopback:{:?}", e.kind()),
            Err(e) => return format!("skip listen:{:?}", e.kind()),
        };
        if (lo..=hi).contains(&node.addr.port()) {
            return "skip node-port-in-range".to_owned();
        }
        let holders = match hold_ports(driver_bind, local, node.addr, &should_be_free, &inuse, &taken, v6.is_some()).await {
            Ok(h) => h,
            Err(why) => return format!("skip {why}"),
        };
        // the holders' connections are in the accept log before the driver starts
        let t0 = std::time::Instant::now();
        while node.accepted.lock().unwrap().len() < taken.len() {
            if t0.elapsed() > Duration::from_secs(5) {
                return "skip holders-not-accepted".to_owned();
            }
            tokio::time::sleep(Duration::from_millis(1)).await;
        }
        let base = node.accepted.lock().unwrap().len();
        let result = VerifConn::open_to_shard_aware_port(
            node.addr,
            s as u32,
            nr,
            MSB,
            driver_local,
            range,
            if reuse != 0 { Some(true) } else { None },
            Duration::from_secs(10),
        )
        .await;
        // connections that reached the node during the call, by source port
        let reached: Vec<u16> = node.accepted.lock().unwrap()[base..].to_vec();
        let no_free_lost = |ctx: &mut Ctx, what: &str| {
            if !free.is_empty() && hung.iter().all(|p| !valid.contains(p)) {
                ctx.fail(format!(
                    "shard {s} of {n} has a free source port in [{lo},{hi}] (e.g. {}), but no connection was opened: {what}",
                    free[0]
                ));
            }
        };
        let line = match result {
            Ok(conn) => {
                let Some(&p) = reached.last() else { return "skip no-accept-recorded".to_owned() };
                if reached.len() != 1 {
                    ctx.fail(format!("{} connections reached the node in one call (source ports {:?})", reached.len(), reached));
                }
                if !(lo..=hi).contains(&p) {
                    ctx.fail(format!("connected from source port {p}, outside the configured range [{lo},{hi}]"));
                }
                if p % n != s {
                    ctx.fail(format!("connected from source port {p}: shard {} of {n}, requested shard {s}", p % n));
                }
                if !free.contains(&p) {
                    ctx.fail(format!("connected from source port {p}, which is not a free port of the shard"));
                }
                if conn.shard_info() != Some((s, n, MSB)) {
                    ctx.fail(format!("the connection landed on {:?}, requested shard {s} of {n}", conn.shard_info()));
                }
                if v6.is_some() {
                    node.close_all().await;
                }
                drop(conn);
                format!("ok {p}")
            }
            Err(label) if label.starts_with("NoSourcePortForShard:") => {
                let reported = &label["NoSourcePortForShard:".len()..];
                if reported != s.to_string() {
                    ctx.fail(format!("NoSourcePortForShard names shard {reported}, requested {s}"));
                }
                if let Some(q) = valid.iter().find(|p| !busy.contains(p)) {
                    ctx.fail(format!("NoSourcePortForShard although source port {q} of the shard is not busy"));
                }
                format!("nosource {reported}")
            }
            Err(label) if is_unavailable_label(&label) => {
                // "this source port is busy" must never leave the loop: it has to go on to the shard's remaining ports,
                // and answer NoSourcePortForShard when there is none
                ctx.fail(format!(
                    "open_connection_to_shard_aware_port returned the address-unavailable error {label} instead of trying the shard's remaining source ports ({} of {} not busy)",
                    valid.iter().filter(|p| !busy.contains(p)).count(),
                    valid.len()
                ));
                format!("err-unavailable {label}")
            }
            Err(label) if label == "ConnectTimeout" => "skip connect-timeout".to_owned(),
            Err(label) => match reached.last() {
                Some(&p) => {
                    if !(hung.contains(&p) && valid.contains(&p)) {
                        ctx.fail(format!("error {label} on source port {p}, on which the node did not hang up"));
                        no_free_lost(ctx, &label);
                    }
                    format!("err {p} other")
                }
                None => {
                    no_free_lost(ctx, &label);
                    format!("err - {label}")
                }
            },
        };
        if v6.is_some() {
            node.close_all().await;
        }
        drop(holders);
        line
    })
}

// ---------------------------------------------------------------------------------------------------------------
// sess
// ---------------------------------------------------------------------------------------------------------------

fn os_ephemeral() -> (u16, u16) {
    std::fs::read_to_string("/proc/sys/net/ipv4/ip_local_port_range")
        .ok()
        .and_then(|s| {
            let mut it = s.split_whitespace().map(|x| x.parse::<u16>().ok());
            Some((it.next()??, it.next()??))
        })
        .unwrap_or((32768, 60999))
}

fn run_sess(w: &[&str], ctx: &mut Ctx) -> String {
    if w.len() != 7 {
        return "bad-case".into();
    }
    let (Ok(n), Ok(lo), Ok(hi), Ok(reuse)) = (w[1].parse::<u16>(), w[2].parse::<u16>(), w[3].parse::<u16>(), w[4].parse::<u8>()) else {
        return "bad-case".into();
    };
    let (Some(inuse), Some(taken)) = (parse_list(w[5]), parse_list(w[6])) else { return "bad-case".into() };
    let Ok(range) = ShardAwarePortRange::new(lo..=hi) else { return "bad-case".into() };
    if n == 0 {
        return "bad-case".into();
    }
    let (elo, ehi) = os_ephemeral();
    if lo <= ehi && elo <= hi {
        // a non-shard-aware connection (source port chosen by the OS) could fall inside the configured range
        return "skip range-overlaps-os-ephemeral-range".into();
    }
    let busy: BTreeSet<u16> = inuse.iter().chain(taken.iter()).copied().collect();
    let should_be_free: Vec<u16> = (lo..=hi).filter(|p| !busy.contains(p)).collect();
    let rt = mockcluster::runtime(1);
    rt.block_on(async {
        let (_, local) = case_ips();
        let topo = Topology {
            nodes: vec![NodeSpec { host_id: mockcluster::host_id_of(0), dc: "dc1".into(), rack: "r1".into(), tokens: vec![0], shards: ShardMode::ByPort(n, MSB) }],
            keyspaces: vec![],
            tablets_ext: false,
        };
        let cluster = MockCluster::start(topo, Box::new(|_| vec![mockcluster::act_void()])).await;
        let node = cluster.addr(0);
        let _holders = match hold_ports(IpAddr::V4(local), IpAddr::V4(local), node, &should_be_free, &inuse, &taken, false).await {
            Ok(h) => h,
            Err(why) => return format!("skip {why}"),
        };
        let builder = cluster
            .session_builder()
            .local_ip_address(Some(IpAddr::V4(local)))
            .shard_aware_local_port_range(range)
            .tcp_reuse_address(reuse != 0);
        let Ok(session) = builder.build().await else { return "skip session-build-failed".to_owned() };
        if !cluster.wait_pools_full(&session, Duration::from_secs(5)).await {
            return "skip pools-not-full".to_owned();
        }
        if std::env::var_os("VERIF_C11_TRACE").is_some() {
            for c in cluster.conns() {
                eprintln!("conn {} peer={} shard={:?} control={} ready={:?} closed={:?}", c.conn, c.peer, c.shard, c.control, c.ready, c.closed);
            }
        }
        // per shard: the pool connection whose source port lies in the configured range
        let mut words = Vec::new();
        let mut lacking = 0;
        for s in 0..n {
            let in_range: Vec<u16> = cluster
                .conns()
                .iter()
                .filter(|c| c.ready.is_some() && c.closed.is_none() && !c.control && c.shard == Some(s) && c.peer.ip() == IpAddr::V4(local))
                .map(|c| c.peer.port())
                .filter(|p| (lo..=hi).contains(p))
                .collect();
            let has_free = (lo..=hi).any(|p| p % n == s && !busy.contains(&p));
            match in_range.first() {
                Some(&p) => {
                    if busy.contains(&p) || p % n != s {
                        ctx.fail(format!("shard {s}: pool connection from source port {p}, which is busy or of another shard"));
                    }
                    words.push(p.to_string());
                }
                None => {
                    if has_free {
                        lacking += 1;
                    }
                    words.push("x".to_owned());
                }
            }
        }
        // the pool's first connection goes to the non-shard-aware port and fills ONE arbitrary shard; every other shard
        // is opened through the shard-aware port from the configured range
        if lacking > 1 {
            ctx.fail(format!(
                "{lacking} shards that have a free source port in the configured range [{lo},{hi}] have no pool connection from it (at most the first connection's shard may): {}",
                words.join(",")
            ));
        }
        format!("shards {}", words.join(","))
    })
}

// ---------------------------------------------------------------------------------------------------------------
// sessx
// ---------------------------------------------------------------------------------------------------------------

fn run_sessx(w: &[&str], ctx: &mut Ctx) -> String {
    if w.len() != 7 {
        return "bad-case".into();
    }
    let (Ok(n), Ok(lo), Ok(hi), Ok(reuse)) = (w[1].parse::<u16>(), w[2].parse::<u16>(), w[3].parse::<u16>(), w[4].parse::<u8>()) else {
        return "bad-case".into();
    };
    let (Some(inuse), Some(taken)) = (parse_list(w[5]), parse_list(w[6])) else { return "bad-case".into() };
    let Ok(range) = ShardAwarePortRange::new(lo..=hi) else { return "bad-case".into() };
    if n == 0 || n > 64 {
        return "bad-case".into();
    }
    let (elo, ehi) = os_ephemeral();
    if lo <= ehi && elo <= hi {
        return "skip range-overlaps-os-ephemeral-range".into();
    }
    let busy: BTreeSet<u16> = inuse.iter().chain(taken.iter()).copied().collect();
    let should_be_free: Vec<u16> = (lo..=hi).filter(|p| !busy.contains(p)).collect();
    // brute force: the shards for which the configured range has no usable port
    let starved: Vec<u16> = (0..n).filter(|s| !(lo..=hi).any(|p| p % n == *s && !busy.contains(&p))).collect();
    // the ports a driver that gave "the default ephemeral ports a chance" would come from and that the OS could have
    // chosen as well: held busy, so that such a driver is pushed to a port nothing but its own choice explains
    let fallback: Vec<u16> = (49152..=ehi.max(49151)).filter(|p| !(lo..=hi).contains(p) && starved.contains(&(p % n))).collect();
    if fallback.len() > 12_000 {
        return "skip too-many-fallback-ports".into();
    }
    let rt = mockcluster::runtime(1);
    rt.block_on(async {
        let (_, local) = case_ips();
        let topo = Topology {
            nodes: vec![NodeSpec { host_id: mockcluster::host_id_of(0), dc: "dc1".into(), rack: "r1".into(), tokens: vec![0], shards: ShardMode::ByPort(n, MSB) }],
            keyspaces: vec![],
            tablets_ext: false,
        };
        let cluster = MockCluster::start(topo, Box::new(|_| vec![mockcluster::act_void()])).await;
        let node = cluster.addr(0);
        let _holders = match hold_ports(IpAddr::V4(local), IpAddr::V4(local), node, &should_be_free, &inuse, &taken, false).await {
            Ok(h) => h,
            Err(why) => return format!("skip {why}"),
        };
        let mut fallback_holders = Vec::with_capacity(fallback.len());
        for &p in &fallback {
            let Ok(sock) = TcpSocket::new_v4() else { return "skip fallback-socket".to_owned() };
            if sock.bind(SocketAddr::new(IpAddr::V4(local), p)).is_err() {
                return format!("skip fallback-port-not-free:{p}");
            }
            fallback_holders.push(sock);
        }
        let builder = cluster
            .session_builder()
            .local_ip_address(Some(IpAddr::V4(local)))
            .shard_aware_local_port_range(range)
            .tcp_reuse_address(reuse != 0);
        // the holders' own connections (the `taken` ports) are in the node's log already: everything after is the driver's
        let t_hold = std::time::Instant::now();
        while cluster.conns().len() < taken.len() {
            if t_hold.elapsed() > Duration::from_secs(5) {
                return "skip holders-not-accepted".to_owned();
            }
            tokio::time::sleep(Duration::from_millis(1)).await;
        }
        let base = cluster.conns().len();
        let Ok(session) = builder.build().await else { return "skip session-build-failed".to_owned() };
        // settle: every shard that has a usable port is connected to, and no new connection for a while
        let from_local = |c: &mockcluster::ConnInfo| c.peer.ip() == IpAddr::V4(local) && c.conn >= base;
        let t0 = std::time::Instant::now();
        // (a pool with a starved shard never gets full: the refiller keeps asking for that shard, is answered
        // NoSourcePortForShard, opens a plain connection instead, and whether the node ever puts one on the starved
        // shard is the node's business - so there is nothing to wait for beyond the first fill and its follow-ups)
        let mut served_at: Option<std::time::Instant> = None;
        loop {
            let conns = cluster.conns();
            let served = (0..n).filter(|s| !starved.contains(s)).all(|s| conns.iter().any(|c| from_local(c) && !c.control && c.ready.is_some() && c.closed.is_none() && c.shard == Some(s)));
            if served && served_at.is_none() {
                served_at = Some(std::time::Instant::now());
            }
            if served_at.is_some_and(|t| t.elapsed() > Duration::from_millis(60)) {
                break;
            }
            if t0.elapsed() > Duration::from_secs(5) {
                if std::env::var_os("VERIF_C11_TRACE").is_some() {
                    for c in &conns {
                        eprintln!("conn {} peer={} shard={:?} control={} ready={:?} closed={:?}", c.conn, c.peer, c.shard, c.control, c.ready, c.closed);
                    }
                }
                return "skip not-settled".to_owned();
            }
            tokio::time::sleep(Duration::from_millis(5)).await;
        }
        let conns = cluster.conns();
        if std::env::var_os("VERIF_C11_TRACE").is_some() {
            for c in &conns {
                eprintln!("conn {} peer={} shard={:?} control={} ready={:?} closed={:?}", c.conn, c.peer, c.shard, c.control, c.ready, c.closed);
            }
        }
        // (1) EVERY connection the driver made (alive or not, control or pool) comes from a source port that either lies
        // in the configured range - then a usable port - or was assigned by the operating system
        let mut outside = 0;
        for c in conns.iter().filter(|c| from_local(c)) {
            let p = c.peer.port();
            if (lo..=hi).contains(&p) {
                if busy.contains(&p) {
                    ctx.fail(format!("connection from source port {p}, which is busy"));
                }
            } else if !(elo..=ehi).contains(&p) {
                outside += 1;
                ctx.fail(format!(
                    "connection from source port {p} (shard {} of {n}): outside the configured range [{lo},{hi}], and not the operating system's choice either (it assigns {elo}..={ehi}) - the driver produced a source port outside the allowed range{}",
                    p % n,
                    if starved.contains(&(p % n)) { ", for a shard that has no usable port in it (NoSourcePortForShard is due)" } else { "" }
                ));
            }
        }
        // (2) per shard: the live pool connection from the configured range
        let mut words = Vec::new();
        for s in 0..n {
            let in_range: Vec<u16> = conns
                .iter()
                .filter(|c| c.ready.is_some() && c.closed.is_none() && !c.control && c.shard == Some(s) && from_local(c))
                .map(|c| c.peer.port())
                .filter(|p| (lo..=hi).contains(p))
                .collect();
            match in_range.first() {
                Some(&p) => {
                    if starved.contains(&s) {
                        ctx.fail(format!("shard {s} has no usable source port in [{lo},{hi}], yet a pool connection comes from {p}"));
                    }
                    words.push(p.to_string());
                }
                None => words.push("x".to_owned()),
            }
        }
        drop(session);
        drop(fallback_holders);
        format!("shards {} outside {}", words.join(","), outside)
    })
}

// ---------------------------------------------------------------------------------------------------------------
// poolx
// ---------------------------------------------------------------------------------------------------------------

fn run_poolx(w: &[&str], ctx: &mut Ctx) -> String {
    use scylla::client::PoolSize;
    use scylla::verif_hooks::pool::VerifPool;
    if w.len() != 7 {
        return "bad-case".into();
    }
    let (Ok(n), Ok(lo), Ok(hi), Ok(reuse)) = (w[1].parse::<u16>(), w[2].parse::<u16>(), w[3].parse::<u16>(), w[4].parse::<u8>()) else {
        return "bad-case".into();
    };
    let (Some(inuse), Some(taken)) = (parse_list(w[5]), parse_list(w[6])) else { return "bad-case".into() };
    let Ok(range) = ShardAwarePortRange::new(lo..=hi) else { return "bad-case".into() };
    if n == 0 || n > 64 {
        return "bad-case".into();
    }
    let (elo, ehi) = os_ephemeral();
    if lo <= ehi && elo <= hi {
        return "skip range-overlaps-os-ephemeral-range".into();
    }
    let busy: BTreeSet<u16> = inuse.iter().chain(taken.iter()).copied().collect();
    let should_be_free: Vec<u16> = (lo..=hi).filter(|p| !busy.contains(p)).collect();
    let starved: Vec<u16> = (0..n).filter(|s| !(lo..=hi).any(|p| p % n == *s && !busy.contains(&p))).collect();
    let rt = mockcluster::runtime(1);
    rt.block_on(async {
        let (node_ip, local) = case_ips();
        let Ok(aware_listener) = TcpListener::bind(SocketAddr::from((node_ip, 0))).await else { return "skip listen".to_owned() };
        let Ok(aware_addr) = aware_listener.local_addr() else { return "skip listen".to_owned() };
        let script = Script::ByPortAware(n, aware_addr.port());
        let Ok(aware) = start_mini_on(aware_listener, script.clone(), BTreeSet::new()) else { return "skip listen".to_owned() };
        let Ok(main) = start_mini(IpAddr::V4(node_ip), script, BTreeSet::new()).await else { return "skip listen".to_owned() };
        if (lo..=hi).contains(&aware.addr.port()) || (lo..=hi).contains(&main.addr.port()) {
            return "skip node-port-in-range".to_owned();
        }
        // the `taken` ports are established connections to the SHARD-AWARE address (the 4-tuple the driver would use)
        let _holders = match hold_ports(IpAddr::V4(local), IpAddr::V4(local), aware.addr, &should_be_free, &inuse, &taken, false).await {
            Ok(h) => h,
            Err(why) => return format!("skip {why}"),
        };
        let t0 = std::time::Instant::now();
        while aware.accepted.lock().unwrap().len() < taken.len() {
            if t0.elapsed() > Duration::from_secs(5) {
                return "skip holders-not-accepted".to_owned();
            }
            tokio::time::sleep(Duration::from_millis(1)).await;
        }
        let base = aware.accepted.lock().unwrap().len();
        let Ok(pool) = VerifPool::new_with_ports(
            main.addr,
            PoolSize::PerShard(std::num::NonZeroUsize::new(1).unwrap()),
            true,
            Some(IpAddr::V4(local)),
            range,
            if reuse != 0 { Some(true) } else { None },
            Some(Duration::from_secs(5)),
            None,
        ) else {
            return "skip pool".to_owned();
        };
        pool.wait_until_initialized().await;
        // settle: every shard with a usable port has been connected to; then the follow-ups of the first fill
        let t0 = std::time::Instant::now();
        let mut served_at: Option<std::time::Instant> = None;
        loop {
            let a: Vec<u16> = aware.accepted.lock().unwrap()[base..].to_vec();
            let m: Vec<u16> = main.accepted.lock().unwrap().clone();
            // regular connections due: the pool's first one, and one follow-up per starved shard it asked for
            let due = 1 + starved.iter().filter(|s| m.first().map(|p| p % n) != Some(**s)).count();
            let served = (0..n).filter(|s| !starved.contains(s)).all(|s| a.iter().chain(m.iter()).any(|p| p % n == s))
                && (m.len() >= due || a.iter().any(|p| !(lo..=hi).contains(p)) || t0.elapsed() > Duration::from_millis(1500));
            if served && served_at.is_none() {
                served_at = Some(std::time::Instant::now());
            }
            if served_at.is_some_and(|t| t.elapsed() > Duration::from_millis(60)) {
                break;
            }
            if t0.elapsed() > Duration::from_secs(5) {
                return "skip not-settled".to_owned();
            }
            tokio::time::sleep(Duration::from_millis(5)).await;
        }
        let a: Vec<u16> = aware.accepted.lock().unwrap()[base..].to_vec();
        let m: Vec<u16> = main.accepted.lock().unwrap().clone();
        let mut outside = 0;
        // what reached the shard-aware listener was opened by start_opening_connection's shard-aware arm: the property's
        // port clauses, said of the pool - in the configured range, a usable port (congruence is the node's own reading)
        for &p in &a {
            if !(lo..=hi).contains(&p) {
                outside += 1;
                ctx.fail(format!(
                    "shard-aware connection from source port {p} (shard {} of {n}), outside the configured range [{lo},{hi}]{}",
                    p % n,
                    if starved.contains(&(p % n)) { ": the range has no usable port of that shard, NoSourcePortForShard is due and nothing may be produced" } else { "" }
                ));
            } else if busy.contains(&p) {
                ctx.fail(format!("shard-aware connection from source port {p}, which is busy"));
            }
        }
        // a regular connection's source port is the operating system's: never one of the configured range
        for &p in &m {
            if (lo..=hi).contains(&p) {
                outside += 1;
                ctx.fail(format!("connection to the regular port from source port {p} of the configured range [{lo},{hi}] (the OS assigns {elo}..={ehi})"));
            }
        }
        // a starved shard must have been given up for a regular connection: at least one per starved shard
        let due = 1 + starved.iter().filter(|s| m.first().map(|p| p % n) != Some(**s)).count();
        if m.len() < due {
            ctx.fail(format!("{} shards have no usable port, but only {} connections went to the regular port ({due} are due: the first one and one follow-up per NoSourcePortForShard)", starved.len(), m.len()));
        }
        let words: Vec<String> = (0..n).map(|s| a.iter().find(|p| **p % n == s && (lo..=hi).contains(*p)).map(|p| p.to_string()).unwrap_or_else(|| "x".to_owned())).collect();
        drop(pool);
        format!("shards {} outside {}", words.join(","), outside)
    })
}

// ---------------------------------------------------------------------------------------------------------------
// features
// ---------------------------------------------------------------------------------------------------------------

/// `-` absent, `e` empty list, `""` the empty string, else the value; a second value is appended (only the FIRST counts).
fn entry_values(word: &str) -> Option<Vec<String>> {
    match word {
        "-" => None,
        "e" => Some(vec![]),
        "\"\"" => Some(vec![String::new(), "7".into()]),
        v => Some(vec![v.to_owned(), "7".into()]),
    }
}

fn run_features(w: &[&str], ctx: &mut Ctx) -> String {
    if w.len() != 7 || w[1] != "plain" {
        return "bad-case".into();
    }
    let v6 = w[0] == "features6";
    let _lock = if v6 {
        match v6_lock() {
            Some(l) => Some(l),
            None => return "skip no-v6-lock".into(),
        }
    } else {
        None
    };
    let keys = ["SCYLLA_SHARD", "SCYLLA_NR_SHARDS", "SCYLLA_SHARDING_IGNORE_MSB", "SCYLLA_SHARD_AWARE_PORT", "SCYLLA_SHARD_AWARE_PORT_SSL"];
    let mut entries = Vec::new();
    for (k, word) in keys.iter().zip(&w[2..7]) {
        if let Some(vs) = entry_values(word) {
            entries.push((k.to_string(), vs));
        }
    }
    let first = |i: usize| -> Option<String> { entry_values(w[2 + i]).and_then(|v| v.first().cloned()) };
    let rt = mockcluster::runtime(1);
    rt.block_on(async {
        let node_ip = if v6 { IpAddr::V6(Ipv6Addr::LOCALHOST) } else { IpAddr::V4(case_ips().0) };
        let node = match start_mini(node_ip, Script::Entries(entries), BTreeSet::new()).await {
            Ok(nd) => nd,
            Err(e) if v6 => return format!("skip no-ipv6-loopback:{:?}", e.kind()),
            Err(e) => return format!("skip listen:{:?}", e.kind()),
        };
        let conn = match VerifConn::open(node.addr, VerifConnOptions::default()).await {
            Ok(c) => c,
            Err(e) => {
                // a malformed sharding answer must never be fatal to the connection
                ctx.fail(format!("open_connection failed on this SUPPORTED: {e}"));
                return "open-failed".to_owned();
            }
        };
        let info = conn.shard_info();
        let port = conn.shard_aware_port();
        if v6 {
            node.close_all().await;
        }
        // oracle: the kept values are the first values of the RIGHT keys
        let expect_info = match (first(0), first(1), first(2)) {
            (Some(a), Some(b), Some(c)) => match (a.parse::<u16>(), b.parse::<u16>(), c.parse::<u8>()) {
                (Ok(a), Ok(b), Ok(c)) if b != 0 && a < b => Some((a, b, c)),
                _ => None,
            },
            _ => None,
        };
        if info != expect_info {
            ctx.fail(format!("connection keeps sharding info {info:?}, SUPPORTED says {expect_info:?}"));
        }
        let expect_port = first(3).and_then(|p| p.parse::<u16>().ok());
        if port != expect_port {
            ctx.fail(format!(
                "plain connection keeps shard-aware port {port:?}; SCYLLA_SHARD_AWARE_PORT says {expect_port:?} (SCYLLA_SHARD_AWARE_PORT_SSL: {:?})",
                first(4)
            ));
        }
        format!(
            "info={} port={}",
            info.map(|(a, b, c)| format!("{a}/{b}/{c}")).unwrap_or_else(|| "none".into()),
            port.map(|p| p.to_string()).unwrap_or_else(|| "none".into())
        )
    })
}

// ---------------------------------------------------------------------------------------------------------------
// the public wrappers, ShardAwarePortRange::new
// ---------------------------------------------------------------------------------------------------------------

fn run_pub(w: &[&str], ctx: &mut Ctx) -> String {
    let (Some(Ok(n)), Some(Ok(s))) = (w.get(1).map(|x| x.parse::<u16>()), w.get(2).map(|x| x.parse::<u32>())) else { return "bad-case".into() };
    let Some(nr) = ShardCount::new(n) else { return "bad-case".into() };
    let sharder = Sharder::new(nr, 0);
    let valid: Vec<u16> = (49152..=65535u16).filter(|p| (*p % n) as u32 == s).collect();
    // documented: the assertion `shard < nr_shards`; for `draw` also "no port to draw" (more than 16384 shards only)
    let may_panic_draw = s >= n as u32 || valid.is_empty();
    if w[0] == "drawpub" {
        let Some(Ok(k)) = w.get(3).map(|x| x.parse::<u32>()) else { return "bad-case".into() };
        let mut seen = Vec::new();
        let mut panics = 0;
        for _ in 0..k {
            match std::panic::catch_unwind(std::panic::AssertUnwindSafe(|| sharder.draw_source_port_for_shard(s))) {
                Ok(p) => {
                    if !valid.contains(&p) {
                        ctx.fail(format!("draw_source_port_for_shard({s}) = {p}: not an ephemeral port of shard {s} of {n}"));
                    }
                    seen.push(p);
                }
                Err(_) => panics += 1,
            }
        }
        if panics > 0 && !may_panic_draw {
            ctx.fail(format!("draw_source_port_for_shard({s}) panicked although nr_shards = {n} has port {} for the shard", valid[0]));
        }
        if panics > 0 && n <= 16384 && s < n as u32 {
            ctx.fail(format!("draw_source_port_for_shard({s}) panicked with nr_shards = {n} <= 16384"));
        }
        if panics == 0 && may_panic_draw && k > 0 {
            ctx.fail(format!("draw_source_port_for_shard({s}) with nr_shards = {n} returned {seen:?}: no such port exists"));
        }
        if panics > 0 && !seen.is_empty() {
            return "mixed".into();
        }
        if panics > 0 {
            return "panic".into();
        }
        seen.sort_unstable();
        seen.dedup();
        nat_list(&seen)
    } else {
        match std::panic::catch_unwind(std::panic::AssertUnwindSafe(|| sharder.iter_source_ports_for_shard(s).collect::<Vec<u16>>())) {
            Ok(ps) => {
                if s >= n as u32 {
                    ctx.fail(format!("iter_source_ports_for_shard({s}) with nr_shards = {n} did not assert"));
                }
                let mut sorted = ps.clone();
                sorted.sort_unstable();
                if sorted != valid {
                    ctx.fail(format!("iter_source_ports_for_shard({s}) visits {} ports, the ephemeral range has {} of shard {s} of {n}", ps.len(), valid.len()));
                }
                nat_list(&ps)
            }
            Err(_) => {
                if s < n as u32 {
                    ctx.fail(format!("iter_source_ports_for_shard({s}) panicked with nr_shards = {n}"));
                }
                "panic".into()
            }
        }
    }
}

fn run_range(w: &[&str], ctx: &mut Ctx) -> String {
    let (Some(Ok(lo)), Some(Ok(hi))) = (w.get(1).map(|x| x.parse::<u16>()), w.get(2).map(|x| x.parse::<u16>())) else { return "bad-case".into() };
    let ok = ShardAwarePortRange::new(lo..=hi).is_ok();
    if ok != (lo >= 1024 && lo <= hi) {
        ctx.fail(format!("ShardAwarePortRange::new({lo}..={hi}) is_ok = {ok}"));
    }
    if ok { "ok".into() } else { "err".into() }
}

pub fn run(w: &[&str], ctx: &mut Ctx) -> Option<String> {
    Some(match w[0] {
        "conn" | "conn6" => run_conn(w, ctx),
        "sess" => run_sess(w, ctx),
        "sessx" => run_sessx(w, ctx),
        "poolx" => run_poolx(w, ctx),
        "features" | "features6" => run_features(w, ctx),
        "drawpub" | "iterpub" => run_pub(w, ctx),
        "range" => run_range(w, ctx),
        _ => return None,
    })
}

//! C13: a scripted `LoadBalancingPolicy` — `pick()` and `fallback()` return exactly the scripted entries — so that the
//! REAL `load_balancing::Plan` (pick, then fallback minus exact copies of the picked entry; `pick = None`: the first
//! fallback entry takes its role) is driven on arbitrary policies, not only on the ones the driver ships.
use scylla::cluster::{ClusterState, NodeRef};
use scylla::policies::load_balancing::{FallbackPlan, LoadBalancingPolicy, RoutingInfo};
use scylla::routing::Shard;
use std::net::SocketAddr;

/// How a scripted entry names its node.
#[derive(Clone, Debug, PartialEq)]
pub enum NodeKey {
    Host(uuid::Uuid),
    Addr(SocketAddr),
}

#[derive(Debug)]
pub struct ScriptedLb {
    pub pick: Option<(NodeKey, Option<Shard>)>,
    pub fallback: Vec<(NodeKey, Option<Shard>)>,
}

fn find<'a>(cluster: &'a ClusterState, key: &NodeKey) -> Option<NodeRef<'a>> {
    cluster.get_nodes_info().iter().find(|n| match key {
        NodeKey::Host(h) => n.host_id == *h,
        NodeKey::Addr(a) => SocketAddr::new(n.address.ip(), n.address.port()) == *a,
    })
}

impl LoadBalancingPolicy for ScriptedLb {
    fn pick<'a>(&'a self, _request: &'a RoutingInfo, cluster: &'a ClusterState) -> Option<(NodeRef<'a>, Option<Shard>)> {
        let (k, s) = self.pick.as_ref()?;
        find(cluster, k).map(|n| (n, *s))
    }

    fn fallback<'a>(&'a self, _request: &'a RoutingInfo, cluster: &'a ClusterState) -> FallbackPlan<'a> {
        Box::new(self.fallback.iter().filter_map(move |(k, s)| find(cluster, k).map(|n| (n, *s))))
    }

    fn name(&self) -> String {
        "ScriptedLb".to_owned()
    }
}

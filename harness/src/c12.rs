//! C12 — token-aware requests are first sent to an owning replica and shard.
//!
//! Three case kinds (Lean side: `lean/ScyllaVerif/Drive/C12.lean`, model `Model/Routing.lean`):
//!
//! ```text
//! plan[.<tag>] <topology> <strategies> <tablets> <config> <request> <tbl> <samples>
//!     topology / strategies : topology.rs (peer flags: `d` = rejected by the host filter, `x` = no usable connection)
//!     tablets  := "-" | table ("+" table)*        table := ks "." tbl ("@" tablet)*      (tablets in insertion order)
//!     tablet   := first "_" last "_" ("-" | host "." shard ("," host "." shard)*)        (first = first OWNED token)
//!     config / request : as C05 (c05.rs); the request's table is `k<ks>.t<tbl>`
//! pool[.<tag>]  <nr_shards> <msb> <S<k>|H<k>> <p|n> <requested shards, comma separated>
//! route[.<tag>] <nr_shards> <msb> <S<k>|H<k>> <p|n> <tokens, comma separated>
//!     S<k> = PoolSize::PerShard(k), H<k> = PerHost(k); p / n = shard-aware port may / may not be used
//! ```
//! `plan`: the cluster is built by `ClusterState::new` (hook `cluster_from_topology_with_tablets`), tablets are fed
//! through `ClusterState::verif_update_tablets` (= `update_tablets`, what the cluster worker does with tablet
//! payloads); per sample the first item of `Plan::new(DefaultPolicy, RoutingInfo, cluster)` and `pick()` / first of
//! `fallback()` (which still show whether the policy supplied a shard) are recorded.
//! `pool` / `route`: a REAL `NodeConnectionPool` + refiller (`VerifPool`) against `mocknode` in `ShardMode::ByPort`
//! (server-side shard of a connection = source port % nr_shards, as ScyllaDB's shard-aware port); `route` computes the
//! shard with the public `Sharder::shard_of` first. The server-side shard of the connection that carried each QUERY is
//! what is printed.
//!
//! Oracle (independent of the Lean model): the first target is a live permitted replica of the token whenever one
//! exists (brute-force placement rules for the ring, a history shadow for tablets), one of the preferred datacenter
//! when that datacenter has a live replica; for tablet tables with the tablet's shard; the connection that carried a
//! query has server-side shard == requested shard whenever the pool holds a connection of that shard (the mock knows),
//! and the shard the driver believes the connection has is the server's; `shard_of` equals ScyllaDB's formula.
use crate::mocknode::{Action, MockNode, Parsed, RESP_RESULT, ShardMode, body_void};
use crate::rng::Rng;
use crate::topology::*;
use crate::{Ctx, Tier};
use scylla::client::PoolSize;
use scylla::cluster::ClusterState;
use scylla::frame::response::result::TableSpec;
use scylla::frame::types::{Consistency, SerialConsistency};
use scylla::policies::load_balancing::{DefaultPolicy, LoadBalancingPolicy, Plan, RoutingInfo};
use scylla::routing::{NodeLocationPreference, ShardCount, Sharder, Token};
use scylla::verif_hooks::cluster::{
    KeyspaceSpec, NodeSpec, cluster_from_topology_with_tablets, cluster_refresh, cluster_refresh_accepting,
    cluster_refresh_topology_accepting, set_sharders,
};
use scylla::verif_hooks::pool::VerifPool;
use std::cell::RefCell;
use std::collections::HashMap;
use std::num::NonZeroUsize;
use std::rc::Rc;
use std::sync::Arc;
use std::time::Duration;

// ---------------------------------------------------------------------------------------------
// case syntax (config / request as in c05.rs)

#[derive(Clone, Debug, PartialEq, Eq)]
enum Pref {
    Inherit,
    Any,
    Dc(u32),
    DcRack(u32, u32),
}

impl Pref {
    fn parse(s: &str) -> Option<Pref> {
        match s {
            "i" => Some(Pref::Inherit),
            "a" => Some(Pref::Any),
            _ if s.starts_with('d') => s[1..].parse().ok().map(Pref::Dc),
            _ if s.starts_with('r') => {
                let (d, r) = s[1..].split_once('.')?;
                Some(Pref::DcRack(d.parse().ok()?, r.parse().ok()?))
            }
            _ => None,
        }
    }
    fn fmt(&self) -> String {
        match self {
            Pref::Inherit => "i".into(),
            Pref::Any => "a".into(),
            Pref::Dc(d) => format!("d{}", d),
            Pref::DcRack(d, r) => format!("r{}.{}", d, r),
        }
    }
    fn to_driver(&self) -> NodeLocationPreference {
        match self {
            Pref::Inherit | Pref::Any => NodeLocationPreference::Any,
            Pref::Dc(d) => NodeLocationPreference::Datacenter(dc_name(*d)),
            Pref::DcRack(d, r) => NodeLocationPreference::DatacenterAndRack(dc_name(*d), rack_name(*r)),
        }
    }
    fn dc(&self) -> Option<u32> {
        match self {
            Pref::Dc(d) | Pref::DcRack(d, _) => Some(*d),
            _ => None,
        }
    }
}

struct Config {
    pref: Pref,
    token_aware: bool,
    failover: bool,
    shuffle: bool,
}

struct Request {
    token: Option<i64>,
    ks: Option<usize>,
    lwt: bool,
    consistency: Consistency,
    serial: Option<SerialConsistency>,
    pref: Pref,
}

const CONSISTENCIES: [(&str, Consistency); 11] = [
    ("any", Consistency::Any),
    ("one", Consistency::One),
    ("two", Consistency::Two),
    ("three", Consistency::Three),
    ("quorum", Consistency::Quorum),
    ("all", Consistency::All),
    ("lq", Consistency::LocalQuorum),
    ("eq", Consistency::EachQuorum),
    ("lo", Consistency::LocalOne),
    ("serial", Consistency::Serial),
    ("lserial", Consistency::LocalSerial),
];

fn flag(s: &str, yes: &str, no: &str) -> Option<bool> {
    if s == yes {
        Some(true)
    } else if s == no {
        Some(false)
    } else {
        None
    }
}

fn parse_config(s: &str) -> Option<Config> {
    let f: Vec<&str> = s.split('/').collect();
    if f.len() != 4 {
        return None;
    }
    Some(Config {
        pref: Pref::parse(f[0])?,
        token_aware: flag(f[1], "t", "n")?,
        failover: flag(f[2], "f", "n")?,
        shuffle: flag(f[3], "s", "x")?,
    })
}

fn parse_request(s: &str) -> Option<Request> {
    let f: Vec<&str> = s.split('/').collect();
    if f.len() != 6 {
        return None;
    }
    let pref = Pref::parse(f[5])?;
    if pref == Pref::Inherit {
        return None;
    }
    Some(Request {
        token: if f[0] == "-" { None } else { Some(f[0].parse().ok()?) },
        ks: if f[1] == "-" { None } else { Some(f[1].parse().ok()?) },
        lwt: flag(f[2], "1", "0")?,
        consistency: CONSISTENCIES.iter().find(|(n, _)| *n == f[3])?.1,
        serial: match f[4] {
            "-" => None,
            "s" => Some(SerialConsistency::Serial),
            "l" => Some(SerialConsistency::LocalSerial),
            _ => return None,
        },
        pref,
    })
}

#[derive(Clone, Debug)]
struct TabletSpec {
    first: i64,
    last: i64,
    reps: Vec<(u64, u32)>,
}

#[derive(Clone, Debug)]
struct TableDecl {
    ks: usize,
    tbl: usize,
    tablets: Vec<TabletSpec>,
}

fn parse_tablet(s: &str) -> Option<TabletSpec> {
    let f: Vec<&str> = s.split('_').collect();
    if f.len() != 3 {
        return None;
    }
    let first: i64 = f[0].parse().ok()?;
    let last: i64 = f[1].parse().ok()?;
    if norm_token(first) > norm_token(last) {
        return None;
    }
    let reps = if f[2] == "-" {
        vec![]
    } else {
        f[2].split(',')
            .map(|r| {
                let (h, s) = r.split_once('.')?;
                Some((h.parse().ok()?, s.parse().ok()?))
            })
            .collect::<Option<Vec<(u64, u32)>>>()?
    };
    Some(TabletSpec { first, last, reps })
}

fn parse_tables(s: &str) -> Option<Vec<TableDecl>> {
    if s == "-" {
        return Some(vec![]);
    }
    let mut out: Vec<TableDecl> = Vec::new();
    for t in s.split('+') {
        let mut parts = t.split('@');
        let (ks, tbl) = parts.next()?.split_once('.')?;
        let (ks, tbl): (usize, usize) = (ks.parse().ok()?, tbl.parse().ok()?);
        if out.iter().any(|d| d.ks == ks && d.tbl == tbl) {
            return None;
        }
        let tablets = parts.map(parse_tablet).collect::<Option<Vec<_>>>()?;
        out.push(TableDecl { ks, tbl, tablets });
    }
    Some(out)
}

fn fmt_tables(v: &[TableDecl]) -> String {
    if v.is_empty() {
        return "-".into();
    }
    v.iter()
        .map(|d| {
            let mut s = format!("{}.{}", d.ks, d.tbl);
            for t in &d.tablets {
                let reps = if t.reps.is_empty() {
                    "-".to_owned()
                } else {
                    t.reps.iter().map(|(h, sh)| format!("{}.{}", h, sh)).collect::<Vec<_>>().join(",")
                };
                s.push_str(&format!("@{}_{}_{}", t.first, t.last, reps));
            }
            s
        })
        .collect::<Vec<_>>()
        .join("+")
}

// ---------------------------------------------------------------------------------------------
// cluster construction (cached: cases of one topology are consecutive)

/// Peer flags of C12: `[d][x][s<nr_shards>m<msb_ignore>]` - `d` = rejected by the host filter, `x` = no usable
/// connection, `s..m..` = the node's sharder (absent: a node without shards). `None` = malformed.
fn parse_flags(flags: &str) -> Option<Option<(u16, u8)>> {
    let (pre, suf) = match flags.find('s') {
        Some(i) => (&flags[..i], Some(&flags[i + 1..])),
        None => (flags, None),
    };
    // `d`, `x`, and `g<digit>`: an address group (peers of one group share ONE address and are told apart by host id
    // only; `topology::AddrGuard`) - accepted in plan / stmt cases, nothing of the routing may depend on it
    let mut cs = pre.chars();
    while let Some(c) = cs.next() {
        match c {
            'd' | 'x' => {}
            'g' if cs.next().is_some_and(|d| d.is_ascii_digit()) => {}
            _ => return None,
        }
    }
    match suf {
        None => Some(None),
        Some(suf) => {
            let (nr, msb) = suf.split_once('m')?;
            if nr.is_empty() || msb.is_empty() || !nr.chars().all(|c| c.is_ascii_digit()) || !msb.chars().all(|c| c.is_ascii_digit()) {
                return None;
            }
            let (nr, msb): (u32, u32) = (nr.parse().ok()?, msb.parse().ok()?);
            if nr == 0 || nr > 65535 || msb >= 64 {
                return None;
            }
            Some(Some((nr as u16, msb as u8)))
        }
    }
}

thread_local! {
    static RT: tokio::runtime::Runtime =
        tokio::runtime::Builder::new_current_thread().enable_all().build().unwrap();
    static CACHE: RefCell<HashMap<String, Rc<ClusterState>>> = RefCell::new(HashMap::new());
}

fn build(peers: &[PeerSpec], kss: &[Strat], tables: &[TableDecl]) -> ClusterState {
    let _addr = AddrGuard::new(peers);
    let nodes: Vec<NodeSpec> = peers
        .iter()
        .map(|p| NodeSpec {
            host_id: host_id(p.id),
            datacenter: p.dc.map(dc_name),
            rack: p.rack.map(rack_name),
            tokens: p.tokens.clone(),
            enabled: !p.flags.contains('d'),
            connected: !p.flags.contains('x'),
        })
        .collect();
    let ks: Vec<KeyspaceSpec> =
        kss.iter().enumerate().map(|(i, s)| KeyspaceSpec { name: format!("k{}", i), strategy: to_strategy(s) }).collect();
    let mut tablet_tables: HashMap<String, Vec<String>> = HashMap::new();
    for d in tables {
        tablet_tables.entry(format!("k{}", d.ks)).or_default().push(format!("t{}", d.tbl));
    }
    let mut cs = RT.with(|rt| rt.block_on(cluster_from_topology_with_tablets(&nodes, &ks, &tablet_tables)));
    // one `update_tablets` call per tablet, in insertion order (as feedback arrives request by request)
    for d in tables {
        for t in &d.tablets {
            let reps: Vec<(uuid::Uuid, u32)> = t.reps.iter().map(|(h, s)| (host_id(*h), *s)).collect();
            cs.verif_update_tablets(&[(format!("k{}", d.ks), format!("t{}", d.tbl), t.first, t.last, reps)]);
        }
    }
    // per-node sharders (`Node::sharder()` of the pool-less hook nodes)
    let sharders: HashMap<uuid::Uuid, (u16, u8)> =
        peers.iter().filter_map(|p| parse_flags(&p.flags).flatten().map(|s| (host_id(p.id), s))).collect();
    set_sharders(&cs, &sharders);
    cs
}

fn cluster(key: String, make: impl FnOnce() -> ClusterState) -> Rc<ClusterState> {
    CACHE.with(|c| {
        let mut c = c.borrow_mut();
        if let Some(cs) = c.get(&key) {
            return cs.clone();
        }
        if c.len() >= 16 {
            c.clear();
        }
        let cs = Rc::new(make());
        c.insert(key, cs.clone());
        cs
    })
}

// ---------------------------------------------------------------------------------------------
// brute-force replica placement (the two rules of the C04 property statement) and the tablet history shadow

fn ring_of(peers: &[PeerSpec], only_dc: Option<u32>) -> Vec<(i64, usize)> {
    let mut r: Vec<(i64, usize)> = Vec::new();
    for (i, p) in peers.iter().enumerate() {
        if only_dc.is_none() || p.dc == only_dc {
            for t in &p.tokens {
                r.push((norm_token(*t), i));
            }
        }
    }
    r.sort_by_key(|e| e.0);
    r
}

fn clockwise_distinct(ring: &[(i64, usize)], tok: i64) -> Vec<usize> {
    let mut out: Vec<usize> = Vec::new();
    for (_, n) in ring.iter().filter(|e| e.0 >= tok).chain(ring.iter().filter(|e| e.0 < tok)) {
        if !out.contains(n) {
            out.push(*n);
        }
    }
    out
}

fn brute_nts_dc(peers: &[PeerSpec], tok: i64, dc: u32, rf: usize) -> Vec<usize> {
    let nodes = clockwise_distinct(&ring_of(peers, Some(dc)), tok);
    let mut racks: Vec<Option<u32>> = nodes.iter().map(|i| peers[*i].rack).collect();
    racks.sort();
    racks.dedup();
    let allowed_repeats = rf.saturating_sub(racks.len());
    let target = rf.min(nodes.len());
    let mut taken: Vec<usize> = Vec::new();
    let mut repeats = 0usize;
    for n in nodes {
        if taken.len() == target {
            break;
        }
        if !taken.iter().any(|t| peers[*t].rack == peers[n].rack) {
            taken.push(n);
        } else if repeats < allowed_repeats {
            repeats += 1;
            taken.push(n);
        }
    }
    taken
}

/// Ring replicas of the token: (host id, None) - the shard is whatever the node's sharder says.
fn brute_ring_replicas(peers: &[PeerSpec], strat: &Strat, tok: i64) -> Vec<u64> {
    let simple =
        |rf: usize| -> Vec<usize> { clockwise_distinct(&ring_of(peers, None), tok).into_iter().take(rf).collect() };
    let idx = match strat {
        Strat::Simple(rf) => simple(*rf),
        Strat::Nts(v) => v.iter().flat_map(|(dc, rf)| brute_nts_dc(peers, tok, *dc, *rf)).collect(),
        Strat::Local | Strat::Other => simple(1),
    };
    idx.into_iter().map(|i| peers[i].id).collect()
}

/// The tablet covering the token according to the insert history alone: the latest insert covering it, unless a later
/// insert overlapped it.
fn shadow_tablet(tablets: &[TabletSpec], tok: i64) -> Option<&TabletSpec> {
    let range = |t: &TabletSpec| (norm_token(t.first), norm_token(t.last));
    for (i, t) in tablets.iter().enumerate().rev() {
        let (f, l) = range(t);
        if f <= tok && tok <= l {
            let overlapped = tablets[i + 1..].iter().any(|u| {
                let (uf, ul) = range(u);
                uf <= l && f <= ul
            });
            return if overlapped { None } else { Some(t) };
        }
    }
    None
}

// ---------------------------------------------------------------------------------------------
// plan cases

fn run_plan(w: &[&str], ctx: &mut Ctx) -> String {
    let (Some(peers), Some(kss), Some(tables), Some(cfg), Some(rq), Ok(tbl), Ok(samples)) = (
        parse_topology(w[1]),
        parse_strategies(w[2]),
        parse_tables(w[3]),
        parse_config(w[4]),
        parse_request(w[5]),
        w[6].parse::<usize>(),
        w[7].parse::<usize>(),
    ) else {
        return "bad-case".into();
    };
    if peers.iter().any(|p| parse_flags(&p.flags).is_none()) {
        return "bad-case".into();
    }
    let cs = cluster(format!("{} {} {}", w[1], w[2], w[3]), || build(&peers, &kss, &tables));
    // the covering tablet according to the insert history alone (None: the table has no tablet map)
    let tablet_expect: Option<Vec<(u64, u32)>> = rq.ks.and_then(|k| tables.iter().find(|d| d.ks == k && d.tbl == tbl)).map(|d| {
        rq.token
            .and_then(|t| shadow_tablet(&d.tablets, norm_token(t)))
            .map(|t| t.reps.iter().filter(|(h, _)| peers.iter().any(|p| p.id == *h)).cloned().collect())
            .unwrap_or_default()
    });
    observe(&cs, &peers, &kss, &cfg, &rq, tbl, samples, tablet_expect, None, ctx)
}

/// The observation of a `plan` / `hist` case on a built cluster state. `tablet_expect`: `Some(replicas with shards)` of
/// the tablet that covers the token according to the harness's own history shadow (empty: none covers it), `None` for
/// a table without tablet map.
#[allow(clippy::too_many_arguments)]
fn observe(
    cs: &ClusterState,
    peers: &[PeerSpec],
    kss: &[Strat],
    cfg: &Config,
    rq: &Request,
    tbl: usize,
    samples: usize,
    tablet_expect: Option<Vec<(u64, u32)>>,
    // the `Token` object to route with (stmt cases hand over what `calculate_token` returned, as `Session::execute`
    // does - un-normalised); `None`: `Token::new(rq.token)`
    raw_token: Option<Token>,
    ctx: &mut Ctx,
) -> String {

    let mut b = DefaultPolicy::builder()
        .token_aware(cfg.token_aware)
        .permit_dc_failover(cfg.failover)
        .enable_shuffling_replicas(cfg.shuffle);
    b = match &cfg.pref {
        Pref::Inherit => b.inherit_location_preference(),
        Pref::Any => b.prefer_no_datacenter(),
        Pref::Dc(d) => b.prefer_datacenter(dc_name(*d)),
        Pref::DcRack(d, r) => b.prefer_datacenter_and_rack(dc_name(*d), rack_name(*r)),
    };
    let policy: Arc<dyn LoadBalancingPolicy> = b.build();

    let table: Option<TableSpec<'static>> = rq.ks.map(|k| TableSpec::owned(format!("k{}", k), format!("t{}", tbl)));
    let req_pref = rq.pref.to_driver();
    let mut ri = RoutingInfo::default();
    ri.consistency = rq.consistency;
    ri.serial_consistency = rq.serial;
    ri.token = raw_token.or(rq.token.map(Token::new));
    ri.table = table.as_ref();
    ri.is_confirmed_lwt = rq.lwt;
    ri.node_location_preference = &req_pref;

    let pref = if cfg.pref == Pref::Inherit { rq.pref.clone() } else { cfg.pref.clone() };

    // ---- deterministic part: the replica set the locator answers for the token (all DCs / the preferred DC)
    let fmt_reps = |v: &[(u64, u32)]| -> String {
        if v.is_empty() { "-".into() } else { v.iter().map(|(i, s)| format!("{}.{}", i, s)).collect::<Vec<_>>().join(",") }
    };
    let strategy = rq.ks.and_then(|k| cs.get_keyspace(format!("k{}", k))).map(|k| k.strategy.clone());
    let (r_all, r_dc): (Option<Vec<(u64, u32)>>, Option<Vec<(u64, u32)>>) = match (&strategy, ri.token, table.as_ref()) {
        (Some(st), Some(tok), Some(ts)) => {
            let get = |dc: Option<&str>| -> Vec<(u64, u32)> {
                cs.replica_locator().replicas_for_token(tok, st, dc, ts).into_iter().map(|(n, s)| (node_id(n.host_id), s)).collect()
            };
            let dcn = pref.dc().map(dc_name);
            (Some(get(None)), dcn.as_deref().map(|d| get(Some(d))))
        }
        _ => (None, None),
    };
    let show = |o: &Option<Vec<(u64, u32)>>| o.as_ref().map(|v| fmt_reps(v)).unwrap_or_else(|| "x".into());

    // ---- what the property statement says, computed without the model
    let by_id: HashMap<u64, &PeerSpec> = peers.iter().map(|p| (p.id, p)).collect();
    // replicas named for a datacenter are IN that datacenter, and they are exactly the replicas of the unrestricted
    // answer that are in it (same shards, same order) - also when there is none (an empty restriction is empty)
    if let (Some(rd), Some(ra), Some(d)) = (&r_dc, &r_all, pref.dc()) {
        for (id, _) in rd {
            if by_id.get(id).map(|p| p.dc) != Some(Some(d)) {
                ctx.fail(format!(
                    "replicas_for_token restricted to datacenter dc{} names node {} which is in {:?} (restricted answer {}, unrestricted {})",
                    d,
                    id,
                    by_id.get(id).and_then(|p| p.dc).map(dc_name),
                    fmt_reps(rd),
                    fmt_reps(ra)
                ));
            }
        }
        let want: Vec<(u64, u32)> = ra.iter().filter(|(id, _)| by_id.get(id).map(|p| p.dc) == Some(Some(d))).cloned().collect();
        let (mut a, mut b) = (rd.clone(), want.clone());
        a.sort();
        b.sort();
        if a != b {
            ctx.fail(format!(
                "replicas_for_token restricted to datacenter dc{} answers {} but the unrestricted answer {} has {} there",
                d,
                fmt_reps(rd),
                fmt_reps(ra),
                fmt_reps(&want)
            ));
        }
    }
    let live = |p: &PeerSpec| !p.flags.contains('d') && !p.flags.contains('x');
    let permitted = |p: &PeerSpec| pref.dc().is_none() || cfg.failover || p.dc == pref.dc();
    let decl = tablet_expect.as_ref();
    // (`Token::INVALID` = i64::MIN - what the CDC partitioner answers for a key shorter than 8 bytes - is no key's
    // token: the statement says nothing about it)
    let tokn = if raw_token.is_some_and(|t| t.value() == i64::MIN) { None } else { rq.token.map(norm_token) };
    // the shard ScyllaDB's algorithm gives the token on THIS node (its own nr_shards / msb_ignore; 0 without sharder)
    let node_shard = |h: u64, tok: i64| -> u32 {
        match by_id.get(&h).and_then(|p| parse_flags(&p.flags).flatten()) {
            Some((n, msb)) => literal_shard(n, msb, tok),
            None => 0,
        }
    };
    // expected replicas with their shards: the tablet's shard, or the token's shard under the replica's own sharder;
    // None = the statement does not apply
    let expected: Option<Vec<(u64, Option<u32>)>> = match (cfg.token_aware, tokn, rq.ks.and_then(|k| kss.get(k))) {
        (true, Some(tok), Some(strat)) => Some(match decl {
            Some(reps) => reps.iter().map(|(h, s)| (*h, Some(*s))).collect(),
            None => brute_ring_replicas(peers, strat, tok).into_iter().map(|h| (h, Some(node_shard(h, tok)))).collect(),
        }),
        _ => None,
    };
    if let (Some(exp), Some(ra)) = (&expected, &r_all) {
        // the locator's answer is the brute-force replica set with the right shards (order-insensitive)
        let mut a: Vec<(u64, Option<u32>)> = ra.iter().map(|(i, s)| (*i, Some(*s))).collect();
        let mut e = exp.clone();
        a.sort();
        e.sort();
        if a != e {
            ctx.fail(format!("replicas_for_token answers {} but the {} says {:?}", fmt_reps(ra), if decl.is_some() { "covering tablet" } else { "placement rule" }, e));
        }
    }
    let live_perm: Vec<(u64, Option<u32>)> = expected
        .as_ref()
        .map(|e| e.iter().filter(|(h, _)| by_id.get(h).is_some_and(|p| live(p) && permitted(p))).cloned().collect())
        .unwrap_or_default();
    let live_local: Vec<(u64, Option<u32>)> = match pref.dc() {
        Some(d) => live_perm.iter().filter(|(h, _)| by_id[h].dc == Some(d)).cloned().collect(),
        None => vec![],
    };

    let mut plan_obs: Vec<String> = Vec::new();
    let mut pf_obs: Vec<String> = Vec::new();
    for k in 0..samples.max(1) {
        let first: Option<(u64, u32)> = Plan::new(&*policy, &ri, &cs).next().map(|(n, s)| (node_id(n.host_id), s));
        let pf: Option<(u64, Option<u32>)> = policy
            .pick(&ri, &cs)
            .or_else(|| policy.fallback(&ri, &cs).next())
            .map(|(n, s)| (node_id(n.host_id), s));
        // ---- oracle
        for (what, node, shard) in [("Plan", first.map(|f| f.0), first.map(|f| Some(f.1))), ("policy", pf.map(|f| f.0), pf.map(|f| f.1))] {
            if live_perm.is_empty() {
                continue;
            }
            let Some(node) = node else {
                ctx.fail(format!("sample {}: {} yields no first target although live permitted replicas exist: {:?}", k, what, live_perm));
                continue;
            };
            let shard = shard.flatten();
            let target_set = if !live_local.is_empty() { &live_local } else { &live_perm };
            let hit = target_set.iter().any(|(h, s)| *h == node && (s.is_none() || *s == shard));
            if !hit && decl.is_none() && shard.is_some() && target_set.iter().any(|(h, _)| *h == node) {
                ctx.fail(format!(
                    "sample {}: {} sends the request for token {:?} to ring replica {} with shard {:?}, but ScyllaDB's algorithm under THAT node's sharder {:?} gives shard {}",
                    k,
                    what,
                    tokn,
                    node,
                    shard,
                    by_id.get(&node).and_then(|p| parse_flags(&p.flags).flatten()),
                    node_shard(node, tokn.unwrap_or(0))
                ));
            } else if !hit {
                ctx.fail(format!(
                    "sample {}: first target of {} is node {} shard {:?}, not one of the live {}replicas {:?} of token {:?}",
                    k,
                    what,
                    node,
                    shard,
                    if !live_local.is_empty() { "preferred-datacenter " } else { "permitted " },
                    target_set,
                    tokn
                ));
            } else if what == "policy" && shard.is_none() {
                ctx.fail(format!("sample {}: the policy sends the request to replica {} without a shard", k, node));
            }
        }
        if let Some((node, shard)) = first {
            // a target that is no replica gets a random shard of ITS node (0 on a node without shards)
            let is_rep = expected.as_ref().is_some_and(|e| e.iter().any(|(h, _)| *h == node));
            let nr = by_id.get(&node).and_then(|p| parse_flags(&p.flags).flatten()).map(|s| s.0 as u32).unwrap_or(1);
            if !is_rep && shard >= nr {
                ctx.fail(format!("sample {}: Plan gives node {} (not a replica) shard {} but the node has {} shard(s)", k, node, shard, nr));
            }
        }
        let p = first.map(|(i, s)| format!("{}:{}", i, s)).unwrap_or_else(|| "-".into());
        if !plan_obs.contains(&p) {
            plan_obs.push(p);
        }
        let f = pf
            .map(|(i, s)| match s {
                Some(s) => format!("{}.s{}", i, s),
                None => format!("{}.n", i),
            })
            .unwrap_or_else(|| "-".into());
        if !pf_obs.contains(&f) {
            pf_obs.push(f);
        }
    }
    plan_obs.sort();
    pf_obs.sort();
    format!("R={} D={} | plan={} pf={}", show(&r_all), if pref.dc().is_some() { show(&r_dc) } else { "x".into() }, plan_obs.join(","), pf_obs.join(","))
}


// ---------------------------------------------------------------------------------------------
// hist cases: tablet updates interleaved with metadata refreshes

enum HOp {
    /// tablet feedback as it arrives: the bytes stored under `tablets-routing-v1` in a response's custom payload
    Payload(usize, usize, Vec<u8>),
    Learn(usize, usize, TabletSpec),
    Declare(usize, usize),
    Refresh(Vec<PeerSpec>),
    /// a refresh whose host filter accepts every peer (`G`: `new_updated`, `H`: `new_with_updated_topology`)
    RefreshAcc(Vec<PeerSpec>, bool),
}

fn parse_ks_tbl(s: &str) -> Option<(usize, usize)> {
    let (ks, tbl) = s.split_once('.')?;
    Some((ks.parse().ok()?, tbl.parse().ok()?))
}

fn parse_hops(s: &str) -> Option<Vec<HOp>> {
    if s == "-" {
        return Some(vec![]);
    }
    s.split('+')
        .map(|op| {
            let (kind, rest) = (op.get(..1)?, op.get(1..)?);
            match kind {
                "T" => {
                    let (name, t) = rest.split_once('@')?;
                    if t.contains('@') {
                        return None;
                    }
                    let (ks, tbl) = parse_ks_tbl(name)?;
                    Some(HOp::Learn(ks, tbl, parse_tablet(t)?))
                }
                "B" => {
                    let (name, hexs) = rest.split_once('@')?;
                    let (ks, tbl) = parse_ks_tbl(name)?;
                    Some(HOp::Payload(ks, tbl, crate::util::unhex(hexs)?))
                }
                "E" => parse_ks_tbl(rest).map(|(ks, tbl)| HOp::Declare(ks, tbl)),
                "R" => parse_topology(rest).map(HOp::Refresh),
                "G" => parse_topology(rest).map(|p| HOp::RefreshAcc(p, false)),
                "H" => parse_topology(rest).map(|p| HOp::RefreshAcc(p, true)),
                _ => None,
            }
        })
        .collect()
}

fn node_specs(peers: &[PeerSpec]) -> Vec<NodeSpec> {
    peers
        .iter()
        .map(|p| NodeSpec {
            host_id: host_id(p.id),
            datacenter: p.dc.map(dc_name),
            rack: p.rack.map(rack_name),
            tokens: p.tokens.clone(),
            enabled: !p.flags.contains('d'),
            connected: !p.flags.contains('x'),
        })
        .collect()
}

fn apply_sharders(cs: &ClusterState, peers: &[PeerSpec]) {
    let sharders: HashMap<uuid::Uuid, (u16, u8)> =
        peers.iter().filter_map(|p| parse_flags(&p.flags).flatten().map(|s| (host_id(p.id), s))).collect();
    set_sharders(cs, &sharders);
}

/// The harness's own record of one learnt tablet (written from the documentation of `perform_maintenance`, not from
/// the model): the raw replica list, the replicas resolved so far, whether some replica was unknown when it was learnt.
struct ShTablet {
    first: i64,
    last: i64,
    raw: Vec<(u64, u32)>,
    resolved: Vec<(u64, u32)>,
    failed: bool,
}

fn run_hist(w: &[&str], ctx: &mut Ctx) -> String {
    let (Some(peers0), Some(kss), Some(ops), Some(cfg), Some(rq), Ok(tbl), Ok(samples)) = (
        parse_topology(w[1]),
        parse_strategies(w[2]),
        parse_hops(w[3]),
        parse_config(w[4]),
        parse_request(w[5]),
        w[6].parse::<usize>(),
        w[7].parse::<usize>(),
    ) else {
        return "bad-case".into();
    };
    // flags well-formed; a host keeps its sharder for the whole history
    let mut all: Vec<&PeerSpec> = peers0.iter().collect();
    for op in &ops {
        if let HOp::Refresh(ps) | HOp::RefreshAcc(ps, _) = op {
            all.extend(ps.iter());
        }
    }
    // a history is driven either with rejected peers (R) or with accepted ones (G / H: every node must then read as
    // enabled, i.e. no `d` flag - the override is what `calculate_new_topology` sees)
    let acc = ops.iter().any(|o| matches!(o, HOp::RefreshAcc(..)));
    if acc && (ops.iter().any(|o| matches!(o, HOp::Refresh(_))) || all.iter().any(|p| p.flags.contains('d'))) {
        return "bad-case".into();
    }
    if all.iter().any(|p| parse_flags(&p.flags).is_none() || p.flags.contains('g'))
        || all.iter().any(|p| all.iter().any(|q| q.id == p.id && parse_flags(&q.flags) != parse_flags(&p.flags)))
    {
        return "bad-case".into();
    }
    let mut declared: Vec<(usize, usize)> = Vec::new();
    for op in &ops {
        if let HOp::Learn(ks, t, _) | HOp::Declare(ks, t) | HOp::Payload(ks, t, _) = op {
            if !declared.contains(&(*ks, *t)) {
                declared.push((*ks, *t));
            }
        }
    }
    let mut tablet_tables: HashMap<String, Vec<String>> = HashMap::new();
    for (ks, t) in &declared {
        tablet_tables.entry(format!("k{}", ks)).or_default().push(format!("t{}", t));
    }
    let ks_specs: Vec<KeyspaceSpec> =
        kss.iter().enumerate().map(|(i, s)| KeyspaceSpec { name: format!("k{}", i), strategy: to_strategy(s) }).collect();

    // ---- the real thing: ClusterState::new, update_tablets, new_updated
    let cs = cluster(format!("hist {} {} {}", w[1], w[2], w[3]), || {
        let mut cur_peers: &[PeerSpec] = &peers0;
        let mut cs = RT.with(|rt| rt.block_on(cluster_from_topology_with_tablets(&node_specs(cur_peers), &ks_specs, &tablet_tables)));
        apply_sharders(&cs, cur_peers);
        for op in &ops {
            match op {
                HOp::Learn(ks, t, tab) => {
                    let reps: Vec<(uuid::Uuid, u32)> = tab.reps.iter().map(|(h, s)| (host_id(*h), *s)).collect();
                    cs.verif_update_tablets(&[(format!("k{}", ks), format!("t{}", t), tab.first, tab.last, reps)]);
                }
                HOp::Payload(ks, t, bytes) => {
                    // `RawTablet::from_custom_payload` (what `Connection` does with the response), then `update_tablets`
                    // (what the cluster worker does with it); a rejected payload teaches nothing
                    let mut payload: HashMap<String, bytes::Bytes> = HashMap::new();
                    payload.insert("tablets-routing-v1".to_owned(), bytes::Bytes::from(bytes.clone()));
                    if let Some(Ok((first, last, reps))) = scylla::verif_hooks::tablets::raw_tablet_from_payload(&payload) {
                        cs.verif_update_tablets(&[(format!("k{}", ks), format!("t{}", t), first, last, reps)]);
                    }
                }
                HOp::Declare(..) => {}
                HOp::Refresh(ps) => {
                    // The hook nodes are pool-less and rejected by the host filter; `calculate_new_topology` keeps such
                    // a `Node` object only if it reads as disabled. Drop the "enabled" override for the refresh (the
                    // hook imposes it again on the new state), so that - as for a real enabled node - the object
                    // survives iff datacenter, rack and address are unchanged.
                    for p in cur_peers {
                        if let Some(n) = cs.get_node_by_host_id(host_id(p.id)) {
                            n.verif_override_state(false, false);
                        }
                    }
                    let before: Vec<(u64, Arc<scylla::cluster::Node>)> =
                        cur_peers.iter().filter_map(|p| cs.get_node_by_host_id(host_id(p.id)).map(|n| (p.id, Arc::clone(n)))).collect();
                    cs = RT.with(|rt| rt.block_on(cluster_refresh(&cs, &node_specs(ps), &ks_specs, &tablet_tables)));
                    apply_sharders(&cs, ps);
                    if std::env::var_os("C12_DEBUG").is_some() {
                        let kept: Vec<u64> = before
                            .iter()
                            .filter(|(id, n)| cs.get_node_by_host_id(host_id(*id)).is_some_and(|m| Arc::ptr_eq(n, m)))
                            .map(|(id, _)| *id)
                            .collect();
                        eprintln!("C12DEBUG refresh: node objects kept {:?} of {:?}", kept, before.iter().map(|b| b.0).collect::<Vec<_>>());
                    }
                    cur_peers = ps;
                }
                HOp::RefreshAcc(ps, topology_only) => {
                    // accepted peers: nodes that read as enabled take the (true, Some(node)) arms (kept when datacenter,
                    // rack and address are unchanged, `inherit_with_ip_changed` for a new address), the others `Node::new`
                    let before: Vec<(u64, Arc<scylla::cluster::Node>)> =
                        cur_peers.iter().filter_map(|p| cs.get_node_by_host_id(host_id(p.id)).map(|n| (p.id, Arc::clone(n)))).collect();
                    cs = if *topology_only {
                        RT.with(|rt| rt.block_on(cluster_refresh_topology_accepting(&cs, &node_specs(ps))))
                    } else {
                        RT.with(|rt| rt.block_on(cluster_refresh_accepting(&cs, &node_specs(ps), &ks_specs, &tablet_tables)))
                    };
                    apply_sharders(&cs, ps);
                    if std::env::var_os("C12_DEBUG").is_some() {
                        let kept: Vec<u64> = before
                            .iter()
                            .filter(|(id, n)| cs.get_node_by_host_id(host_id(*id)).is_some_and(|m| Arc::ptr_eq(n, m)))
                            .map(|(id, _)| *id)
                            .collect();
                        eprintln!("C12DEBUG accepting refresh: node objects kept {:?} of {:?}", kept, before.iter().map(|b| b.0).collect::<Vec<_>>());
                    }
                    cur_peers = ps;
                }
            }
        }
        cs
    });

    // ---- the harness's history shadow
    let mut known: Vec<u64> = peers0.iter().map(|p| p.id).collect();
    let mut shadow: HashMap<(usize, usize), Vec<ShTablet>> = HashMap::new();
    let mut final_peers: &[PeerSpec] = &peers0;
    // the harness's own reading of a well-formed payload cell `tuple<bigint, bigint, list<tuple<uuid, int>>>`:
    // the tablet owns (a, b], i.e. [a+1, b]; b <= a or a negative shard is refused
    let decode = |b: &[u8]| -> Option<TabletSpec> {
        let mut p = 0usize;
        let cell = |p: &mut usize| -> Option<Vec<u8>> {
            let n = i32::from_be_bytes(b.get(*p..*p + 4)?.try_into().ok()?);
            *p += 4;
            if n < 0 {
                return None;
            }
            let v = b.get(*p..*p + n as usize)?.to_vec();
            *p += n as usize;
            Some(v)
        };
        let a = i64::from_be_bytes(cell(&mut p)?.try_into().ok()?);
        let bb = i64::from_be_bytes(cell(&mut p)?.try_into().ok()?);
        if bb <= a {
            return None;
        }
        // a tuple may be shorter than declared (the missing fields are null), and the list may be null: no replicas
        if p == b.len() || b.get(p..p + 4).is_some_and(|l| i32::from_be_bytes(l.try_into().unwrap()) < 0) {
            return Some(TabletSpec { first: a + 1, last: bb, reps: vec![] });
        }
        let list = cell(&mut p)?;
        let n = i32::from_be_bytes(list.get(0..4)?.try_into().ok()?);
        let mut q = 4usize;
        let mut reps = Vec::new();
        for _ in 0..n {
            let len = i32::from_be_bytes(list.get(q..q + 4)?.try_into().ok()?) as usize;
            let item = list.get(q + 4..q + 4 + len)?;
            q += 4 + len;
            // tuple<uuid, int>: [len 16][uuid][len 4][int]
            if item.len() != 28 || item[0..4] != 16i32.to_be_bytes() || item[20..24] != 4i32.to_be_bytes() {
                return None;
            }
            let id = u128::from_be_bytes(item[4..20].try_into().ok()?) as u64;
            let shard = i32::from_be_bytes(item[24..28].try_into().ok()?);
            if shard < 0 {
                return None;
            }
            reps.push((id, shard as u32));
        }
        Some(TabletSpec { first: a + 1, last: bb, reps })
    };
    let decoded: Vec<Option<TabletSpec>> = ops.iter().map(|o| if let HOp::Payload(_, _, b) = o { decode(b) } else { None }).collect();
    for (opi, op) in ops.iter().enumerate() {
        // a payload op is the tablet it decodes to (nothing when refused)
        let as_learn: Option<(usize, usize, &TabletSpec)> = match op {
            HOp::Learn(ks, t, tab) => Some((*ks, *t, tab)),
            HOp::Payload(ks, t, _) => decoded[opi].as_ref().map(|tab| (*ks, *t, tab)),
            _ => None,
        };
        if let Some((ks, t, tab)) = as_learn {
            let (ks, t) = (&ks, &t);
            {
                let (f, l) = (norm_token(tab.first), norm_token(tab.last));
                let list = shadow.entry((*ks, *t)).or_default();
                list.retain(|u| !(u.first <= l && f <= u.last));
                let resolved: Vec<(u64, u32)> = tab.reps.iter().filter(|(h, _)| known.contains(h)).cloned().collect();
                list.push(ShTablet { first: f, last: l, raw: tab.reps.clone(), failed: resolved.len() != tab.reps.len(), resolved });
            }
        }
        match op {
            HOp::Learn(..) | HOp::Payload(..) | HOp::Declare(..) => {}
            HOp::Refresh(ps) | HOp::RefreshAcc(ps, _) => {
                let new: Vec<u64> = ps.iter().map(|p| p.id).collect();
                for list in shadow.values_mut() {
                    list.retain_mut(|t| {
                        // a tablet with a replica on a node that left the cluster is forgotten
                        if t.resolved.iter().any(|(h, _)| !new.contains(h)) {
                            return false;
                        }
                        // unknown replicas are resolved again; still unknown: the tablet is forgotten
                        if t.failed {
                            if t.raw.iter().all(|(h, _)| new.contains(h)) {
                                t.resolved = t.raw.clone();
                                t.failed = false;
                            } else {
                                return false;
                            }
                        }
                        true
                    });
                }
                known = new;
                final_peers = ps;
            }
        }
    }
    let tablet_expect: Option<Vec<(u64, u32)>> = rq.ks.filter(|k| declared.contains(&(*k, tbl))).map(|k| {
        let tok = rq.token.map(norm_token);
        shadow
            .get(&(k, tbl))
            .and_then(|l| l.iter().find(|t| tok.is_some_and(|x| t.first <= x && x <= t.last)))
            .map(|t| t.resolved.clone())
            .unwrap_or_default()
    });
    observe(&cs, final_peers, &kss, &cfg, &rq, tbl, samples, tablet_expect, None, ctx)
}


// ---------------------------------------------------------------------------------------------
// stmt cases: the RoutingInfo `Session::execute` builds from a prepared statement and bound values

/// C03 value syntax: hex | `-` (empty) | `N` (null) | `U` (unset) | `z<len>x<hh>` (len bytes, byte i = hh + 7 i).
fn parse_stmt_val(s: &str) -> Option<Option<Option<Vec<u8>>>> {
    match s {
        "N" => Some(Some(None)),
        "U" => Some(None),
        _ if s.starts_with('z') => {
            let (l, h) = s[1..].split_once('x')?;
            let b = crate::util::unhex(h)?;
            if b.len() != 1 {
                return None;
            }
            let len: usize = l.parse().ok()?;
            Some(Some(Some((0..len).map(|i| ((b[0] as usize + 7 * i) % 256) as u8).collect())))
        }
        _ => crate::util::unhex(s).map(|b| Some(Some(b))),
    }
}

/// A PREPARED RESULT body for table `k<ks>.t<tbl>`: `ncols` blob bind markers, the key columns' marker indexes in
/// partition-key order, no result metadata.
fn forge_prepared_for(ks: usize, tbl: usize, ncols: usize, wire: &[u16]) -> bytes::Bytes {
    fn string(b: &mut Vec<u8>, s: &str) {
        b.extend_from_slice(&(s.len() as u16).to_be_bytes());
        b.extend_from_slice(s.as_bytes());
    }
    let mut b = Vec::new();
    b.extend_from_slice(&4i32.to_be_bytes());
    b.extend_from_slice(&2u16.to_be_bytes());
    b.extend_from_slice(&[0xc1, 0x2a]);
    b.extend_from_slice(&1i32.to_be_bytes());
    b.extend_from_slice(&(ncols as i32).to_be_bytes());
    b.extend_from_slice(&(wire.len() as i32).to_be_bytes());
    for ix in wire {
        b.extend_from_slice(&ix.to_be_bytes());
    }
    string(&mut b, &format!("k{}", ks));
    string(&mut b, &format!("t{}", tbl));
    for i in 0..ncols {
        string(&mut b, &format!("c{i}"));
        b.extend_from_slice(&0x0003u16.to_be_bytes());
    }
    b.extend_from_slice(&4i32.to_be_bytes());
    b.extend_from_slice(&0i32.to_be_bytes());
    bytes::Bytes::from(b)
}

fn run_stmt(w: &[&str], ctx: &mut Ctx) -> String {
    use scylla::frame::protocol_features::ProtocolFeatures;
    use scylla::statement::prepared::{PartitionKeyError, PartitionKeyExtractionError, TokenCalculationError};
    use scylla::value::MaybeUnset;
    use scylla_cql::frame::response::result;
    let (Some(peers), Some(kss), Some(tables), Some(cfg), Ok(samples)) =
        (parse_topology(w[1]), parse_strategies(w[2]), parse_tables(w[3]), parse_config(w[4]), w[8].parse::<usize>())
    else {
        return "bad-case".into();
    };
    if peers.iter().any(|p| parse_flags(&p.flags).is_none()) {
        return "bad-case".into();
    }
    // stmt := cdc/wire/ks/tbl[/lwt]
    let f: Vec<&str> = w[5].split('/').collect();
    if !(f.len() == 4 || f.len() == 5) || !(f[0] == "0" || f[0] == "1") || (f.len() == 5 && !(f[4] == "0" || f[4] == "1")) {
        return "bad-case".into();
    }
    let is_lwt = f.len() == 5 && f[4] == "1";
    let cdc = f[0] == "1";
    let wire: Option<Vec<u16>> = if f[1] == "-" { Some(vec![]) } else { f[1].split(',').map(|x| x.parse().ok()).collect() };
    let (Some(wire), Ok(ks), Ok(tbl)) = (wire, f[2].parse::<usize>(), f[3].parse::<usize>()) else {
        return "bad-case".into();
    };
    {
        let mut d = wire.clone();
        d.sort_unstable();
        d.dedup();
        if d.len() != wire.len() || wire.iter().any(|i| *i >= 4096) {
            return "bad-case".into();
        }
    }
    let Some(vals) = w[6].split(',').map(parse_stmt_val).collect::<Option<Vec<_>>>() else {
        return "bad-case".into();
    };
    // exec := consistency/serial/pref
    let e: Vec<&str> = w[7].split('/').collect();
    if e.len() != 3 {
        return "bad-case".into();
    }
    let (Some(cons), Some(rpref)) = (CONSISTENCIES.iter().find(|(n, _)| *n == e[0]).map(|c| c.1), Pref::parse(e[2])) else {
        return "bad-case".into();
    };
    let serial = match e[1] {
        "-" => None,
        "s" => Some(SerialConsistency::Serial),
        "l" => Some(SerialConsistency::LocalSerial),
        _ => return "bad-case".into(),
    };
    if rpref == Pref::Inherit {
        return "bad-case".into();
    }

    // ---- the prepared statement, as `Connection::prepare` builds it from the PREPARED response
    let prepared = match result::deserialize_with_features(forge_prepared_for(ks, tbl, vals.len(), &wire), None, &ProtocolFeatures::default()) {
        Ok(result::Result::Prepared(p)) => p,
        _ => return "bad-case".into(),
    };
    // (`is_lwt`: what `Connection::prepare` reads off the LWT mark of the PREPARED response's flags)
    let ps = scylla::verif_hooks::prepared::statement_from_prepared_lwt(prepared, cdc, is_lwt);
    if ps.is_confirmed_lwt() != is_lwt {
        ctx.fail(format!("is_confirmed_lwt() = {} for a statement prepared with the LWT mark {}", ps.is_confirmed_lwt(), is_lwt));
    }
    let bound: Vec<MaybeUnset<Option<Vec<u8>>>> = vals
        .iter()
        .map(|v| match v {
            None => MaybeUnset::Unset,
            Some(x) => MaybeUnset::Set(x.clone()),
        })
        .collect();
    // ---- what `Session::execute` puts into the RoutingInfo (session.rs:1785-1816)
    let token = match ps.calculate_token(&bound) {
        Ok(t) => t,
        Err(PartitionKeyError::PartitionKeyExtraction(PartitionKeyExtractionError::NoPkIndexValue(i, c))) => {
            return format!("tok=err_noPkIndexValue_{}_{}", i, c);
        }
        Err(PartitionKeyError::TokenCalculation(TokenCalculationError::ValueTooLong(n))) => return format!("tok=err_tooLong_{}", n),
        Err(PartitionKeyError::Serialization(_)) => return "tok=err_serialization".into(),
        Err(_) => return "tok=err_other".into(),
    };
    let spec = ps.get_table_spec();
    let idx = |name: &str, pre: char| -> Option<usize> { name.strip_prefix(pre).and_then(|x| x.parse().ok()) };
    let rq = Request {
        token: token.map(|t| t.value()),
        ks: spec.and_then(|s| idx(s.ks_name(), 'k')),
        lwt: ps.is_confirmed_lwt(),
        consistency: cons,
        serial,
        pref: rpref,
    };
    let tbl_seen = spec.and_then(|s| idx(s.table_name(), 't')).unwrap_or(0);
    if spec.is_some() && (rq.ks != Some(ks) || tbl_seen != tbl) {
        ctx.fail(format!("the statement's table spec is {:?}, the PREPARED response named k{}.t{}", spec, ks, tbl));
    }
    // ---- oracle: the token is the servers' token of the serialized key (all key components bound, Murmur3)
    let comps: Option<Vec<&Vec<u8>>> = wire.iter().map(|i| vals.get(*i as usize).and_then(|v| v.as_ref()).and_then(|v| v.as_ref())).collect();
    if let (false, false, Some(comps)) = (cdc, wire.is_empty(), comps) {
        let key: Vec<u8> = if comps.len() == 1 {
            comps[0].clone()
        } else {
            comps.iter().flat_map(|c| (c.len() as u16).to_be_bytes().into_iter().chain(c.iter().copied()).chain(std::iter::once(0u8))).collect()
        };
        if comps.iter().all(|c| c.len() <= 65535) {
            let want = norm_token(crate::c03::reference_murmur3(&key));
            if rq.token != Some(want) {
                ctx.fail(format!("routing token {:?} but Cassandra's Murmur3 of the serialized key gives {}", rq.token, want));
            }
        }
    }
    let cs = cluster(format!("{} {} {}", w[1], w[2], w[3]), || build(&peers, &kss, &tables));
    let tablet_expect: Option<Vec<(u64, u32)>> = rq.ks.and_then(|k| tables.iter().find(|d| d.ks == k && d.tbl == tbl_seen)).map(|d| {
        rq.token
            .and_then(|t| shadow_tablet(&d.tablets, norm_token(t)))
            .map(|t| t.reps.iter().filter(|(h, _)| peers.iter().any(|p| p.id == *h)).cloned().collect())
            .unwrap_or_default()
    });
    format!(
        "tok={} {}",
        rq.token.map(|t| t.to_string()).unwrap_or_else(|| "none".into()),
        observe(&cs, &peers, &kss, &cfg, &rq, tbl_seen, samples, tablet_expect, token, ctx)
    )
}

// ---------------------------------------------------------------------------------------------
// refill cases: a scripted ScyllaDB-like node (it decides the shard of every connection, closes connections, restarts
// with other sharding parameters) against a real NodeConnectionPool + refiller

mod scripted {
    use crate::mocknode::{OP_OPTIONS, OP_QUERY, OP_REGISTER, OP_STARTUP, Parsed, RESP_READY, RESP_RESULT, RESP_SUPPORTED, body_supported_ext, body_void, frame, parse_request};
    use std::collections::{HashMap, VecDeque};
    use std::net::SocketAddr;
    use std::sync::{Arc, Mutex};
    use std::time::Duration;
    use tokio::io::{AsyncReadExt, AsyncWriteExt};
    use tokio::net::{TcpListener, TcpStream};
    use tokio::sync::Notify;

    pub struct ConnRec {
        /// what SUPPORTED told this connection: (shard, nr_shards, msb_ignore)
        pub info: Option<(u16, u16, u8)>,
        pub alive: bool,
        pub ready: bool,
        close: Arc<Notify>,
    }

    #[derive(Default)]
    pub struct St {
        /// sharding parameters of the node (None: a node without shards)
        pub params: Option<(u16, u8)>,
        /// shards for the next connections on the ordinary port
        pub queue: VecDeque<u16>,
        /// connections on the shard-aware port land on (source port + shift) % nr_shards
        pub shift: u16,
        pub conns: Vec<ConnRec>,
        /// `r<id>:<shard>/<nr>/<msb>[q]` (READY sent; q = came through the shard-aware port), `b<id>` (closed by the node)
        pub events: Vec<String>,
        pub queries: HashMap<String, usize>,
        pub setups_in_flight: usize,
    }

    pub struct Server {
        pub addr: SocketAddr,
        pub st: Arc<Mutex<St>>,
        tasks: Vec<tokio::task::JoinHandle<()>>,
    }

    impl Drop for Server {
        fn drop(&mut self) {
            for t in &self.tasks {
                t.abort();
            }
        }
    }

    async fn read_frame(sock: &mut TcpStream) -> Option<(i16, u8, Vec<u8>)> {
        let mut hdr = [0u8; 9];
        sock.read_exact(&mut hdr).await.ok()?;
        let len = u32::from_be_bytes([hdr[5], hdr[6], hdr[7], hdr[8]]) as usize;
        let mut body = vec![0u8; len];
        sock.read_exact(&mut body).await.ok()?;
        Some((i16::from_be_bytes([hdr[2], hdr[3]]), hdr[4], body))
    }

    impl Server {
        pub async fn start(params: Option<(u16, u8)>) -> Server {
            let plain = TcpListener::bind("127.0.0.1:0").await.unwrap();
            let aware = TcpListener::bind("127.0.0.1:0").await.unwrap();
            let addr = plain.local_addr().unwrap();
            let aware_port = aware.local_addr().unwrap().port();
            let st = Arc::new(Mutex::new(St { params, ..Default::default() }));
            // connection set-ups complete one at a time, so that the order of READY is the order the refiller sees
            let setup = Arc::new(tokio::sync::Mutex::new(()));
            let mut tasks = Vec::new();
            for (listener, is_aware) in [(plain, false), (aware, true)] {
                let st = Arc::clone(&st);
                let setup = Arc::clone(&setup);
                tasks.push(tokio::spawn(async move {
                    loop {
                        let Ok((sock, peer)) = listener.accept().await else { return };
                        let close = Arc::new(Notify::new());
                        let (id, info) = {
                            let mut g = st.lock().unwrap();
                            let info = g.params.map(|(nr, msb)| {
                                let shard = if is_aware {
                                    ((peer.port() as u32 + g.shift as u32) % nr as u32) as u16
                                } else if let Some(s) = g.queue.pop_front().filter(|s| *s < nr) {
                                    s
                                } else {
                                    // the least loaded shard, lowest number first (what ScyllaDB does on the ordinary port)
                                    (0..nr)
                                        .min_by_key(|s| g.conns.iter().filter(|c| c.alive && c.info == Some((*s, nr, msb))).count())
                                        .unwrap_or(0)
                                };
                                (shard, nr, msb)
                            });
                            g.conns.push(ConnRec { info, alive: true, ready: false, close: Arc::clone(&close) });
                            g.setups_in_flight += 1;
                            (g.conns.len() - 1, info)
                        };
                        let st = Arc::clone(&st);
                        let setup = Arc::clone(&setup);
                        tokio::spawn(conn_task(sock, id, info, is_aware, aware_port, st, setup, close));
                    }
                }));
            }
            Server { addr, st, tasks }
        }

        /// The node restarts with these sharding parameters: every connection is closed (in accept order).
        pub async fn restart(&self, params: Option<(u16, u8)>) {
            let closers: Vec<Arc<Notify>> = {
                let mut g = self.st.lock().unwrap();
                g.params = params;
                g.queue.clear();
                g.conns.iter().filter(|c| c.alive).map(|c| Arc::clone(&c.close)).collect()
            };
            for c in closers {
                c.notify_one();
                tokio::time::sleep(Duration::from_millis(1)).await;
            }
        }
    }

    #[allow(clippy::too_many_arguments)]
    async fn conn_task(
        mut sock: TcpStream,
        id: usize,
        info: Option<(u16, u16, u8)>,
        is_aware: bool,
        aware_port: u16,
        st: Arc<Mutex<St>>,
        setup: Arc<tokio::sync::Mutex<()>>,
        close: Arc<Notify>,
    ) {
        let gone = |st: &Arc<Mutex<St>>, by_node: bool| {
            let mut g = st.lock().unwrap();
            if by_node && g.conns[id].alive {
                g.events.push(format!("b{}", id));
            }
            if !g.conns[id].ready && g.conns[id].alive {
                g.setups_in_flight -= 1;
            }
            g.conns[id].alive = false;
        };
        loop {
            let fr = tokio::select! {
                _ = close.notified() => { gone(&st, true); return; }
                fr = read_frame(&mut sock) => fr,
            };
            let Some((stream, opcode, body)) = fr else {
                gone(&st, false);
                return;
            };
            match opcode {
                OP_OPTIONS => {
                    let b = body_supported_ext(false, info, info.map(|_| aware_port));
                    if sock.write_all(&frame(stream, RESP_SUPPORTED, &b)).await.is_err() {
                        gone(&st, false);
                        return;
                    }
                }
                OP_STARTUP => {
                    let _turn = setup.lock().await;
                    if sock.write_all(&frame(stream, RESP_READY, &[])).await.is_err() {
                        gone(&st, false);
                        return;
                    }
                    {
                        let mut g = st.lock().unwrap();
                        let what = match info {
                            Some((s, n, m)) => format!("{}/{}/{}", s, n, m),
                            None => "-".to_owned(),
                        };
                        g.events.push(format!("r{}:{}{}", id, what, if is_aware { "q" } else { "" }));
                        g.conns[id].ready = true;
                        g.setups_in_flight -= 1;
                    }
                    tokio::time::sleep(Duration::from_millis(3)).await;
                }
                OP_REGISTER => {
                    let _ = sock.write_all(&frame(stream, RESP_READY, &[])).await;
                }
                OP_QUERY => {
                    let text = match parse_request(opcode, &body, false) {
                        Parsed::Query { text, .. } => text,
                        _ => String::new(),
                    };
                    st.lock().unwrap().queries.insert(text.clone(), id);
                    if text.starts_with("CLOSE") {
                        gone(&st, true);
                        return;
                    }
                    if sock.write_all(&frame(stream, RESP_RESULT, &body_void())).await.is_err() {
                        gone(&st, false);
                        return;
                    }
                }
                _ => {
                    gone(&st, false);
                    return;
                }
            }
        }
    }
}

#[derive(Clone, Debug)]
enum RStep {
    Restart(Option<(u16, u8)>),
    Params(Option<(u16, u8)>),
    Assign(Vec<u16>),
    Shift(u16),
    Close(u32),
    Wait,
    /// as `Wait`, but the look probes these shard numbers (e.g. numbers computed under the sharder the node had BEFORE
    /// a restart: the reshard race)
    Query(Vec<u32>),
}

fn parse_params(s: &str) -> Option<Option<(u16, u8)>> {
    let (nr, msb) = s.split_once('.')?;
    let (nr, msb): (u32, u32) = (nr.parse().ok()?, msb.parse().ok()?);
    if nr > 64 || msb >= 64 {
        return None;
    }
    Some(if nr == 0 { None } else { Some((nr as u16, msb as u8)) })
}

fn parse_rscript(s: &str) -> Option<Vec<RStep>> {
    let steps: Vec<RStep> = s
        .split(';')
        .map(|st| {
            let (k, rest) = (st.get(..1)?, st.get(1..)?);
            match k {
                "N" => parse_params(rest).map(RStep::Restart),
                "P" => parse_params(rest).map(RStep::Params),
                "A" => rest.split(',').map(|x| x.parse::<u16>().ok()).collect::<Option<Vec<u16>>>().map(RStep::Assign),
                "M" => rest.parse::<u16>().ok().filter(|d| *d < 64).map(RStep::Shift),
                "C" => rest.parse::<u32>().ok().filter(|d| *d < 64).map(RStep::Close),
                "W" if rest.is_empty() => Some(RStep::Wait),
                "Q" => rest.split(',').map(|x| x.parse::<u32>().ok()).collect::<Option<Vec<u32>>>().map(RStep::Query),
                _ => None,
            }
        })
        .collect::<Option<Vec<_>>>()?;
    // the script starts the node and ends with a look at the pool
    if !matches!(steps.first(), Some(RStep::Restart(_))) || !matches!(steps.last(), Some(RStep::Wait | RStep::Query(_))) {
        return None;
    }
    Some(steps)
}

async fn run_refill(per_shard: bool, k: usize, port_ok: bool, steps: &[RStep], ctx: &mut Ctx) -> String {
    let Some(RStep::Restart(p0)) = steps.first().cloned() else { return "bad-case".into() };
    let srv = scripted::Server::start(p0).await;
    let size = if per_shard { PoolSize::PerShard(NonZeroUsize::new(k).unwrap()) } else { PoolSize::PerHost(NonZeroUsize::new(k).unwrap()) };
    let Ok(pool) = VerifPool::new(srv.addr, size, None, port_ok, None) else {
        return "bad-case".into();
    };
    pool.wait_until_initialized().await;
    let mut out: Vec<String> = Vec::new();
    let mut tag = 0u64;
    let count = |pool: &VerifPool| pool.connection_count().unwrap_or(0);
    for step in &steps[1..] {
        match step {
            RStep::Restart(p) => {
                srv.restart(*p).await;
                // until the pool has noticed that everything is gone
                let t0 = std::time::Instant::now();
                while count(&pool) != 0 && t0.elapsed() < Duration::from_millis(800) {
                    tokio::time::sleep(Duration::from_millis(2)).await;
                }
            }
            RStep::Params(p) => {
                let mut g = srv.st.lock().unwrap();
                g.params = *p;
                g.queue.clear();
            }
            RStep::Assign(v) => srv.st.lock().unwrap().queue.extend(v.iter().copied()),
            RStep::Shift(d) => srv.st.lock().unwrap().shift = *d,
            RStep::Close(shard) => {
                let before = count(&pool);
                tag += 1;
                let _ = pool.query_on_shard(*shard, &format!("CLOSE {}", tag)).await;
                let t0 = std::time::Instant::now();
                while count(&pool) == before && before != 0 && t0.elapsed() < Duration::from_millis(800) {
                    tokio::time::sleep(Duration::from_millis(2)).await;
                }
            }
            RStep::Wait | RStep::Query(_) => {
                let params = srv.st.lock().unwrap().params;
                let target = match params {
                    Some((nr, _)) if per_shard => nr as usize * k,
                    _ => k,
                };
                // settle: the pool is full, no set-up is in flight, and three looks 5 ms apart agree
                let t0 = std::time::Instant::now();
                let mut stable = 0;
                let mut last = usize::MAX;
                while t0.elapsed() < Duration::from_millis(3000) {
                    let c = count(&pool);
                    let inflight = srv.st.lock().unwrap().setups_in_flight;
                    // (the pool must also have adopted the node's current sharding parameters)
                    if c == target && inflight == 0 && c == last && pool.nr_shards() == params.map(|p| p.0) {
                        stable += 1;
                        if stable >= 3 {
                            break;
                        }
                    } else {
                        stable = 0;
                    }
                    last = c;
                    tokio::time::sleep(Duration::from_millis(5)).await;
                }
                let c = count(&pool);
                let nr = pool.nr_shards();
                // events up to here, then the look
                out.extend(srv.st.lock().unwrap().events.drain(..));
                let mut items: Vec<String> = vec![format!("cnt={}", c), format!("nr={}", nr.map(|x| x.to_string()).unwrap_or_else(|| "-".into()))];
                let top = params.map(|p| p.0 as u32).unwrap_or(1);
                let probes: Vec<u32> = match step {
                    RStep::Query(l) => l.clone(),
                    _ => (0..=top).collect(),
                };
                for s in probes {
                    tag += 1;
                    let text = format!("SELECT {} FROM verif.refill", tag);
                    match pool.query_on_shard(s, &text).await {
                        Ok((reported, true)) => {
                            let conn = srv.st.lock().unwrap().queries.get(&text).copied();
                            let Some(conn) = conn else {
                                items.push(format!("{}:fail", s));
                                continue;
                            };
                            let server_side = srv.st.lock().unwrap().conns[conn].info;
                            if reported != server_side.map(|i| i.0) {
                                ctx.fail(format!(
                                    "pool filing: the connection that carried the query for shard {} is believed to be on shard {:?}, the node put it on {:?}",
                                    s, reported, server_side
                                ));
                            }
                            if per_shard && c == target && nr == params.map(|p| p.0) && params.is_some() && s < top && server_side.map(|i| i.0 as u32) != Some(s) {
                                ctx.fail(format!(
                                    "the pool is full ({} connections, {} per shard) but the query for shard {} travelled on a connection the node bound to shard {:?}",
                                    c, k, s, server_side.map(|i| i.0)
                                ));
                            }
                            items.push(format!("{}:{}:{}", s, conn, reported.map(|x| x.to_string()).unwrap_or_else(|| "-".into())));
                        }
                        _ => items.push(format!("{}:fail", s)),
                    }
                }
                // a pool that moved while it was looked at tells nothing
                if count(&pool) != c || !srv.st.lock().unwrap().events.is_empty() {
                    ctx.oracle_failures.clear();
                    return "unstable-pool".into();
                }
                out.push(format!("D[{}]", items.join(",")));
            }
        }
    }
    out.join(" ")
}

// ---------------------------------------------------------------------------------------------
// pool / route cases

fn parse_size(s: &str) -> Option<(bool, usize)> {
    let k: usize = s.get(1..)?.parse().ok()?;
    if k == 0 {
        return None;
    }
    match &s[..1] {
        "S" => Some((true, k)),
        "H" => Some((false, k)),
        _ => None,
    }
}

/// ScyllaDB's algorithm written out literally (the C11 property statement).
fn literal_shard(n: u16, msb: u8, tok: i64) -> u32 {
    let biased = (tok as u64).wrapping_add(1u64 << 63);
    let shifted = biased << (msb as u32 & 63);
    ((shifted as u128 * n as u128) >> 64) as u32
}

async fn run_pool(route: bool, n: u16, msb: u8, per_shard: bool, k: usize, port_ok: bool, shifted: bool, reqs: &[i64], ctx: &mut Ctx) -> String {
    let node = MockNode::start_sharded(
        false,
        if shifted { ShardMode::ByPortShifted(n, msb) } else { ShardMode::ByPort(n, msb) },
        Box::new(|req| match &req.parsed {
            Parsed::Query { .. } => vec![Action::Respond(RESP_RESULT, body_void())],
            _ => vec![Action::Close],
        }),
    )
    .await;
    let size = if per_shard { PoolSize::PerShard(NonZeroUsize::new(k).unwrap()) } else { PoolSize::PerHost(NonZeroUsize::new(k).unwrap()) };
    let Ok(pool) = VerifPool::new(node.addr, size, None, port_ok, None) else {
        return "bad-case".into();
    };
    pool.wait_until_initialized().await;
    let target = if per_shard { n as usize * k } else { k };
    // What the SERVER knows about the pool: with PerShard(k) the first k connections it put on shard s are pooled
    // (a bucket below k accepts, nothing breaks here), later ones are excess; with PerHost(k) exactly k connections
    // are opened and all are pooled. Both need every accepted connection to have been handed to the refiller.
    let pooled_of = |accepted: &[Option<u16>]| -> Vec<u16> {
        if per_shard {
            (0..n).flat_map(|s| std::iter::repeat(s).take(accepted.iter().filter(|a| **a == Some(s)).count().min(k))).collect()
        } else {
            accepted.iter().filter_map(|a| *a).collect()
        }
    };
    // settle: until the pool is full (or, when connections land where the server likes, for a bounded time), the
    // pool agrees with the server's record, and two looks 4 ms apart see the same pool
    let limit = if port_ok && !shifted { 4000 } else { 900 };
    let t0 = std::time::Instant::now();
    let mut stable = 0;
    let mut last = usize::MAX;
    loop {
        let elapsed = t0.elapsed();
        if elapsed >= Duration::from_millis(4000) {
            break;
        }
        let count = pool.connection_count().unwrap_or(0);
        let agrees = pooled_of(&node.conn_shards()).len() == count;
        if agrees && count == last && (count == target || elapsed >= Duration::from_millis(limit)) {
            stable += 1;
            if stable >= 2 {
                break;
            }
        } else {
            stable = 0;
        }
        last = count;
        tokio::time::sleep(Duration::from_millis(4)).await;
    }
    let count = pool.connection_count().unwrap_or(0);
    let accepted = node.conn_shards();
    let mut have: Vec<u16> = pooled_of(&accepted);
    // when the server's record and the pool's size disagree (connections still in flight), fall back to probing
    let probe_derived = have.len() != count;
    if probe_derived {
        have.clear();
    }
    let nr = pool.nr_shards();
    if nr != Some(n) {
        ctx.fail(format!("the pool believes the node has {:?} shards, the server said {}", nr, n));
    }
    let sharder = Sharder::new(ShardCount::new(n).unwrap(), msb);
    let mut tag = 0u64;
    let mut probe = async |shard: u32, ctx: &mut Ctx| -> Option<u16> {
        tag += 1;
        let text = format!("SELECT {} FROM verif.c12", tag);
        let (reported, ok) = pool.query_on_shard(shard, &text).await.ok()?;
        if !ok {
            return None;
        }
        let reqs = node.requests();
        let conn = reqs.iter().rev().find(|r| matches!(&r.parsed, Parsed::Query { text: t, .. } if *t == text))?.conn;
        let got = node.conn_shards().get(conn).copied().flatten()?;
        if reported != Some(got) {
            ctx.fail(format!(
                "pool filing: the connection that carried the query for shard {} is believed to be on shard {:?}, the server put it on shard {}",
                shard, reported, got
            ));
        }
        Some(got)
    };
    if probe_derived {
        for s in 0..n {
            if let Some(got) = probe(s as u32, ctx).await {
                if got == s {
                    have.push(s);
                }
            }
        }
    }
    have.sort_unstable();
    let mut obs: Vec<String> = Vec::new();
    for q in reqs {
        let (shard, head) = if route {
            let tok = Token::new(*q);
            let s = sharder.shard_of(tok);
            let lit = literal_shard(n, msb, tok.value());
            if s != lit {
                ctx.fail(format!("shard_of(token {}) = {} under (nr_shards {}, msb_ignore {}), ScyllaDB's algorithm gives {}", q, s, n, msb, lit));
            }
            (s, format!("{}:{}", q, s))
        } else {
            (*q as u32, q.to_string())
        };
        let Some(got) = probe(shard, ctx).await else {
            obs.push(format!("{}:fail", head));
            ctx.fail(format!("no connection / failed query for shard {} on a ready pool", shard));
            continue;
        };
        // `shard as u16` is what the pool looks up (0 when it does not fit)
        let wanted: u16 = u16::try_from(shard).unwrap_or(0);
        if have.contains(&wanted) && got != wanted {
            ctx.fail(format!(
                "the query for shard {} travelled on a connection bound to shard {} although the pool holds a connection to shard {} (pooled shards {:?})",
                shard, got, wanted, have
            ));
        }
        if !have.contains(&got) && !probe_derived {
            ctx.fail(format!("the query for shard {} travelled on a connection of shard {} that is not in the pool {:?}", shard, got, have));
        }
        obs.push(format!("{}:{}", head, got));
    }
    // the pool must not have changed while it was probed (otherwise `have` is stale: report nothing)
    // (connections the refiller keeps opening for a shard it cannot reach do not matter: only pooled ones count)
    if pool.connection_count().unwrap_or(0) != count || (!probe_derived && pooled_of(&node.conn_shards()) != pooled_of(&accepted)) {
        ctx.oracle_failures.clear();
        return "unstable-pool".into();
    }
    format!(
        "nr={} have={} | {}",
        nr.map(|x| x.to_string()).unwrap_or_else(|| "-".into()),
        crate::util::nat_list(&have),
        obs.join(" ")
    )
}

pub fn run(case: &str, ctx: &mut Ctx) -> String {
    let w: Vec<&str> = case.split_whitespace().collect();
    let head = w.first().copied().unwrap_or("");
    let kind = head.split('.').next().unwrap_or("");
    match (kind, w.len()) {
        ("plan", 8) => run_plan(&w, ctx),
        ("hist", 8) => run_hist(&w, ctx),
        ("stmt", 9) => run_stmt(&w, ctx),
        ("refill", 4) => {
            let (Some((per_shard, k)), Some(steps)) = (parse_size(w[1]), parse_rscript(w[3])) else {
                return "bad-case".into();
            };
            let port_ok = match w[2] {
                "p" => true,
                "n" => false,
                _ => return "bad-case".into(),
            };
            if k > 4 {
                return "bad-case".into();
            }
            let mut out = String::new();
            for _ in 0..4 {
                let rt = tokio::runtime::Builder::new_current_thread().enable_all().build().unwrap();
                out = rt.block_on(run_refill(per_shard, k, port_ok, &steps, ctx));
                if out != "unstable-pool" {
                    break;
                }
            }
            out
        }
        ("pool", 6) | ("route", 6) => {
            let route = kind == "route";
            let (Ok(n), Ok(msb), Some((per_shard, k))) = (w[1].parse::<u16>(), w[2].parse::<u8>(), parse_size(w[3])) else {
                return "bad-case".into();
            };
            // p / n: shard-aware port may / may not be used; q: may be used, but the server puts the connection on
            // the NEXT shard (a NAT rewriting source ports)
            let (port_ok, shifted) = match w[4] {
                "p" => (true, false),
                "n" => (false, false),
                "q" => (true, true),
                _ => return "bad-case".into(),
            };
            let Some(reqs) = w[5].split(',').map(|x| x.parse::<i64>().ok()).collect::<Option<Vec<i64>>>() else {
                return "bad-case".into();
            };
            if n == 0 || n > 64 || msb >= 64 || reqs.is_empty() || (!route && reqs.iter().any(|q| *q < 0 || *q >= 1 << 32)) {
                return "bad-case".into();
            }
            // a pool that changed while it was probed tells nothing: try again with a fresh node and pool
            let mut out = String::new();
            for _ in 0..4 {
                let rt = tokio::runtime::Builder::new_current_thread().enable_all().build().unwrap();
                out = rt.block_on(run_pool(route, n, msb, per_shard, k, port_ok, shifted, &reqs, ctx));
                if out != "unstable-pool" {
                    break;
                }
            }
            out
        }
        _ => "bad-case".into(),
    }
}

// ---------------------------------------------------------------------------------------------
// generators

fn dcs_of(peers: &[PeerSpec]) -> Vec<u32> {
    let mut d: Vec<u32> = peers.iter().filter_map(|p| p.dc).collect();
    d.sort_unstable();
    d.dedup();
    d
}

fn gen_strategy(rng: &mut Rng, peers: &[PeerSpec]) -> Strat {
    let n = peers.iter().filter(|p| !p.tokens.is_empty()).count();
    match rng.below(10) {
        0 => Strat::Local,
        1 => Strat::Other,
        2..=4 => Strat::Simple(match rng.below(6) {
            0 => 0,
            1 => n + 1,
            _ => rng.range(1, n.max(1) as i64) as usize,
        }),
        _ => {
            let mut v: Vec<(u32, usize)> = Vec::new();
            for d in dcs_of(peers) {
                if rng.chance(5, 6) {
                    let nodes = peers.iter().filter(|p| p.dc == Some(d) && !p.tokens.is_empty()).count();
                    v.push((d, match rng.below(6) {
                        0 => 0,
                        1 => nodes + 1,
                        _ => rng.range(1, nodes.max(1) as i64) as usize,
                    }));
                }
            }
            if rng.chance(1, 10) {
                v.push((77, rng.below(3) as usize));
            }
            Strat::Nts(v)
        }
    }
}

fn gen_pref(rng: &mut Rng, peers: &[PeerSpec], allow_inherit: bool) -> Pref {
    let dcs = dcs_of(peers);
    let dc = |rng: &mut Rng| if dcs.is_empty() || rng.chance(1, 12) { 77 } else { *rng.pick(&dcs) };
    match rng.below(if allow_inherit { 8 } else { 6 }) {
        0 | 1 => Pref::Any,
        2 | 3 => Pref::Dc(dc(rng)),
        4 | 5 => {
            let d = dc(rng);
            let in_dc: Vec<u32> = peers.iter().filter(|p| p.dc == Some(d)).filter_map(|p| p.rack).collect();
            let r = if !in_dc.is_empty() && rng.chance(5, 6) { *rng.pick(&in_dc) } else { 55 };
            Pref::DcRack(d, r)
        }
        _ => Pref::Inherit,
    }
}

/// Liveness flags: mostly live, some down, some disabled.
fn random_flags(rng: &mut Rng, peers: &mut [PeerSpec]) {
    let mode = rng.below(5);
    for p in peers.iter_mut() {
        p.flags = match mode {
            0 => String::new(),
            1 => if rng.chance(1, 2) { "x".into() } else { String::new() },
            _ => match rng.below(8) {
                0 | 1 => "x".into(),
                2 => "d".into(),
                3 => "dx".into(),
                _ => String::new(),
            },
        };
    }
}

/// Per-node sharders appended to the flags: different shard counts / msb_ignore per node, some nodes without shards.
fn add_sharders(rng: &mut Rng, peers: &mut [PeerSpec]) {
    add_sharders_grouped(rng, peers, false)
}

/// `groups`: one case in six first puts 2..3 peers behind ONE address (flag `g<k>`; a NAT / proxy address in front of
/// several nodes): host ids, not addresses, identify nodes - replica sets, plans and shards must not change.
fn add_sharders_grouped(rng: &mut Rng, peers: &mut [PeerSpec], groups: bool) {
    if groups && peers.len() >= 2 && rng.chance(1, 6) {
        let k = rng.below(3);
        let m = rng.range(2, 3.min(peers.len() as i64)) as usize;
        let mut idx: Vec<usize> = (0..peers.len()).collect();
        rng.shuffle(&mut idx);
        for i in idx.into_iter().take(m) {
            peers[i].flags.push_str(&format!("g{}", k));
        }
    }
    const NRS: [u16; 14] = [1, 2, 3, 4, 5, 6, 7, 8, 12, 16, 255, 256, 1000, 65535];
    const MSBS: [u8; 7] = [0, 0, 1, 12, 12, 31, 63];
    let mode = rng.below(8);
    let common = (*rng.pick(&NRS), *rng.pick(&MSBS));
    for p in peers.iter_mut() {
        let sh = match mode {
            0 => None,                 // a Cassandra-like cluster
            1 => Some(common),         // the same sharder everywhere
            _ => if rng.chance(1, 6) { None } else { Some((*rng.pick(&NRS), *rng.pick(&MSBS))) },
        };
        if let Some((nr, msb)) = sh {
            p.flags.push_str(&format!("s{}m{}", nr, msb));
        }
    }
}

/// Tablets of one table: a partition of (a part of) the token space, then a few later inserts that overlap, split or
/// re-learn earlier ones; replicas = 1..3 known hosts (sometimes an unknown host, a host without tokens, the same
/// host on two shards), shards 0..7.
fn gen_tablets(rng: &mut Rng, peers: &[PeerSpec], toks: &[i64]) -> Vec<TabletSpec> {
    let mut cuts: Vec<i64> = Vec::new();
    let m = rng.range(1, 5) as usize;
    for _ in 0..m {
        cuts.push(if rng.chance(2, 3) && !toks.is_empty() { *rng.pick(toks) } else { rng.i64_boundary() });
    }
    cuts.push(i64::MAX);
    cuts.sort_unstable();
    cuts.dedup();
    let gen_reps = |rng: &mut Rng| -> Vec<(u64, u32)> {
        let mut v: Vec<(u64, u32)> = Vec::new();
        if peers.is_empty() {
            return v;
        }
        let lo = if rng.chance(1, 12) { 0 } else { 1 };
        for _ in 0..rng.range(lo, 3) {
            let h = if rng.chance(1, 15) { 999 } else { rng.pick(peers).id };
            let sh = rng.below(8) as u32;
            if !v.iter().any(|(x, s)| *x == h && *s == sh) && (rng.chance(1, 6) || !v.iter().any(|(x, _)| *x == h)) {
                v.push((h, sh));
            }
        }
        v
    };
    let mut out: Vec<TabletSpec> = Vec::new();
    // (prev, cut] ranges; the first range starts at i64::MIN + 1 (tokens are never i64::MIN) unless a gap is left
    let mut prev: i64 = i64::MIN;
    for c in &cuts {
        if *c == i64::MIN {
            continue;
        }
        let first = prev.wrapping_add(1);
        if norm_token(first) <= norm_token(*c) && !rng.chance(1, 8) {
            out.push(TabletSpec { first, last: *c, reps: gen_reps(rng) });
        }
        prev = *c;
    }
    if rng.chance(1, 3) {
        rng.shuffle(&mut out);
    }
    // later inserts: overlap / split / exact re-learn
    for _ in 0..rng.below(3) {
        if out.is_empty() {
            break;
        }
        let base = rng.pick(&out).clone();
        let (f, l) = (norm_token(base.first), norm_token(base.last));
        let t = match rng.below(4) {
            0 => TabletSpec { first: f, last: l, reps: gen_reps(rng) },
            1 => TabletSpec { first: f, last: f.saturating_add(((l as i128 - f as i128) / 2) as i64), reps: gen_reps(rng) },
            2 => TabletSpec { first: l, last: l.saturating_add(rng.range(0, 40)), reps: gen_reps(rng) },
            _ => {
                let a = rng.i64_boundary();
                let b = rng.i64_boundary();
                TabletSpec { first: norm_token(a).min(norm_token(b)), last: norm_token(a).max(norm_token(b)), reps: gen_reps(rng) }
            }
        };
        if norm_token(t.first) <= norm_token(t.last) {
            out.push(t);
        }
    }
    out
}

/// Tokens to query for a table: ring tokens and tablet boundaries with their neighbours.
fn tablet_tokens(tablets: &[TabletSpec]) -> Vec<i64> {
    let mut v: Vec<i64> = Vec::new();
    for t in tablets {
        for x in [t.first, t.last] {
            v.push(x);
            v.push(x.wrapping_add(1));
            v.push(x.wrapping_sub(1));
        }
        v.push(((norm_token(t.first) as i128 + norm_token(t.last) as i128) / 2) as i64);
    }
    v
}


// ---- hist generators

fn sharder_flag(rng: &mut Rng) -> String {
    if rng.chance(1, 4) {
        String::new()
    } else {
        format!("s{}m{}", *rng.pick(&[1u16, 2, 3, 4, 7, 8, 256, 65535]), *rng.pick(&[0u8, 0, 1, 12, 63]))
    }
}

/// The bytes a server puts under `tablets-routing-v1` for this tablet: `tuple<bigint, bigint, list<tuple<uuid, int>>>`
/// with the range given as (first - 1, last].
fn payload_hex(t: &TabletSpec) -> String {
    let mut b: Vec<u8> = Vec::new();
    let cell = |b: &mut Vec<u8>, v: &[u8]| {
        b.extend_from_slice(&(v.len() as i32).to_be_bytes());
        b.extend_from_slice(v);
    };
    cell(&mut b, &t.first.wrapping_sub(1).to_be_bytes());
    cell(&mut b, &t.last.to_be_bytes());
    let mut list: Vec<u8> = Vec::new();
    list.extend_from_slice(&(t.reps.len() as i32).to_be_bytes());
    for (h, sh) in &t.reps {
        let mut item: Vec<u8> = Vec::new();
        cell(&mut item, &(*h as u128).to_be_bytes());
        cell(&mut item, &(*sh as i32).to_be_bytes());
        cell(&mut list, &item);
    }
    cell(&mut b, &list);
    crate::util::hex(&b)
}

/// One tablet-feedback op: plain (`T`) or as payload bytes (`B`).
fn learn_op(rng: &mut Rng, ks: usize, t: &TabletSpec) -> String {
    if rng.chance(1, 3) && t.first > i64::MIN {
        let good = payload_hex(t);
        // one payload in six is one the driver must refuse (nothing is learnt from it): cut short, an empty or inverted
        // range, a negative shard, a replica whose host id is not 16 bytes
        let hexs = if rng.chance(1, 6) {
            match rng.below(4) {
                0 => {
                    let cut = 2 * rng.below((good.len() / 2) as u64) as usize;
                    if cut == 0 { "00".to_owned() } else { good[..cut].to_owned() }
                }
                1 => payload_hex(&TabletSpec { first: t.last.wrapping_add(1), last: t.last.wrapping_sub(rng.below(3) as i64), reps: t.reps.clone() }),
                2 if !t.reps.is_empty() => {
                    // the last replica's shard becomes -1 (its four bytes are the last four of the payload)
                    format!("{}ffffffff", &good[..good.len() - 8])
                }
                _ if !t.reps.is_empty() => {
                    // the first replica's uuid cell claims 15 bytes
                    let at = 2 * (4 + 8 + 4 + 8 + 4 + 4 + 4);
                    format!("{}0000000f{}", &good[..at], &good[at + 8..])
                }
                _ => good,
            }
        } else {
            good
        };
        format!("B{}.0@{}", ks, hexs)
    } else {
        format!("T{}.0@{}", ks, fmt_tablet(t))
    }
}

fn fmt_tablet(t: &TabletSpec) -> String {
    let reps = if t.reps.is_empty() { "-".to_owned() } else { t.reps.iter().map(|(h, s)| format!("{}.{}", h, s)).collect::<Vec<_>>().join(",") };
    format!("{}_{}_{}", t.first, t.last, reps)
}

/// The shape of the tablet-feedback-before-topology race: a tablet is learnt that names a replica the driver does not
/// know yet (in the preferred datacenter) next to a known replica elsewhere; an ordinary refresh then adds the node -
/// and, most of the time, changes nothing else (no node removed, none re-created: the added node goes to the end of
/// the peer list, so nobody's address moves).
fn gen_late_replica(rng: &mut Rng, samples: usize, emit: &mut dyn FnMut(String)) {
    let (dl, dr) = *rng.pick(&[(0u32, 1u32), (1, 0), (1, 3), (2, 0)]);
    // a third of the histories are driven with a host filter that accepts every peer (ops G / H): no disabled node then
    let acc = rng.chance(1, 3);
    let rop = |rng: &mut Rng| if !acc { "R" } else if rng.bool() { "G" } else { "H" };
    let mut next_id = 1u64;
    let mut mk = |rng: &mut Rng, dc: u32, flags: &str| -> PeerSpec {
        let id = next_id;
        next_id += rng.range(1, 9) as u64;
        let vn = rng.range(1, 2);
        PeerSpec {
            id,
            dc: Some(dc),
            rack: if rng.chance(1, 6) { None } else { Some(rng.below(2) as u32) },
            tokens: (0..vn).map(|k| (id as i64) * 1000 + k * 37 - 3000).collect(),
            flags: format!("{}{}", flags, sharder_flag(rng)),
        }
    };
    // known nodes: 0..2 local ones (some down), 1..2 remote ones (the known replica is live)
    let mut known: Vec<PeerSpec> = Vec::new();
    for _ in 0..rng.below(3) {
        let f = if acc { *rng.pick(&["", "", "x"]) } else { *rng.pick(&["", "", "x", "d"]) };
        known.push(mk(rng, dl, f));
    }
    let remote_rep = mk(rng, dr, "");
    known.push(remote_rep.clone());
    if rng.chance(1, 2) {
        let f = *rng.pick(&["", "x"]);
        known.push(mk(rng, dr, f));
    }
    if rng.chance(1, 2) {
        rng.shuffle(&mut known);
    }
    let late_flags = if rng.chance(1, 10) { "x" } else { "" };
    let late = mk(rng, dl, late_flags);
    let kss = vec![if rng.bool() { Strat::Nts(vec![(dl, 1), (dr, 1)]) } else { Strat::Simple(2) }];
    // the tablet: the late replica and the known remote one (either order), sometimes a second known replica
    let (first, last) = *rng.pick(&[(-9223372036854775807i64, 9223372036854775807i64), (1, 1000), (-500, 500), (0, 0)]);
    let mut reps = vec![(late.id, rng.below(8) as u32), (remote_rep.id, rng.below(8) as u32)];
    if rng.bool() {
        reps.swap(0, 1);
    }
    if known.len() > 1 && rng.chance(1, 3) {
        let extra = rng.pick(&known).id;
        if !reps.iter().any(|(h, _)| *h == extra) {
            reps.push((extra, rng.below(8) as u32));
        }
    }
    let tablet = TabletSpec { first, last, reps };
    let mut ops: Vec<String> = Vec::new();
    if rng.chance(1, 4) {
        ops.push("E0.0".into());
    }
    // noise before: an unrelated tablet elsewhere in the token space
    if rng.chance(1, 3) && last < 5000 {
        ops.push(format!("T0.0@{}", fmt_tablet(&TabletSpec { first: 5001, last: 6000, reps: vec![(remote_rep.id, 1)] })));
    }
    ops.push(learn_op(rng, 0, &tablet));
    // the refresh that learns the node
    let mut after = known.clone();
    match rng.below(10) {
        // most of the time nothing else changes
        0..=6 => after.push(late.clone()),
        // ... or the new node is listed first: everybody's address moves (all re-created)
        7 => after.insert(0, late.clone()),
        // ... or another node changes rack at the same time
        8 => {
            let k = rng.below(after.len() as u64) as usize;
            after[k].rack = Some(after[k].rack.map(|r| r + 1).unwrap_or(0));
            after.push(late.clone());
        }
        // ... or nothing is learnt at all (the tablet must then be forgotten)
        _ => {}
    }
    ops.push(format!("{}{}", rop(rng), fmt_topology(&after)));
    if rng.chance(1, 5) {
        ops.push(format!("{}{}", rop(rng), fmt_topology(&after))); // a second refresh that changes nothing
    }
    let topo0 = fmt_topology(&known);
    let ops_s = ops.join("+");
    let rack = late.rack.unwrap_or(0);
    for _ in 0..3 {
        let pref = match rng.below(6) {
            0 | 1 | 2 => format!("d{}", dl),
            3 => format!("r{}.{}", dl, rack),
            4 => "i".to_owned(),
            _ => "a".to_owned(),
        };
        let rpref = if pref == "i" { format!("d{}", dl) } else { "a".to_owned() };
        let tok = *rng.pick(&[first, last, first.saturating_add(1), last.saturating_sub(1), ((first as i128 + last as i128) / 2) as i64]);
        let tok = tok.clamp(first, last);
        let (lwt, cons) = if rng.chance(1, 4) { (1, "quorum") } else { (0, *rng.pick(&["one", "lq", "quorum"])) };
        emit(format!(
            "hist {} {} {} {}/t/{}/{} {}/0/{}/{}/-/{} 0 {}",
            topo0,
            fmt_strategies(&kss),
            ops_s,
            pref,
            if rng.chance(5, 6) { "f" } else { "n" },
            if rng.chance(3, 4) { "s" } else { "x" },
            tok,
            lwt,
            cons,
            rpref,
            samples
        ));
    }
}

/// Random histories: tablet updates (known, late and unknown hosts; overlapping ranges) interleaved with refreshes that
/// add a late node, remove a node, move a node to another datacenter / rack, reorder the peers, or change nothing.
fn gen_random_hist(rng: &mut Rng, samples: usize, emit: &mut dyn FnMut(String)) {
    let shape = TopoShape { max_nodes: 6, max_dcs: 3, max_racks: 2, max_vnodes: 2, dups: 0 };
    let mut all = gen_topology(rng, shape);
    if all.len() < 2 {
        return;
    }
    random_flags(rng, &mut all);
    let acc = rng.chance(1, 3);
    if acc {
        for p in all.iter_mut() {
            p.flags = p.flags.replace('d', "");
        }
    }
    let rop = |rng: &mut Rng| if !acc { "R" } else if rng.bool() { "G" } else { "H" };
    add_sharders(rng, &mut all);
    let n_late = rng.below(3).min(all.len() as u64 - 1) as usize;
    let mut late: Vec<PeerSpec> = all.split_off(all.len() - n_late);
    let mut cur: Vec<PeerSpec> = all.clone();
    let every: Vec<u64> = cur.iter().chain(late.iter()).map(|p| p.id).collect();
    let dcs = {
        let mut d: Vec<u32> = cur.iter().chain(late.iter()).filter_map(|p| p.dc).collect();
        d.sort_unstable();
        d.dedup();
        d
    };
    let nks = rng.range(1, 2) as usize;
    let kss: Vec<Strat> = (0..nks).map(|_| gen_strategy(rng, &cur)).collect();
    let topo0 = fmt_topology(&cur);
    const RANGES: [(i64, i64); 8] = [(-9223372036854775807, -1), (0, 9223372036854775807), (1, 100), (101, 200), (50, 150), (150, 150), (-300, 0), (9223372036854775806, 9223372036854775807)];
    let mut ops: Vec<String> = Vec::new();
    let mut learnt: Vec<TabletSpec> = Vec::new();
    for _ in 0..rng.range(1, 6) {
        match rng.below(10) {
            0..=4 => {
                let (first, last) = *rng.pick(&RANGES);
                let mut reps: Vec<(u64, u32)> = Vec::new();
                for _ in 0..rng.range(1, 3) {
                    let h = if rng.chance(1, 12) { 999 } else { *rng.pick(&every) };
                    if !reps.iter().any(|(x, _)| *x == h) {
                        reps.push((h, rng.below(8) as u32));
                    }
                }
                let t = TabletSpec { first, last, reps };
                let ks = if rng.chance(1, 8) { 1 } else { 0 };
                ops.push(learn_op(rng, ks, &t));
                if ks == 0 {
                    learnt.push(t);
                }
            }
            5 | 6 if !late.is_empty() => {
                cur.push(late.remove(0));
                ops.push(format!("{}{}", rop(rng), fmt_topology(&cur)));
            }
            7 if cur.len() > 1 => {
                match rng.below(3) {
                    0 => {
                        let k = rng.below(cur.len() as u64) as usize;
                        cur.remove(k);
                    }
                    1 => {
                        let k = rng.below(cur.len() as u64) as usize;
                        if !dcs.is_empty() {
                            cur[k].dc = Some(*rng.pick(&dcs));
                        }
                        if rng.bool() {
                            cur[k].rack = Some(rng.below(2) as u32);
                        }
                    }
                    _ => rng.shuffle(&mut cur),
                }
                ops.push(format!("{}{}", rop(rng), fmt_topology(&cur)));
            }
            8 => ops.push("E0.1".into()),
            _ => ops.push(format!("{}{}", rop(rng), fmt_topology(&cur))),
        }
    }
    let ops_s = ops.join("+");
    let mut toks = tablet_tokens(&learnt);
    toks.extend_from_slice(&[0, 75, 150, -1, 9223372036854775807]);
    for _ in 0..3 {
        let cfg = format!(
            "{}/{}/{}/{}",
            gen_pref(rng, &cur, true).fmt(),
            if rng.chance(9, 10) { "t" } else { "n" },
            if rng.chance(1, 2) { "f" } else { "n" },
            if rng.chance(3, 4) { "s" } else { "x" }
        );
        let (lwt, cons) = if rng.chance(1, 4) { (1, "quorum") } else { (0, *rng.pick(&["one", "lq", "serial"])) };
        emit(format!(
            "hist {} {} {} {} {}/{}/{}/{}/-/{} {} {}",
            topo0,
            fmt_strategies(&kss),
            ops_s,
            cfg,
            rng.pick(&toks),
            if rng.chance(1, 10) { 1 } else { 0 },
            lwt,
            cons,
            gen_pref(rng, &cur, false).fmt(),
            if rng.chance(1, 8) { 1 } else { 0 },
            samples
        ));
    }
}


/// A refiller script: start, then a few of {close a pooled connection, restart with other parameters (also: without
/// shards), change the parameters for later connections, pin the shards of the next connections (several on one shard:
/// excess connections), shift the shard-aware port (a NAT)}, each followed by a look.
fn gen_refill(rng: &mut Rng) -> String {
    let size = match rng.below(8) {
        0 => "S2".to_owned(),
        1 | 2 => format!("H{}", rng.range(1, 4)),
        _ => "S1".to_owned(),
    };
    let port = if rng.chance(3, 4) { "p" } else { "n" };
    let params = |rng: &mut Rng| -> (u16, String) {
        if rng.chance(1, 7) {
            (0, "0.0".to_owned())
        } else {
            let nr = rng.range(1, 6) as u16;
            (nr, format!("{}.{}", nr, *rng.pick(&[0u8, 1, 12, 12])))
        }
    };
    let (mut nr, p) = params(rng);
    let mut steps: Vec<String> = vec![format!("N{}", p)];
    if nr > 1 && rng.chance(1, 3) {
        steps.push(format!("M{}", rng.range(1, nr as i64 - 1).max(1)));
    }
    if nr > 0 && rng.chance(1, 3) {
        let s = rng.below(nr as u64);
        steps.push(format!("A{}", (0..rng.range(2, 4)).map(|_| if rng.chance(2, 3) { s } else { rng.below(nr as u64) }.to_string()).collect::<Vec<_>>().join(",")));
    }
    steps.push("W".into());
    for _ in 0..rng.range(1, 3) {
        match rng.below(7) {
            0 | 1 | 2 => {
                let s = if nr == 0 { 0 } else if rng.chance(1, 8) { nr as u64 } else { rng.below(nr as u64) };
                steps.push(format!("C{}", s));
                if rng.chance(1, 3) && nr > 0 {
                    steps.push(format!("C{}", rng.below(nr as u64)));
                }
            }
            3 | 4 => {
                let (n2, p2) = params(rng);
                let old = nr;
                nr = n2;
                steps.push(format!("N{}", p2));
                if old > 0 && rng.chance(1, 2) {
                    // the reshard race: shard numbers of the OLD sharder asked of the new pool
                    steps.push(format!("Q{}", (0..old).map(|x| x.to_string()).collect::<Vec<_>>().join(",")));
                    continue;
                }
            }
            5 => {
                let (n2, p2) = params(rng);
                steps.push(format!("P{}", p2));
                steps.push(format!("C{}", if nr == 0 { 0 } else { rng.below(nr as u64) }));
                nr = n2;
            }
            _ => {
                if nr > 0 {
                    let s = rng.below(nr as u64);
                    steps.push(format!("A{},{}", s, s));
                    steps.push(format!("C{}", s));
                }
            }
        }
        steps.push("W".into());
    }
    format!("refill {} {} {}", size, port, steps.join(";"))
}

fn tagged(line: String) -> String {
    let w: Vec<&str> = line.split(' ').collect();
    if w.len() == 8 && w[0] == "hist" {
        // tag: what the refreshes of the history do
        let n_refresh = w[3].split('+').filter(|o| o.starts_with('R') || o.starts_with('G') || o.starts_with('H')).count();
        let accm = if w[3].split('+').any(|o| o.starts_with('G') || o.starts_with('H')) { "acc" } else { "rej" };
        let n_learn = w[3].split('+').filter(|o| o.starts_with('T') || o.starts_with('B')).count();
        return format!("hist.{}T{}R{} {}", accm, n_learn.min(3), n_refresh.min(3), w[1..].join(" "));
    }
    if w.len() != 8 || w[0] != "plan" {
        return line;
    }
    let (Some(cfg), Some(rq), Some(tables), Ok(tbl)) = (parse_config(w[4]), parse_request(w[5]), parse_tables(w[3]), w[6].parse::<usize>()) else {
        return line;
    };
    let kind = |p: &Pref| match p {
        Pref::Inherit => "i",
        Pref::Any => "a",
        Pref::Dc(_) => "d",
        Pref::DcRack(..) => "r",
    };
    let pref = if cfg.pref == Pref::Inherit { kind(&rq.pref) } else { kind(&cfg.pref) };
    let lwt = rq.lwt || matches!(rq.consistency, Consistency::Serial | Consistency::LocalSerial);
    let tab = rq.ks.is_some_and(|k| tables.iter().any(|d| d.ks == k && d.tbl == tbl));
    let aware = cfg.token_aware && rq.token.is_some() && rq.ks.is_some();
    format!(
        "plan.{}{}{}{}{} {}",
        if tab { "tablet" } else { "ring" },
        pref,
        if aware { "T" } else { "U" },
        if cfg.failover { "f" } else { "n" },
        if lwt { "L" } else { "N" },
        w[1..].join(" ")
    )
}

pub fn generate(rng: &mut Rng, tier: Tier, emit0: &mut dyn FnMut(String)) {
    let emit: &mut dyn FnMut(String) = &mut |line: String| emit0(tagged(line));
    let quick = tier == Tier::Quick;
    let samples = if quick { 10 } else { 16 };

    // 2. pool cases (generated first, emitted spread among the plan cases so that the runner's chunks share them): every shard count 1..8 x pool sizes; every shard requested, then out-of-range / huge shards
    let pool_case = |rng: &mut Rng, kind: &str, n: u16, msb: u8, size: String, port: &str, emit: &mut dyn FnMut(String)| {
        let reqs: Vec<String> = if kind == "pool" {
            let mut v: Vec<i64> = (0..n as i64).collect();
            v.extend_from_slice(&[n as i64, n as i64 + 1, 65535, 65536, 65536 + (n as i64 - 1), (1i64 << 32) - 1]);
            for _ in 0..4 {
                v.push(rng.below(n as u64) as i64);
            }
            v.iter().map(|x| x.to_string()).collect()
        } else {
            // tokens: the extremes, shard boundaries (smallest token of each shard and its predecessor), random
            let mut v: Vec<i64> = vec![i64::MIN, i64::MIN + 1, -1, 0, 1, i64::MAX - 1, i64::MAX];
            for s in 1..n as u128 {
                let b = ((s << 64) + (n as u128 - 1)) / n as u128; // ceil(s * 2^64 / n) in the shifted space
                let step = 1u128 << msb;
                let sb = b.div_ceil(step) * step;
                if sb < 1u128 << 64 {
                    let low = (sb >> msb) as u64;
                    let high = if msb == 0 { 0 } else { rng.next() << (64 - msb as u32) };
                    let biased = high | low;
                    v.push(biased.wrapping_sub(1u64 << 63) as i64);
                    v.push(biased.wrapping_sub(1).wrapping_sub(1u64 << 63) as i64);
                }
            }
            for _ in 0..6 {
                v.push(rng.i64_boundary());
            }
            v.iter().map(|x| x.to_string()).collect()
        };
        emit(format!("{} {} {} {} {} {}", kind, n, msb, size, port, reqs.join(",")));
    };
    let mut pool_lines: Vec<String> = Vec::new();
    let collect: &mut dyn FnMut(String) = &mut |l: String| pool_lines.push(l);
    for _ in 0..if quick { 28 } else { 260 } {
        let l = gen_refill(rng);
        collect(l);
    }
    for l in [
        "refill S1 p N3.12;W;C1;W",
        "refill S1 p N4.12;M1;W;C2;W",
        "refill S1 n N3.12;A1,1,1,0;W;C1;W",
        "refill S1 p N3.12;W;N5.0;W;N0.0;W;N2.12;W",
        "refill S1 p N3.12;W;P2.1;C0;W",
        "refill H3 p N4.0;W;C0;W",
        "refill S1 p N5.0;W;N2.0;Q0,1,2,3,4,65535,65536",
        "refill S1 p N4.12;W;N0.0;Q0,1,2,3",
        "refill S1 p N2.12;W;P6.12;C1;Q0,1,5,6",
    ] {
        collect(l.to_owned());
    }
    let rounds = if quick { 1 } else { 6 };
    for round in 0..rounds {
        // the server reports the NEXT shard for shard-aware-port connections (NAT emulation): connections must be filed
        // under the shard the server reports, not the one the driver aimed at
        if round % 2 == 0 {
            for n in [2u16, 3, 4, 5, 8] {
                pool_case(rng, "pool", n, 12, "S1".into(), "q", collect);
            }
            pool_case(rng, "pool", 3, 12, "S2".into(), "q", collect);
            pool_case(rng, "route", 3, 12, "S1".into(), "q", collect);
            pool_case(rng, "route", 4, 0, "S1".into(), "q", collect);
        }
        for n in 1..=8u16 {
            let msb = *rng.pick(&[0u8, 1, 12, 12, 12, 31, 63]);
            pool_case(rng, "pool", n, msb, "S1".into(), "p", collect);
            let h = format!("H{}", rng.range(1, n as i64 + 1));
            pool_case(rng, "pool", n, 12, h, "p", collect);
            pool_case(rng, "route", n, msb, "S1".into(), "p", collect);
            let h = format!("H{}", rng.range(1, (n as i64 / 2).max(1)));
            let port = if rng.bool() { "p" } else { "n" };
            pool_case(rng, "route", n, 12, h, port, collect);
            if n <= 4 {
                pool_case(rng, "pool", n, 12, "S2".into(), "p", collect);
            }
        }
        // PerShard through the ordinary port only (connections land where the server puts them; excess connections)
        // (3 and 5: the kernel hands out ephemeral ports in steps of two, so an even shard count never fills)
        for n in [3u16, 5] {
            pool_case(rng, "pool", n, 12, "S1".into(), "n", collect);
            pool_case(rng, "route", n, 12, "S1".into(), "n", collect);
        }
    }

    // 1. plan cases: random topologies x liveness x keyspaces x (ring | tablet) tables x policy settings x tokens
    let shape = TopoShape { max_nodes: 7, max_dcs: 3, max_racks: 3, max_vnodes: 3, dups: 1 };
    let n_topo = if quick { 900 } else { 14000 };
    let stride = (n_topo / (pool_lines.len() + 1)).max(1);
    for topo_i in 0..n_topo {
        if topo_i % stride == stride / 2 {
            if let Some(l) = pool_lines.pop() {
                emit(l);
            }
        }
        let mut peers = gen_topology(rng, shape);
        let nks = rng.range(1, 3) as usize;
        let kss: Vec<Strat> = (0..nks)
            .map(|_| {
                if peers.len() >= 2 && rng.chance(1, 2) {
                    // replica-rich: several replicas per datacenter
                    let n = peers.iter().filter(|p| !p.tokens.is_empty()).count();
                    if rng.chance(1, 2) {
                        Strat::Simple(rng.range(2, n.max(2) as i64) as usize)
                    } else {
                        Strat::Nts(
                            dcs_of(&peers)
                                .iter()
                                .map(|d| {
                                    let nodes = peers.iter().filter(|p| p.dc == Some(*d) && !p.tokens.is_empty()).count();
                                    (*d, rng.range(1, nodes.max(1) as i64 + 1) as usize)
                                })
                                .collect(),
                        )
                    }
                } else {
                    gen_strategy(rng, &peers)
                }
            })
            .collect();
        let ring_toks = query_tokens(&peers);
        // tablet tables: k0.t0 mostly, sometimes k1.t0 / an undeclared keyspace / a declared table without tablets
        let mut tables: Vec<TableDecl> = Vec::new();
        if rng.chance(3, 5) {
            tables.push(TableDecl { ks: 0, tbl: 0, tablets: gen_tablets(rng, &peers, &ring_toks) });
            if rng.chance(1, 4) {
                tables.push(TableDecl { ks: rng.below(nks as u64 + 1) as usize, tbl: 1, tablets: if rng.chance(1, 2) { vec![] } else { gen_tablets(rng, &peers, &ring_toks) } });
            }
        }
        let tabs_s = fmt_tables(&tables);
        let ks_s = fmt_strategies(&kss);
        for _ in 0..2 {
            random_flags(rng, &mut peers);
            add_sharders_grouped(rng, &mut peers, true);
            let topo = fmt_topology(&peers);
            for _ in 0..5 {
                let cfg = format!(
                    "{}/{}/{}/{}",
                    gen_pref(rng, &peers, true).fmt(),
                    if rng.chance(9, 10) { "t" } else { "n" },
                    if rng.chance(1, 2) { "f" } else { "n" },
                    if rng.chance(3, 4) { "s" } else { "x" }
                );
                let ks = match rng.below(12) {
                    0 => "-".to_owned(),
                    1 => (nks + 2).to_string(),
                    _ if !tables.is_empty() && rng.chance(2, 3) => tables[rng.below(tables.len() as u64) as usize].ks.to_string(),
                    _ => rng.below(nks as u64).to_string(),
                };
                let tbl = if rng.chance(1, 8) { rng.below(3) } else if ks == "0" { 0 } else { rng.below(2) };
                let mut toks: Vec<i64> = ring_toks.clone();
                if let Some(d) = tables.iter().find(|d| d.ks.to_string() == ks && d.tbl as u64 == tbl) {
                    let tt = tablet_tokens(&d.tablets);
                    if !tt.is_empty() && rng.chance(3, 4) {
                        toks = tt;
                    }
                }
                let tok = if rng.chance(1, 14) { "-".to_owned() } else { rng.pick(&toks).to_string() };
                let (lwt, cons) = match rng.below(5) {
                    0 => (1, "quorum"),
                    1 => (0, *rng.pick(&["serial", "lserial"])),
                    _ => (0, *rng.pick(&["one", "lq", "quorum", "all"])),
                };
                emit(format!(
                    "plan {} {} {} {} {}/{}/{}/{}/{}/{} {} {}",
                    topo,
                    ks_s,
                    tabs_s,
                    cfg,
                    tok,
                    ks,
                    lwt,
                    cons,
                    *rng.pick(&["-", "s", "l"]),
                    gen_pref(rng, &peers, false).fmt(),
                    tbl,
                    samples
                ));
            }
        }
    }
    for l in pool_lines.drain(..) {
        emit(l);
    }

    // 1b. stmt cases: the routing info comes from a (forged) prepared statement and bound values, as in Session::execute
    let shape_s = TopoShape { max_nodes: 7, max_dcs: 3, max_racks: 3, max_vnodes: 3, dups: 0 };
    for _ in 0..if quick { 350 } else { 5000 } {
        let mut peers = gen_topology(rng, shape_s);
        if peers.is_empty() {
            continue;
        }
        let n = peers.iter().filter(|p| !p.tokens.is_empty()).count();
        let kss: Vec<Strat> = vec![
            if rng.bool() { Strat::Simple(rng.range(1, n.max(1) as i64) as usize) } else { gen_strategy(rng, &peers) },
            gen_strategy(rng, &peers),
        ];
        random_flags(rng, &mut peers);
        add_sharders_grouped(rng, &mut peers, true);
        let ring_toks = query_tokens(&peers);
        let tables: Vec<TableDecl> = if rng.chance(1, 3) { vec![TableDecl { ks: 1, tbl: 0, tablets: gen_tablets(rng, &peers, &ring_toks) }] } else { vec![] };
        let topo = fmt_topology(&peers);
        for _ in 0..3 {
            // 1..4 bind markers; the key columns are some of them, in any order
            let m = rng.range(1, 4) as usize;
            let mut idx: Vec<usize> = (0..m).collect();
            rng.shuffle(&mut idx);
            let nkey = match rng.below(10) {
                0 => 0,
                1..=5 => 1,
                _ => rng.range(1, m as i64) as usize,
            };
            let mut wire: Vec<usize> = idx[..nkey.min(m)].to_vec();
            if rng.chance(1, 25) && !wire.is_empty() {
                wire[0] = m + rng.below(2) as usize; // a key marker without a bound value
            }
            let vals: Vec<String> = (0..m)
                .map(|i| {
                    let is_key = wire.contains(&i);
                    match rng.below(if is_key { 30 } else { 8 }) {
                        0 => "N".to_owned(),
                        1 => "U".to_owned(),
                        2 => "-".to_owned(),
                        3 => format!("z{}x{:02x}", rng.range(1, 40), rng.below(256)),
                        _ => {
                            let len = rng.range(1, 12) as usize;
                            crate::util::hex(&rng.bytes(len))
                        }
                    }
                })
                .collect();
            let cfg = format!(
                "{}/{}/{}/{}",
                gen_pref(rng, &peers, true).fmt(),
                if rng.chance(9, 10) { "t" } else { "n" },
                if rng.chance(1, 2) { "f" } else { "n" },
                if rng.chance(3, 4) { "s" } else { "x" }
            );
            let ks = if rng.chance(1, 12) { 3 } else { rng.below(2) };
            emit(format!(
                "stmt {} {} {} {} {}/{}/{}/0/{} {} {}/{}/{} {}",
                topo,
                fmt_strategies(&kss),
                fmt_tables(&tables),
                cfg,
                if rng.chance(1, 12) { 1 } else { 0 },
                if wire.is_empty() { "-".to_owned() } else { wire.iter().map(|x| x.to_string()).collect::<Vec<_>>().join(",") },
                ks,
                if rng.chance(1, 3) { 1 } else { 0 },
                vals.join(","),
                *rng.pick(&["one", "lq", "quorum", "quorum", "serial", "lserial"]),
                *rng.pick(&["-", "s", "l"]),
                gen_pref(rng, &peers, false).fmt(),
                samples
            ));
        }
    }


    // 2b. histories: tablet updates interleaved with metadata refreshes
    for _ in 0..if quick { 500 } else { 6000 } {
        gen_late_replica(rng, samples, emit);
    }
    for _ in 0..if quick { 700 } else { 9000 } {
        gen_random_hist(rng, samples, emit);
    }

    // 3. malformed case lines
    for bad in [
        "plan",
        "plan 1:0:0:5 S1 - a/t/f/s 5/0/0/one/-/a 0",
        "plan 1:0:0:5 S1 0.0@5_1_1.0 a/t/f/s 5/0/0/one/-/a 0 3",
        "plan 1:0:0:5 S1 0.0@1_5_1 a/t/f/s 5/0/0/one/-/a 0 3",
        "plan 1:0:0:5 S1 0.0+0.0 a/t/f/s 5/0/0/one/-/a 0 3",
        "plan 1:0:0:5 S1 - a/t/f/s 5/0/0/one/-/i 0 3",
        "hist 1:0:0:5 S1 X0.0 a/t/f/s 5/0/0/one/-/a 0 3",
        "hist 1:0:0:5 S1 B0.0@zz a/t/f/s 5/0/0/one/-/a 0 3",
        "hist 1:0:0:5 S1 R1:0:0:5+G1:0:0:5 a/t/f/s 5/0/0/one/-/a 0 3",
        "hist 1:0:0:5:d S1 G1:0:0:5:d a/t/f/s 5/0/0/one/-/a 0 3",
        "hist 1:0:0:5 S1 T0.0@5_1_1.0 a/t/f/s 5/0/0/one/-/a 0 3",
        "hist 1:0:0:5:s2m1 S1 R1:0:0:5:s3m1 a/t/f/s 5/0/0/one/-/a 0 3",
        "hist 1:0:0:5 S1 R1:0:0:5;1:0:0:6 a/t/f/s 5/0/0/one/-/a 0 3",
        "hist 1:0:0:5 S1 T0.0@1_5_1.0@6_9_1.0 a/t/f/s 5/0/0/one/-/a 0 3",
        "refill S1 p W",
        "refill S1 p N3.12;C1",
        "refill S5 p N3.12;W",
        "refill S1 q N3.12;W",
        "refill S1 p N3.64;W",
        "refill S1 p N3.12;X;W",
        "stmt 1:0:0:5 S1 - a/t/f/s 0/0,0/0/0 aa,bb one/-/a 3",
        "stmt 1:0:0:5 S1 - a/t/f/s 0/5000/0/0 aa one/-/a 3",
        "stmt 1:0:0:5 S1 - a/t/f/s 2/0/0/0 aa one/-/a 3",
        "stmt 1:0:0:5 S1 - a/t/f/s 0/0/0/0/2 aa one/-/a 3",
        "stmt 1:0:0:5 S1 - a/t/f/s 0/0/0/0 zz one/-/a 3",
        "stmt 1:0:0:5 S1 - a/t/f/s 0/0/0/0 aa one/-/i 3",
        "pool 0 12 S1 p 0",
        "pool 4 64 S1 p 0",
        "pool 4 12 S0 p 0",
        "pool 4 12 X1 p 0",
        "pool 4 12 S1 z 0",
        "plan 1:0:0:5:s0m12 S1 - a/t/f/s 5/0/0/one/-/a 0 3",
        "plan 1:0:0:5:s4m64 S1 - a/t/f/s 5/0/0/one/-/a 0 3",
        "plan 1:0:0:5:s4 S1 - a/t/f/s 5/0/0/one/-/a 0 3",
        "plan 1:0:0:5:qs4m1 S1 - a/t/f/s 5/0/0/one/-/a 0 3",
        "plan 1:0:0:5:s65536m1 S1 - a/t/f/s 5/0/0/one/-/a 0 3",
        "pool 4 12 S1 p -1",
        "route 4 12 S1 p 1,x",
        "shard 4 12 5",
    ] {
        emit0(bad.to_owned());
    }
}

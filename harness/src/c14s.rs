//! C14, the layers above one connection (model: lean/ScyllaVerif/Model/PreparedSession.lean).
//!
//! `pb <cl>.<scl>.<ts> <fail|-> <items>` - `Connection::prepare_batch` (connection.rs:1248-1294) through
//!   `VerifConn::batch` against one scripted node. items `,`-separated: `P<s>` a prepared statement, `Q<s>v` an
//!   unprepared statement bound to one value, `Q<s>e` an unprepared statement with an empty value list; `fail` = a
//!   statement number whose PREPARE the node refuses (0x2200). Statement `s` is written `text_of(s)`; statements with an
//!   even number have one bind marker (`P`, `Q..v`), those with an odd number none (`Q..e`).
//!   Output: `prep=<hex texts of the PREPAREs the batch caused, sorted> | frame=<BATCH frame> | res=...`.
//!   ORACLE: every PREPARE text is byte-identical to an unprepared statement's text that carries values, each such
//!   text exactly once; the BATCH frame has the caller's statements in the caller's order, each with the caller's value
//!   list of the same position, every prepared / replaced statement by the id the node issued for exactly its text,
//!   every value-less unprepared statement still as a query string, and the caller's consistency / serial consistency /
//!   timestamp / batch type.
//!
//! `cs n=<nodes> cap=<c> u=<0|1> ops=<op.op...>` - `CachingSession` + `Session::prepare` against the mock cluster.
//!   ops: `x<t>c<k>` execute_unpaged(text t, config variant k); `b<items>` batch (items `q<t>` unprepared / `p<t>`
//!   prepared beforehand, each with one value); `M<node>t<t>` node answers PREPARE of text t with ANOTHER id from now on;
//!   `F<node>t<t>` that node refuses PREPARE of text t from now on (0x2200 on even nodes, 0x2000 on odd ones);
//!   `G<node>t<t>` / `N<node>t<t>` switch those off again. `sh=<0|2|3>`: shards per node (the per-shard second attempt).
//!   `x` runs `execute_single_page` with the statement's own page size, so the EXECUTE shows what the handle carries.
//!   Output per op: `<op>~pa=<per text: per node the answer it gives and the number of PREPARE frames it got>~<frame>~<res>`.
//!   ORACLE: see `run_cs`.
use crate::e2e::common::*;
use crate::mockcluster::*;
use crate::mocknode as mk;
use crate::mocknode::{BatchStmt, Col, Parsed, ResultMeta};
use crate::rng::Rng;
use crate::{Ctx, Tier};
use scylla::frame::types::{Consistency, SerialConsistency};
use scylla::statement::batch::{Batch, BatchStatement, BatchType};
use scylla::statement::unprepared::Statement;
use scylla::verif_hooks::connection::{VerifConn, VerifConnOptions};
use std::collections::{BTreeMap, HashMap};
use std::sync::{Arc, Mutex};

fn hex(b: &[u8]) -> String {
    b.iter().map(|x| format!("{:02x}", x)).collect()
}

/// how statement `s` of a `pb` case is written (all of `c14::text_v`'s spellings occur)
fn text_of(s: usize) -> String {
    crate::c14::text_v(s, ((s * 3 + 1) % 8) as u8)
}

fn show_id(id: &[u8]) -> String {
    match id.iter().rposition(|b| *b == b'#') {
        Some(i) => format!("{}#{}", hex(&id[..i]), String::from_utf8_lossy(&id[i + 1..])),
        None => hex(id),
    }
}

fn vals_str(v: &[Option<Vec<u8>>]) -> String {
    if v.is_empty() {
        return "-".to_owned();
    }
    v.iter()
        .map(|c| match c {
            Some(b) if b.len() == 4 => i32::from_be_bytes([b[0], b[1], b[2], b[3]]).to_string(),
            Some(b) => format!("x{}", hex(b)),
            None => "null".to_owned(),
        })
        .collect::<Vec<_>>()
        .join("+")
}

fn show_batch(p: &Parsed) -> String {
    match p {
        Parsed::Batch { kind, statements, consistency, serial_consistency, timestamp, .. } => {
            let items: Vec<String> = statements
                .iter()
                .map(|s| match s {
                    BatchStmt::Query(t, v) => format!("t:{}/{}", hex(t.as_bytes()), vals_str(v)),
                    BatchStmt::Prepared(id, v) => format!("i:{}/{}", show_id(id), vals_str(v)),
                })
                .collect();
            format!(
                "ty{} {} cl={} scl={} ts={}",
                kind,
                if items.is_empty() { "-".to_owned() } else { items.join(",") },
                consistency,
                serial_consistency.map(|x| x.to_string()).unwrap_or_else(|| "-".into()),
                timestamp.map(|x| x.to_string()).unwrap_or_else(|| "-".into())
            )
        }
        _ => "?".to_owned(),
    }
}

// ---------------------------------------------------------------------------------------------
// pb
// ---------------------------------------------------------------------------------------------

#[derive(Clone, Copy, PartialEq)]
enum Item {
    P(usize),
    Qv(usize),
    Qe(usize),
}

fn parse_items(s: &str) -> Option<Vec<Item>> {
    if s == "-" {
        return Some(vec![]);
    }
    s.split(',')
        .map(|w| {
            let b = w.as_bytes();
            let num = |x: &str| x.parse::<usize>().ok().filter(|n| *n < 8);
            match (b.first()?, b.last()?) {
                (b'P', _) => Some(Item::P(num(&w[1..])?)),
                (b'Q', b'v') => Some(Item::Qv(num(&w[1..w.len() - 1])?)),
                (b'Q', b'e') => Some(Item::Qe(num(&w[1..w.len() - 1])?)),
                _ => None,
            }
        })
        .collect()
}

fn run_pb(w: &[&str], ctx: &mut Ctx) -> String {
    if w.len() != 4 && w.len() != 5 {
        return "bad-case".into();
    }
    // 5th word: the node answers successive BATCH frames with UNPREPARED naming the id of the statement at these
    // positions of the frame (server-side eviction of statements that `prepare_batch` had just prepared)
    let evict: Vec<usize> = match w.get(4) {
        None | Some(&"-") => vec![],
        Some(s) => match s.split('.').map(|x| x.parse::<usize>()).collect::<Result<Vec<_>, _>>() {
            Ok(v) if v.len() <= 6 => v,
            _ => return "bad-case".into(),
        },
    };
    let cfg: Vec<&str> = w[1].split('.').collect();
    if cfg.len() != 3 {
        return "bad-case".into();
    }
    let Ok(cl) = cfg[0].parse::<u16>() else { return "bad-case".into() };
    let Ok(cons) = Consistency::try_from(cl) else { return "bad-case".into() };
    let scl: Option<u16> = if cfg[1] == "-" { None } else { cfg[1].parse().ok() };
    let serial = match scl {
        None => None,
        Some(8) => Some(SerialConsistency::Serial),
        Some(9) => Some(SerialConsistency::LocalSerial),
        _ => return "bad-case".into(),
    };
    let ts: Option<i64> = if cfg[2] == "-" { None } else { cfg[2].parse().ok() };
    let fail: Option<usize> = if w[2] == "-" { None } else { w[2].parse().ok().filter(|n| *n < 8) };
    if w[2] != "-" && fail.is_none() {
        return "bad-case".into();
    }
    let Some(items) = parse_items(w[3]) else { return "bad-case".into() };
    let odd_arity = |i: &Item| match i {
        Item::P(s) | Item::Qv(s) => s % 2 == 1,
        Item::Qe(s) => s % 2 == 0,
    };
    if items.len() > 12 || items.iter().any(odd_arity) {
        return "bad-case".into();
    }
    let armed = Arc::new(Mutex::new(false));
    let armed_h = Arc::clone(&armed);
    let script = Arc::new(Mutex::new(evict.clone()));
    let script_h = Arc::clone(&script);
    let fail_text = fail.map(text_of);
    let handler: mk::Handler = Box::new(move |req: &mk::Request| match &req.parsed {
        Parsed::Prepare { text } => {
            if *armed_h.lock().unwrap() && Some(text) == fail_text.as_ref() {
                return vec![mk::Action::Respond(mk::RESP_ERROR, mk::body_error(0x2200, "scripted", &[]))];
            }
            // the id is a function of the exact bytes of the query string
            let id = format!("{}#0", text).into_bytes();
            let rm = ResultMeta { cols: Some(vec![]), col_count: 0, ..Default::default() };
            let bind = [Col { name: "v".to_owned(), type_id: 0x0009 }];
            vec![mk::Action::Respond(mk::RESP_RESULT, mk::body_prepared(&id, None, &bind, &[], &rm))]
            // (only statements with a bind marker are ever prepared in these cases)
        }
        Parsed::Batch { statements, .. } => {
            let mut sc = script_h.lock().unwrap();
            while !sc.is_empty() {
                let pos = sc.remove(0);
                if let Some(BatchStmt::Prepared(id, _)) = statements.get(pos) {
                    return vec![mk::Action::Respond(mk::RESP_ERROR, mk::body_unprepared(id))];
                }
            }
            vec![mk::Action::Respond(mk::RESP_RESULT, mk::body_void())]
        }
        _ => vec![mk::Action::Respond(mk::RESP_RESULT, mk::body_void())],
    });
    let rt = tokio::runtime::Builder::new_current_thread().enable_all().build().expect("runtime");
    rt.block_on(async {
        let node = mk::MockNode::start(false, None, handler).await;
        let Ok(conn) = VerifConn::open(node.addr, VerifConnOptions::default()).await else { return "e2e-skip open".to_owned() };
        let mut prepared: HashMap<usize, scylla::statement::prepared::PreparedStatement> = HashMap::new();
        for it in &items {
            if let Item::P(s) = it
                && !prepared.contains_key(s)
            {
                match conn.prepare(&Statement::new(text_of(*s))).await {
                    Ok(p) => {
                        prepared.insert(*s, p);
                    }
                    Err(_) => return "e2e-skip prepare".to_owned(),
                }
            }
        }
        *armed.lock().unwrap() = true;
        let before = node.requests().len();
        let mut batch = Batch::new(BatchType::Unlogged);
        batch.set_consistency(cons);
        batch.set_serial_consistency(serial);
        batch.set_timestamp(ts);
        let mut values: Vec<Vec<i32>> = Vec::new();
        for (j, it) in items.iter().enumerate() {
            match it {
                Item::P(s) => {
                    batch.append_statement(prepared[s].clone());
                    values.push(vec![j as i32 + 1]);
                }
                Item::Qv(s) => {
                    batch.append_statement(BatchStatement::Query(Statement::new(text_of(*s))));
                    values.push(vec![j as i32 + 1]);
                }
                Item::Qe(s) => {
                    batch.append_statement(BatchStatement::Query(Statement::new(text_of(*s))));
                    values.push(vec![]);
                }
            }
        }
        let res = conn.batch(&batch, values).await;
        let frames: Vec<mk::Request> = node.requests().into_iter().skip(before).collect();
        let first_batch = frames.iter().position(|f| matches!(f.parsed, Parsed::Batch { .. })).unwrap_or(frames.len());
        let mut prep: Vec<String> = frames[..first_batch].iter().filter_map(|f| if let Parsed::Prepare { text } = &f.parsed { Some(text.clone()) } else { None }).collect();
        let reprep: Vec<String> = frames[first_batch..].iter().filter_map(|f| if let Parsed::Prepare { text } = &f.parsed { Some(text.clone()) } else { None }).collect();
        let all_batches: Vec<&mk::Request> = frames.iter().filter(|f| matches!(f.parsed, Parsed::Batch { .. })).collect();
        // ORACLE (eviction on the rebuilt batch): every BATCH frame is the same; after UNPREPARED naming the id at
        // position j the node sees PREPARE of exactly the caller's text of statement j
        if all_batches.windows(2).any(|w| w[0].body != w[1].body) {
            ctx.fail("the BATCH frames of one batch call differ (the re-sent batch must be identical)".to_owned());
        }
        {
            let mut expect: Vec<String> = Vec::new();
            for pos in &evict {
                match items.get(*pos) {
                    Some(Item::P(s)) | Some(Item::Qv(s)) => expect.push(text_of(*s)),
                    _ => {}
                }
            }
            if !fail.is_some_and(|f| items.contains(&Item::Qv(f))) && reprep != expect {
                ctx.fail(format!("after the node evicted statements of the rebuilt batch it must see PREPARE of exactly the caller's texts {:?}, saw {:?}", expect, reprep));
            }
        }
        let batch_frames: Vec<&mk::Request> = all_batches.iter().take(1).copied().collect();
        // ---- oracle
        let mut want: Vec<String> = items.iter().filter_map(|i| if let Item::Qv(s) = i { Some(text_of(*s)) } else { None }).collect();
        want.sort();
        want.dedup();
        prep.sort();
        let failing = fail.is_some_and(|f| items.contains(&Item::Qv(f)));
        if !failing && prep != want {
            ctx.fail(format!("prepare_batch: the PREPAREs sent ({:?}) are not exactly the texts of the unprepared statements with values ({:?}), byte for byte and once each", prep, want));
        }
        if failing {
            if res.is_ok() || !batch_frames.is_empty() {
                ctx.fail("prepare_batch: a preparation was refused, yet the batch was sent / reported as done".to_owned());
            }
            return format!("prep=* | frame=- | res=err:{}", res.err().unwrap_or_default());
        }
        if batch_frames.len() != 1 {
            ctx.fail(format!("expected exactly one BATCH frame, saw {}", batch_frames.len()));
            return format!("prep={} | frame=? | res={:?}", prep.len(), res.is_ok());
        }
        if let Parsed::Batch { kind, statements, consistency, serial_consistency, timestamp, .. } = &batch_frames[0].parsed {
            if *kind != 1 || *consistency != cl || *serial_consistency != scl || *timestamp != ts {
                ctx.fail(format!("the BATCH frame does not carry the caller's type/consistency/serial consistency/timestamp: {}", show_batch(&batch_frames[0].parsed)));
            }
            if statements.len() != items.len() {
                ctx.fail(format!("the BATCH frame has {} statements, the caller's batch {}", statements.len(), items.len()));
            }
            for (j, (st, it)) in statements.iter().zip(items.iter()).enumerate() {
                let v = |n: i32| vec![Some(n.to_be_bytes().to_vec())];
                let ok = match (st, it) {
                    (BatchStmt::Prepared(id, vals), Item::P(s)) | (BatchStmt::Prepared(id, vals), Item::Qv(s)) => *id == format!("{}#0", text_of(*s)).into_bytes() && *vals == v(j as i32 + 1),
                    (BatchStmt::Query(t, vals), Item::Qe(s)) => *t == text_of(*s) && vals.is_empty(),
                    _ => false,
                };
                if !ok {
                    ctx.fail(format!("statement {} of the BATCH frame is not the caller's statement {} with its own values", j, j));
                }
            }
        }
        let prep_s = if prep.is_empty() { "-".to_owned() } else { prep.iter().map(|t| hex(t.as_bytes())).collect::<Vec<_>>().join(",") };
        let re_s = if reprep.is_empty() { "-".to_owned() } else { reprep.iter().map(|t| hex(t.as_bytes())).collect::<Vec<_>>().join(",") };
        format!("prep={} | frame={} | re={} | res={}", prep_s, show_batch(&batch_frames[0].parsed), re_s, if res.is_ok() { "ok".to_owned() } else { format!("err:{}", res.err().unwrap()) })
    })
}

// ---------------------------------------------------------------------------------------------
// cs
// ---------------------------------------------------------------------------------------------

/// the statement texts of the `cs` cases: the same SELECT / INSERT in several spellings (different ids!)
const CS_TEXTS: [&str; 5] = [
    "SELECT pk, v FROM ks.t WHERE pk = ?",
    "  SELECT pk, v FROM ks.t WHERE pk = ?\n",
    "select pk, v from ks.t where pk = ?;",
    "INSERT INTO ks.t (pk, v) VALUES (?, 1) -- ü ☃",
    "INSERT INTO ks.t (pk, v)\n  VALUES (?, 2)",
];

struct CsState {
    /// (node, text) -> answers with another id
    mismatch: Vec<[bool; 5]>,
    /// (node, text) -> refuses the PREPARE (error code 0x2200 on even nodes, 0x2000 on odd ones)
    refuse: Vec<[bool; 5]>,
    /// per node: the ids it holds (PREPARE adds; `V<node>` clears: server-side eviction)
    held: Vec<std::collections::HashSet<Vec<u8>>>,
    /// seq of every EXECUTE / BATCH frame answered UNPREPARED
    unprepared_at: Vec<u64>,
    /// (node, conn) -> the id refused last on that connection (until its re-preparation arrives)
    last_refused: HashMap<(usize, usize), Vec<u8>>,
}

fn cs_id(text: &str, variant: u8) -> Vec<u8> {
    format!("{}#{}", text, variant).into_bytes()
}

/// what the PREPAREs of one operation looked like at the nodes: per text, per node the answer given (`o<variant>` /
/// `e<code>`) and the number of PREPARE frames that node received
/// The PREPAREs of one operation at the nodes: per text, per node the number of PREPARE frames - WITHOUT the
/// re-preparations (a PREPARE that follows an UNPREPARED answer on the same connection). ORACLE for those: the PREPARE
/// carries the text the refused id stands for, and the next frame on that connection is the refused frame again.
fn show_pa(frames: &[Req], n: usize, unprepared_at: &[u64], ctx: &mut Ctx) -> (usize, BTreeMap<usize, Vec<usize>>) {
    let mut per: BTreeMap<usize, Vec<usize>> = BTreeMap::new();
    let mut refused: HashMap<(usize, usize), Req> = HashMap::new();
    let mut awaiting_resend: HashMap<(usize, usize), Req> = HashMap::new();
    let mut reprepared = 0usize;
    for f in frames {
        let key = (f.node, f.conn);
        if let Some(orig) = awaiting_resend.remove(&key)
            && (f.opcode != orig.opcode || f.body != orig.body)
        {
            ctx.fail("after UNPREPARED and the re-preparation the connection did not carry the refused frame again, byte for byte".to_owned());
        }
        match &f.parsed {
            Parsed::Prepare { text } => {
                if let Some(orig) = refused.remove(&key) {
                    reprepared += 1;
                    let id = match &orig.parsed {
                        Parsed::Execute { id, .. } => Some(id.clone()),
                        Parsed::Batch { statements, .. } => statements.iter().find_map(|s| if let BatchStmt::Prepared(id, _) = s { Some(id.clone()) } else { None }),
                        _ => None,
                    };
                    let _ = id;
                    if !CS_TEXTS.contains(&text.as_str()) {
                        ctx.fail(format!("re-preparation after UNPREPARED carries a text the caller never passed: x{}", hex(text.as_bytes())));
                    }
                    awaiting_resend.insert(key, orig);
                    continue;
                }
                match CS_TEXTS.iter().position(|x| x == text) {
                    Some(t) => per.entry(t).or_insert_with(|| vec![0; n])[f.node] += 1,
                    None => ctx.fail(format!("a PREPARE carries a text the caller never passed: x{}", hex(text.as_bytes()))),
                }
            }
            _ => {
                if unprepared_at.contains(&f.seq) {
                    refused.insert(key, f.clone());
                }
            }
        }
    }
    (reprepared, per)
}

fn run_cs(w: &[&str], ctx: &mut Ctx) -> String {
    let Some(p) = Params::parse(&w[1..]) else { return "bad-case".into() };
    let (Some(n), Some(cap), Some(u), Some(sh)) = (p.num("n"), p.num("cap"), p.num_or("u", 0), p.num_or("sh", 0)) else { return "bad-case".into() };
    let Some(ops_s) = p.str("ops") else { return "bad-case".into() };
    let ops: Vec<&str> = ops_s.split('.').filter(|o| !o.is_empty()).collect();
    if !(1..=4).contains(&n) || !(1..=8).contains(&cap) || u > 1 || ![0, 2, 3].contains(&sh) || ops.len() > 60 {
        return "bad-case".into();
    }
    let n = n as usize;
    let shape = Shape { nodes: n, dcs: 1, racks: 1, shards: sh as u16, msb: 12, vnodes: 2, strat: Strat::Simple(n), seed: 1 };
    let state = Arc::new(Mutex::new(CsState { mismatch: vec![[false; 5]; n], refuse: vec![[false; 5]; n], held: vec![Default::default(); n], unprepared_at: Vec::new(), last_refused: HashMap::new() }));
    let st_h = Arc::clone(&state);
    let handler: ClusterHandler = Box::new(move |r: &Req| {
        let mut st = st_h.lock().unwrap();
        match &r.parsed {
            Parsed::Prepare { text } => {
                let Some(t) = CS_TEXTS.iter().position(|x| x == text) else {
                    return vec![act_error(0x2000, "unknown statement text", &[])];
                };
                // a RE-preparation (after UNPREPARED on this connection) always succeeds with the refused id: the per-node
                // refuse / other-id flags script `Session::prepare`, evictions are about transparency
                let re = st.last_refused.remove(&(r.node, r.conn));
                if re.is_none() && st.refuse[r.node][t] {
                    return vec![act_error(if r.node % 2 == 0 { 0x2200 } else { 0x2000 }, "scripted", &[])];
                }
                let id = match re {
                    Some(id) if id.starts_with(text.as_bytes()) => id,
                    _ => cs_id(text, st.mismatch[r.node][t] as u8),
                };
                st.held[r.node].insert(id.clone());
                let mut body = std_prepared(text);
                // std_prepared wrote [int kind][short len][md5ish id]: replace the id by ours
                let old = u16::from_be_bytes([body[4], body[5]]) as usize;
                let mut nb = body[..4].to_vec();
                nb.extend_from_slice(&(id.len() as u16).to_be_bytes());
                nb.extend_from_slice(&id);
                nb.extend_from_slice(&body[6 + old..]);
                body = nb;
                vec![Act::Respond(mk::RESP_RESULT, body)]
            }
            Parsed::Execute { id, params, .. } => {
                if !st.held[r.node].contains(id) {
                    st.unprepared_at.push(r.seq);
                    st.last_refused.insert((r.node, r.conn), id.clone());
                    return vec![Act::Respond(mk::RESP_ERROR, mk::body_unprepared(id))];
                }
                if id.starts_with(b"INSERT") {
                    return vec![act_void()];
                }
                let pk = params.values.first().cloned().flatten().unwrap_or_default();
                vec![Act::Respond(mk::RESP_RESULT, rows_body(&row_specs(), !params.skip_metadata, None, &[vec![Some(pk), c_int(1)]]))]
            }
            Parsed::Batch { statements, .. } => {
                for s in statements {
                    if let BatchStmt::Prepared(id, _) = s
                        && !st.held[r.node].contains(id)
                    {
                        st.unprepared_at.push(r.seq);
                        st.last_refused.insert((r.node, r.conn), id.clone());
                        return vec![Act::Respond(mk::RESP_ERROR, mk::body_unprepared(id))];
                    }
                }
                vec![act_void()]
            }
            _ => vec![act_void()],
        }
    });
    let rt = runtime(if ops.iter().any(|o| o.starts_with('c')) { 2 } else { 1 });
    rt.block_on(async {
        use scylla::client::caching_session::CachingSessionBuilder;
        use scylla::response::PagingState;
        let cluster = MockCluster::start(shape.topology(), handler).await;
        let session = match connect(&cluster, |b| b).await {
            Ok(s) => s,
            Err(skip) => return skip,
        };
        // prepared handles for the `p<t>` items, obtained through the plain Session
        let mut handles = Vec::new();
        for t in CS_TEXTS {
            match session.prepare(t).await {
                Ok(h) => handles.push(h),
                Err(_) => return "e2e-skip prepare".to_owned(),
            }
        }
        let cs = Arc::new(CachingSessionBuilder::new(session).max_capacity(cap as usize).use_cached_result_metadata(u == 1).build());
        let mut out: Vec<String> = Vec::new();
        let user_frames = |c: &MockCluster| -> Vec<Req> { c.user_frames().into_iter().filter(|f| [mk::OP_PREPARE, mk::OP_EXECUTE, mk::OP_BATCH].contains(&f.opcode)).collect() };
        // the answer a node gives to PREPARE of text t right now
        let answer = |node: usize, t: usize| -> String {
            let st = state.lock().unwrap();
            if st.refuse[node][t] { format!("e{}", if node % 2 == 0 { 0x2200 } else { 0x2000 }) } else { format!("o{}", st.mismatch[node][t] as u8) }
        };
        let pa_str = |per: &BTreeMap<usize, Vec<usize>>| -> String {
            if per.is_empty() {
                return "-".to_owned();
            }
            per.iter()
                .map(|(t, counts)| format!("t{}@{}", t, counts.iter().enumerate().map(|(node, c)| format!("{}*{}", answer(node, *t), c)).collect::<Vec<_>>().join(",")))
                .collect::<Vec<_>>()
                .join("+")
        };
        let mut last_failed = false;
        for (idx, op) in ops.iter().enumerate() {
            if last_failed {
                // a failed `try_join_all` / prepare drops its other preparations while their PREPAREs may still be on the
                // way: make them arrive before the next operation's window opens
                // FENCE: a PREPARE of a text the mock refuses goes to a connection to every node, then (as it failed) to every
                // connection, and `Session::prepare` awaits all answers; connections are FIFO, so afterwards every earlier frame
                // has been recorded. The mock changes no state for an unknown text.
                let _ = cs.get_session().prepare("FENCE").await;
                last_failed = false;
            }
            let before = user_frames(&cluster).len();
            let b = op.as_bytes();
            let digit = |i: usize| -> Option<usize> { b.get(i).filter(|c| c.is_ascii_digit()).map(|c| (*c - b'0') as usize) };
            match b[0] {
                b'M' | b'N' | b'F' | b'G' => {
                    let (Some(node), Some(b't'), Some(t)) = (digit(1), b.get(2).copied(), digit(3)) else { return "bad-case".to_owned() };
                    if node >= n || t >= 5 {
                        return "bad-case".to_owned();
                    }
                    let mut st = state.lock().unwrap();
                    match b[0] {
                        b'M' | b'N' => st.mismatch[node][t] = b[0] == b'M',
                        _ => st.refuse[node][t] = b[0] == b'F',
                    }
                    out.push((*op).to_owned());
                }
                b'V' => {
                    // server-side eviction: the node forgets every prepared statement
                    let Some(node) = digit(1).filter(|x| *x < n) else { return "bad-case".to_owned() };
                    if b.len() != 2 {
                        return "bad-case".to_owned();
                    }
                    state.lock().unwrap().held[node].clear();
                    out.push((*op).to_owned());
                }
                b'c' => {
                    // concurrent callers of ONE CachingSession: one task per text, all started together
                    let texts: Option<Vec<usize>> = b[1..].iter().map(|c| if c.is_ascii_digit() && ((*c - b'0') as usize) < 5 { Some((*c - b'0') as usize) } else { None }).collect();
                    let Some(texts) = texts.filter(|x| (1..=3).contains(&x.len())) else { return "bad-case".to_owned() };
                    let barrier = Arc::new(tokio::sync::Barrier::new(texts.len()));
                    let mut tasks = Vec::new();
                    for t in &texts {
                        let cs2 = Arc::clone(&cs);
                        let bar = Arc::clone(&barrier);
                        let text = CS_TEXTS[*t];
                        tasks.push(tokio::spawn(async move {
                            bar.wait().await;
                            let q = Statement::new(text);
                            cs2.add_prepared_statement(&q).await
                        }));
                    }
                    let mut ids = Vec::new();
                    for (t, task) in texts.iter().zip(tasks) {
                        match task.await {
                            Ok(Ok(h)) => {
                                // every handle returned for a text presents an id the cluster announced for that text
                                if h.get_statement() != CS_TEXTS[*t] || !(h.get_id()[..] == cs_id(CS_TEXTS[*t], 0)[..] || h.get_id()[..] == cs_id(CS_TEXTS[*t], 1)[..]) {
                                    ctx.fail(format!("a concurrent add_prepared_statement of text {} returned a handle with id {} / another text", t, show_id(h.get_id())));
                                }
                                ids.push(show_id(h.get_id()));
                            }
                            Ok(Err(_)) => ids.push("E".to_owned()),
                            Err(_) => return "e2e-skip join".to_owned(),
                        }
                    }
                    let frames: Vec<Req> = user_frames(&cluster).into_iter().skip(before).collect();
                    let unprep = state.lock().unwrap().unprepared_at.clone();
                    let (_rp, per) = show_pa(&frames, n, &unprep, ctx);
                    for t in per.keys() {
                        if !texts.contains(t) {
                            ctx.fail(format!("concurrent adds caused a PREPARE of text {} which nobody asked for", t));
                        }
                    }
                    last_failed = ids.iter().any(|i| i == "E");
                    out.push(format!("{}~pa={}~ids={}~ok", op, pa_str(&per), ids.join(",")));
                }
                b'x' => {
                    let (Some(t), Some(b'c'), Some(k)) = (digit(1).filter(|t| *t < 5), b.get(2).copied(), digit(3).filter(|k| *k < 3)) else { return "bad-case".to_owned() };
                    let mut q = Statement::new(CS_TEXTS[t]);
                    let (cl, idem, page) = [(Consistency::One, false, 7), (Consistency::Quorum, true, 5000), (Consistency::LocalQuorum, false, 123)][k];
                    q.set_consistency(cl);
                    q.set_is_idempotent(idem);
                    q.set_page_size(page);
                    let pk = vec![idx as u8, t as u8];
                    let res = cs.execute_single_page(q, (pk.clone(),), PagingState::start()).await;
                    let frames: Vec<Req> = user_frames(&cluster).into_iter().skip(before).collect();
                    let unprep = state.lock().unwrap().unprepared_at.clone();
                    let (_reprepared, per) = show_pa(&frames, n, &unprep, ctx);
                    let mut exec = Vec::new();
                    for f in &frames {
                        match &f.parsed {
                            Parsed::Prepare { text } if text != CS_TEXTS[t] => {
                                ctx.fail(format!("execution of text {} caused a PREPARE of other bytes: x{}", t, hex(text.as_bytes())));
                            }
                            Parsed::Execute { id, params, .. } => exec.push(format!(
                                "EXEC {} v={} cl={} sk={} pg={}",
                                show_id(id),
                                vals_str(&params.values),
                                params.consistency,
                                params.skip_metadata as u8,
                                params.page_size.map(|x| x.to_string()).unwrap_or_else(|| "-".into())
                            )),
                            _ => {}
                        }
                    }
                    exec.dedup();
                    if res.is_ok() {
                        // the statement's OWN config reaches the wire whether it was a hit or a miss: consistency, page
                        // size; skip_metadata = the session's use_cached_result_metadata (for a statement with columns)
                        let sk = (u == 1 && t < 3) as u8;
                        let want = |v: u8| format!("EXEC {} v=x{} cl={} sk={} pg={}", show_id(&cs_id(CS_TEXTS[t], v)), hex(&pk), cl as u16, sk, page);
                        if exec.len() != 1 || (exec[0] != want(0) && exec[0] != want(1)) {
                            ctx.fail(format!("execute_single_page(text {}, config {}) put {:?} on the wire, expected one `{}`", t, k, exec, want(0)));
                        }
                    }
                    last_failed = res.is_err();
                    let r = match &res {
                        Ok(_) => "ok".to_owned(),
                        Err(e) => exec_err(e),
                    };
                    out.push(format!("{}~pa={}~{}~{}", op, pa_str(&per), if exec.is_empty() { "-".to_owned() } else { exec.join("&") }, r));
                }
                b'b' => {
                    let body = &op[1..];
                    if body.len() % 2 != 0 || body.is_empty() || body.len() > 12 {
                        return "bad-case".to_owned();
                    }
                    let mut batch = Batch::new(BatchType::Unlogged);
                    batch.set_consistency(Consistency::Quorum);
                    batch.set_serial_consistency(Some(SerialConsistency::LocalSerial));
                    batch.set_timestamp(Some(1000 + idx as i64));
                    batch.set_is_idempotent(idx % 2 == 0);
                    let mut values: Vec<(Vec<u8>,)> = Vec::new();
                    let mut kinds = Vec::new();
                    for (j, ch) in body.as_bytes().chunks(2).enumerate() {
                        let t = (ch[1] as char).to_digit(10).map(|d| d as usize).filter(|t| *t < 5);
                        let Some(t) = t else { return "bad-case".to_owned() };
                        match ch[0] {
                            b'q' => batch.append_statement(BatchStatement::Query(Statement::new(CS_TEXTS[t]))),
                            b'p' => batch.append_statement(handles[t].clone()),
                            _ => return "bad-case".to_owned(),
                        }
                        kinds.push((ch[0], t));
                        values.push((vec![idx as u8, j as u8],));
                    }
                    let res = cs.batch(&batch, values).await;
                    let frames: Vec<Req> = user_frames(&cluster).into_iter().skip(before).collect();
                    let unprep = state.lock().unwrap().unprepared_at.clone();
                    let (_reprepared, per) = show_pa(&frames, n, &unprep, ctx);
                    for t in per.keys() {
                        if !kinds.contains(&(b'q', *t)) {
                            ctx.fail(format!("the batch caused a PREPARE of text {} which is not an unprepared statement of it", t));
                        }
                    }
                    let mut bframes: Vec<Parsed> = frames.iter().filter(|f| matches!(f.parsed, Parsed::Batch { .. })).map(|f| f.parsed.clone()).collect();
                    bframes.dedup();
                    if res.is_ok() {
                        // the batch handed to the session: the caller's batch with every unprepared statement replaced by
                        // the statement prepared from exactly its text - same order, same values, same config
                        let ok = bframes.len() == 1
                            && matches!(&bframes[0], Parsed::Batch { kind, statements, consistency, serial_consistency, timestamp, .. }
                                if *kind == 1 && *consistency == 4 && *serial_consistency == Some(9) && *timestamp == Some(1000 + idx as i64)
                                    && statements.len() == kinds.len()
                                    && statements.iter().zip(kinds.iter()).enumerate().all(|(j, (s, (_, t)))| matches!(s, BatchStmt::Prepared(id, v)
                                        if (*id == cs_id(CS_TEXTS[*t], 0) || *id == cs_id(CS_TEXTS[*t], 1)) && *v == vec![Some(vec![idx as u8, j as u8])])));
                        if !ok {
                            ctx.fail(format!("CachingSession::batch({}) put {:?} on the wire: not the caller's batch with the unprepared statements replaced (same order, values, consistency, serial consistency, timestamp, type)", op, bframes.iter().map(show_batch).collect::<Vec<_>>()));
                        }
                    }
                    last_failed = res.is_err();
                    let r = match &res {
                        Ok(_) => "ok".to_owned(),
                        Err(e) => exec_err(e),
                    };
                    out.push(format!("{}~pa={}~{}~{}", op, pa_str(&per), if bframes.is_empty() { "-".to_owned() } else { bframes.iter().map(show_batch).collect::<Vec<_>>().join("&") }, r));
                }
                b's' => {
                    // Session::prepare_batch: every unprepared statement prepared on all nodes ON ITS OWN and replaced in place
                    let body = &op[1..];
                    if body.len() % 2 != 0 || body.is_empty() || body.len() > 12 {
                        return "bad-case".to_owned();
                    }
                    let mut batch = Batch::new(BatchType::Unlogged);
                    batch.set_consistency(Consistency::Quorum);
                    batch.set_timestamp(Some(2000 + idx as i64));
                    // (kind, text, page size given at this position, consistency given at this position)
                    let mut kinds: Vec<(u8, usize, i32, Option<Consistency>)> = Vec::new();
                    for (j, ch) in body.as_bytes().chunks(2).enumerate() {
                        let t = (ch[1] as char).to_digit(10).map(|d| d as usize).filter(|t| *t < 5);
                        let Some(t) = t else { return "bad-case".to_owned() };
                        match ch[0] {
                            b'q' => {
                                let mut q = Statement::new(CS_TEXTS[t]);
                                let cl = [Consistency::One, Consistency::Quorum, Consistency::LocalQuorum][j % 3];
                                q.set_page_size(100 + j as i32);
                                q.set_consistency(cl);
                                batch.append_statement(BatchStatement::Query(q));
                                kinds.push((b'q', t, 100 + j as i32, Some(cl)));
                            }
                            b'p' => {
                                batch.append_statement(handles[t].clone());
                                kinds.push((b'p', t, handles[t].get_page_size(), handles[t].get_consistency()));
                            }
                            _ => return "bad-case".to_owned(),
                        }
                    }
                    let res = cs.get_session().prepare_batch(&batch).await;
                    let frames: Vec<Req> = user_frames(&cluster).into_iter().skip(before).collect();
                    let unprep = state.lock().unwrap().unprepared_at.clone();
                    let (_rp, per) = show_pa(&frames, n, &unprep, ctx);
                    for t in per.keys() {
                        if !kinds.iter().any(|k| k.0 == b'q' && k.1 == *t) {
                            ctx.fail(format!("prepare_batch caused a PREPARE of text {} which is not an unprepared statement of the batch", t));
                        }
                    }
                    if frames.iter().any(|f| !matches!(f.parsed, Parsed::Prepare { .. })) {
                        ctx.fail("prepare_batch sent something else than PREPARE".to_owned());
                    }
                    last_failed = res.is_err();
                    let (st, r) = match &res {
                        Ok(pb) => {
                            // every node was asked about every unprepared statement's text
                            for k in kinds.iter().filter(|k| k.0 == b'q') {
                                if per.get(&k.1).map(|c| c.iter().any(|x| *x == 0)).unwrap_or(true) {
                                    ctx.fail(format!("prepare_batch succeeded although some node was never asked to prepare text {}", k.1));
                                }
                            }
                            if pb.statements.len() != kinds.len() || pb.get_type() != BatchType::Unlogged || pb.get_consistency() != Some(Consistency::Quorum) || pb.get_timestamp() != Some(2000 + idx as i64) {
                                ctx.fail("prepare_batch changed the number of statements / type / consistency / timestamp of the batch".to_owned());
                            }
                            let mut shown = Vec::new();
                            for (j, (s, k)) in pb.statements.iter().zip(kinds.iter()).enumerate() {
                                match s {
                                    BatchStatement::PreparedStatement(ps) => {
                                        // position j holds the statement prepared from the text GIVEN AT POSITION j, with that
                                        // position's page size and consistency (a prepared statement: the same handle)
                                        let id_ok = if k.0 == b'p' { ps.get_id() == handles[k.1].get_id() } else { ps.get_id()[..] == cs_id(CS_TEXTS[k.1], 0)[..] || ps.get_id()[..] == cs_id(CS_TEXTS[k.1], 1)[..] };
                                        if ps.get_statement() != CS_TEXTS[k.1] || !id_ok || ps.get_page_size() != k.2 || ps.get_consistency() != k.3 {
                                            ctx.fail(format!("prepare_batch: position {} (text {}, page size {}) now holds text x{} id {} page size {}", j, k.1, k.2, hex(ps.get_statement().as_bytes()), show_id(ps.get_id()), ps.get_page_size()));
                                        }
                                        shown.push(format!("{}/{}/{}", show_id(ps.get_id()), ps.get_page_size(), ps.get_consistency().map(|c| (c as u16).to_string()).unwrap_or_else(|| "-".into())));
                                    }
                                    _ => {
                                        ctx.fail(format!("prepare_batch succeeded but position {} is still unprepared", j));
                                        shown.push("unprepared".to_owned());
                                    }
                                }
                            }
                            (shown.join(","), "ok".to_owned())
                        }
                        Err(e) => ("-".to_owned(), prep_err(e)),
                    };
                    out.push(format!("{}~pa={}~st={}~{}", op, pa_str(&per), st, r));
                }
                _ => return "bad-case".to_owned(),
            }
        }
        out.join(" ; ")
    })
}

fn prep_err(e: &scylla::errors::PrepareError) -> String {
    use scylla::errors::PrepareError;
    match e {
        PrepareError::PreparedStatementIdsMismatch => "err:prep:mismatch".to_owned(),
        PrepareError::AllAttemptsFailed { first_attempt } => match first_attempt {
            scylla::errors::RequestAttemptError::DbError(d, _) => format!("err:prep:allfailed:{}", d.code(&scylla::frame::protocol_features::ProtocolFeatures::default())),
            _ => "err:prep:allfailed:?".to_owned(),
        },
        _ => "err:prep:other".to_owned(),
    }
}

fn exec_err(e: &scylla::errors::ExecutionError) -> String {
    use scylla::errors::{ExecutionError, PrepareError};
    match e {
        ExecutionError::PrepareError(PrepareError::PreparedStatementIdsMismatch) => "err:prep:mismatch".to_owned(),
        ExecutionError::PrepareError(PrepareError::AllAttemptsFailed { first_attempt }) => match first_attempt {
            scylla::errors::RequestAttemptError::DbError(d, _) => format!("err:prep:allfailed:{}", d.code(&scylla::frame::protocol_features::ProtocolFeatures::default())),
            _ => "err:prep:allfailed:?".to_owned(),
        },
        ExecutionError::PrepareError(_) => "err:prep:other".to_owned(),
        other => format!("err:{}", err_kind(other)),
    }
}

// ---------------------------------------------------------------------------------------------------------------
// cm: CachingSession handles and the shared result metadata, on connections WITH the metadata-id extension
// ---------------------------------------------------------------------------------------------------------------

/// result columns of a SELECT under schema version `ver`: odd versions have one more column
fn cm_specs(ver: usize) -> Specs {
    if ver % 2 == 0 {
        Specs::new("ks", "t", &[("pk", CqlT::Native(T_BLOB)), ("v", CqlT::Native(T_INT))])
    } else {
        Specs::new("ks", "t", &[("pk", CqlT::Native(T_BLOB)), ("w", CqlT::Native(T_TEXT)), ("v", CqlT::Native(T_INT))])
    }
}

fn cm_mid(t: usize, ver: usize) -> Vec<u8> {
    format!("m{}v{}", t, ver).into_bytes()
}

/// `cm n=<n> cap=<cap> ops=<op>.<op>…` (texts 0-2): `g<t>` add_prepared_statement, handle kept in the next slot;
/// `c<t><t>…` concurrent callers, handles kept in the next slots (caller order); `A<t>` schema change of text t on every
/// node; `h<j>` execute through the handle in slot j; `x<t>` CachingSession::execute_unpaged(text t).
fn run_cm(w: &[&str], ctx: &mut Ctx) -> String {
    let Some(p) = Params::parse(&w[1..]) else { return "bad-case".into() };
    let (Some(n), Some(cap)) = (p.num("n"), p.num("cap")) else { return "bad-case".into() };
    let Some(ops_s) = p.str("ops") else { return "bad-case".into() };
    let ops: Vec<&str> = ops_s.split('.').filter(|o| !o.is_empty()).collect();
    if !(1..=3).contains(&n) || !(1..=4).contains(&cap) || ops.len() > 40 {
        return "bad-case".into();
    }
    // validate (slots are made by g / c in order; h<j> must name an existing one)
    {
        let d3 = |c: u8| c.is_ascii_digit() && c - b'0' < 3;
        let mut slots = 0usize;
        for op in &ops {
            let b = op.as_bytes();
            let ok = match b[0] {
                b'A' | b'x' => b.len() == 2 && d3(b[1]),
                // V<node>: the node forgets its prepared statements; F<node> / G<node>: the node refuses / accepts PREPAREs
                // (never node 0, so that a preparation always succeeds somewhere)
                b'V' => b.len() == 2 && b[1].is_ascii_digit() && ((b[1] - b'0') as i64) < n as i64,
                b'F' | b'G' => b.len() == 2 && b[1].is_ascii_digit() && b[1] > b'0' && ((b[1] - b'0') as i64) < n as i64,
                b'g' => {
                    slots += 1;
                    b.len() == 2 && d3(b[1])
                }
                b'c' => {
                    slots += b.len() - 1;
                    (2..=4).contains(&b.len()) && b[1..].iter().all(|c| d3(*c))
                }
                b'h' => (2..=3).contains(&b.len()) && b[1..].iter().all(|c| c.is_ascii_digit()) && op[1..].parse::<usize>().map(|j| j < slots).unwrap_or(false),
                _ => false,
            };
            if !ok {
                return "bad-case".into();
            }
        }
    }
    let n = n as usize;
    let shape = Shape { nodes: n, dcs: 1, racks: 1, shards: 0, msb: 12, vnodes: 2, strat: Strat::Simple(n), seed: 1 };
    let reg = MetaRegistry::new();
    let vers = Arc::new(Mutex::new([0usize; 3]));
    for t in 0..3 {
        reg.set(&cs_id(CS_TEXTS[t], 0), &cm_mid(t, 0), cm_specs(0));
    }
    let reg_h = reg.clone();
    let vers_h = Arc::clone(&vers);
    // what the node encoded for a request: pk as given, v = the version, w = "w<version>"
    // per node: the texts it holds prepared, and whether it refuses PREPAREs
    let nodes = Arc::new(Mutex::new((vec![std::collections::HashSet::<usize>::new(); n], vec![false; n])));
    let nodes_h = Arc::clone(&nodes);
    let handler: ClusterHandler = Box::new(move |r: &Req| match &r.parsed {
        Parsed::Prepare { text } => {
            let bind = Specs::new("ks", "t", &[("pk", CqlT::Native(T_BLOB))]);
            let Some(t) = (0..3).find(|t| CS_TEXTS[*t] == text) else { return vec![act_error(0x2000, "unknown statement text", &[])] };
            let mut ns = nodes_h.lock().unwrap();
            if ns.1[r.node] {
                return vec![act_error(0x2200, "scripted refusal", &[])];
            }
            ns.0[r.node].insert(t);
            vec![reg_h.answer_prepare(r, &cs_id(text, 0), &bind, &[0]).unwrap_or_else(|| act_error(0x2000, "unknown statement text", &[]))]
        }
        Parsed::Execute { id, params, .. } => {
            let pk = params.values.first().cloned().flatten();
            let t = (0..3).find(|t| cs_id(CS_TEXTS[*t], 0) == *id);
            if !t.map(|t| nodes_h.lock().unwrap().0[r.node].contains(&t)).unwrap_or(false) {
                return vec![Act::Respond(mk::RESP_ERROR, mk::body_unprepared(id))];
            }
            let ver = t.map(|t| vers_h.lock().unwrap()[t]).unwrap_or(0);
            vec![reg_h
                .answer_execute(r, None, |specs| {
                    vec![specs.cols.iter().map(|(name, _)| match name.as_str() {
                        "pk" => pk.clone(),
                        "v" => c_int(ver as i32),
                        _ => c_text(&format!("w{}", ver)),
                    }).collect()]
                })
                .unwrap_or_else(|| act_error(0x2500, "unprepared", &[]))]
        }
        _ => vec![act_void()],
    });
    let rt = runtime(if ops.iter().any(|o| o.starts_with('c')) { 2 } else { 1 });
    rt.block_on(async {
        use scylla::client::caching_session::CachingSessionBuilder;
        use scylla::value::{CqlValue, Row};
        let cluster = MockCluster::start(shape.topology(), handler).await;
        cluster.enable_metadata_id_ext();
        let session = match connect(&cluster, |b| b).await {
            Ok(s) => s,
            Err(skip) => return skip,
        };
        let cs = Arc::new(CachingSessionBuilder::new(session).max_capacity(cap as usize).build());
        let user_frames = |c: &MockCluster| -> Vec<Req> { c.user_frames().into_iter().filter(|f| [mk::OP_PREPARE, mk::OP_EXECUTE, mk::OP_BATCH].contains(&f.opcode)).collect() };
        let mut out: Vec<String> = Vec::new();
        // the handles the caller holds: (text, handle, last version presented through it, version it was last told itself)
        let mut slots: Vec<(usize, scylla::statement::prepared::PreparedStatement, Option<usize>, Option<usize>)> = Vec::new();
        // preparations per text in a window of frames: one PREPARE per node each
        let preps = |frames: &[Req], allowed: &[usize], ctx: &mut Ctx| -> String {
            let mut per = [0usize; 3];
            for f in frames {
                if let Parsed::Prepare { text } = &f.parsed {
                    match (0..3).find(|t| CS_TEXTS[*t] == text) {
                        Some(t) if allowed.contains(&t) => per[t] += 1,
                        _ => ctx.fail(format!("a PREPARE of bytes nobody asked for: x{}", hex(text.as_bytes()))),
                    }
                }
            }
            for c in per {
                if c % n != 0 {
                    ctx.fail(format!("{} PREPARE frames of one text on {} nodes: not one per node and preparation", c, n));
                }
            }
            per.iter().map(|c| (c / n).to_string()).collect::<Vec<_>>().join(".")
        };
        for (idx, op) in ops.iter().enumerate() {
            let before = user_frames(&cluster).len();
            let b = op.as_bytes();
            match b[0] {
                b'A' => {
                    let t = (b[1] - b'0') as usize;
                    let ver = {
                        let mut v = vers.lock().unwrap();
                        v[t] += 1;
                        v[t]
                    };
                    reg.set(&cs_id(CS_TEXTS[t], 0), &cm_mid(t, ver), cm_specs(ver));
                    out.push((*op).to_owned());
                }
                b'V' => {
                    nodes.lock().unwrap().0[(b[1] - b'0') as usize].clear();
                    out.push((*op).to_owned());
                }
                b'F' | b'G' => {
                    nodes.lock().unwrap().1[(b[1] - b'0') as usize] = b[0] == b'F';
                    out.push((*op).to_owned());
                }
                b'g' | b'c' => {
                    let texts: Vec<usize> = b[1..].iter().map(|c| (*c - b'0') as usize).collect();
                    let barrier = Arc::new(tokio::sync::Barrier::new(texts.len()));
                    let mut tasks = Vec::new();
                    for t in &texts {
                        let cs2 = Arc::clone(&cs);
                        let bar = Arc::clone(&barrier);
                        let text = CS_TEXTS[*t];
                        tasks.push(tokio::spawn(async move {
                            bar.wait().await;
                            cs2.add_prepared_statement(&Statement::new(text)).await
                        }));
                    }
                    for (t, task) in texts.iter().zip(tasks) {
                        match task.await {
                            Ok(Ok(h)) => {
                                if h.get_statement() != CS_TEXTS[*t] || h.get_id()[..] != cs_id(CS_TEXTS[*t], 0)[..] {
                                    ctx.fail(format!("add_prepared_statement of text {} returned a handle with id {} / another text", t, show_id(h.get_id())));
                                }
                                slots.push((*t, h, None, None));
                            }
                            Ok(Err(e)) => {
                                ctx.fail(format!("add_prepared_statement of text {} failed on a healthy cluster: {}", t, e));
                                return "e2e-skip add failed".to_owned();
                            }
                            Err(_) => return "e2e-skip join".to_owned(),
                        }
                    }
                    let frames: Vec<Req> = user_frames(&cluster).into_iter().skip(before).collect();
                    out.push(format!("{}~p={}", op, preps(&frames, &texts, ctx)));
                }
                b'h' | b'x' => {
                    let pk = vec![idx as u8, b[1]];
                    let (t, res, slot) = if b[0] == b'h' {
                        let j: usize = op[1..].parse().unwrap();
                        let t = slots[j].0;
                        (t, cs.get_session().execute_unpaged(&slots[j].1, (pk.clone(),)).await, Some(j))
                    } else {
                        let t = (b[1] - b'0') as usize;
                        (t, cs.execute_unpaged(CS_TEXTS[t], (pk.clone(),)).await, None)
                    };
                    let cur = vers.lock().unwrap()[t];
                    let frames: Vec<Req> = user_frames(&cluster).into_iter().skip(before).collect();
                    let execs: Vec<&Req> = frames.iter().filter(|f| matches!(f.parsed, Parsed::Execute { .. })).collect();
                    // PREPAREs before the first EXECUTE belong to the miss of `x`; one after it is a re-preparation
                    let first_exec_seq = execs.first().map(|f| f.seq).unwrap_or(u64::MAX);
                    let before_exec: Vec<Req> = frames.iter().filter(|f| f.seq < first_exec_seq).cloned().collect();
                    let re_preps: Vec<&Req> = frames.iter().filter(|f| f.seq > first_exec_seq && matches!(f.parsed, Parsed::Prepare { .. })).collect();
                    let refusing_now = nodes.lock().unwrap().1.clone();
                    let shape_ok = match (execs.len(), re_preps.len()) {
                        (1, 0) => true,
                        // UNPREPARED: PREPARE of the handle's text on the same connection; then, unless the node refused, the EXECUTE again
                        (k, 1) if k == 1 || k == 2 => {
                            let same_conn = execs.iter().all(|e| (e.node, e.conn) == (execs[0].node, execs[0].conn)) && (re_preps[0].node, re_preps[0].conn) == (execs[0].node, execs[0].conn);
                            let text_ok = matches!(&re_preps[0].parsed, Parsed::Prepare { text } if text == CS_TEXTS[t]);
                            same_conn && text_ok && (k == 2) == !refusing_now[execs[0].node]
                        }
                        _ => false,
                    };
                    if !shape_ok {
                        ctx.fail(format!("one execution put {} EXECUTE and {} later PREPARE frames on the wire (not: one EXECUTE; or EXECUTE, PREPARE of the handle's text on that connection, EXECUTE again)", execs.len(), re_preps.len()));
                        out.push(format!("{}~frames={}+{}", op, execs.len(), re_preps.len()));
                        continue;
                    }
                    let unprepared_on: Option<usize> = if re_preps.is_empty() { None } else { Some(execs[0].node) };
                    let mid_of = |f: &Req| -> Option<usize> {
                        let Parsed::Execute { result_metadata_id, .. } = &f.parsed else { return None };
                        result_metadata_id.as_ref().and_then(|m| String::from_utf8_lossy(m).into_owned().strip_prefix(&format!("m{}v", t)).and_then(|v| v.parse::<usize>().ok()))
                    };
                    if unprepared_on.is_some() && execs.len() == 1 {
                        // the re-preparation was refused: the caller gets the error, nothing else happens
                        if res.is_ok() {
                            ctx.fail("the node refused the re-preparation, yet the execution succeeded".to_owned());
                        }
                        let first = mid_of(execs[0]).map(|v| v.to_string()).unwrap_or_else(|| "?".into());
                        let p = if b[0] == b'x' { format!("~p={}", preps(&before_exec, &[t], ctx)) } else { String::new() };
                        out.push(format!("{}{}~mid={}~u={}~err", op, p, first, execs[0].node));
                        continue;
                    }
                    let first_presented = mid_of(execs[0]);
                    if let Some(node) = unprepared_on {
                        // the re-sent EXECUTE is the first one again, except that it presents the metadata id the re-PREPARE's
                        // PREPARED announced (the current one)
                        let (Parsed::Execute { id: i1, params: p1, .. }, Parsed::Execute { id: i2, params: p2, .. }) = (&execs[0].parsed, &execs[1].parsed) else { unreachable!() };
                        if i1 != i2 || p1.values != p2.values || p1.consistency != p2.consistency || p1.page_size != p2.page_size {
                            ctx.fail(format!("after UNPREPARED on node {} the EXECUTE was not sent again with the same id / values / consistency / page size", node));
                        }
                        if mid_of(execs[1]) != Some(cur) {
                            ctx.fail(format!("the re-PREPARE announced metadata version {}, the re-sent EXECUTE presents {:?}", cur, mid_of(execs[1])));
                        }
                    }
                    let execs: Vec<&Req> = vec![*execs.last().unwrap()];
                    let frames_for_p = before_exec;
                    let Parsed::Execute { id, result_metadata_id, params } = &execs[0].parsed else { unreachable!() };
                    if id[..] != cs_id(CS_TEXTS[t], 0)[..] {
                        ctx.fail(format!("execution of text {} carries the statement id {}", t, show_id(id)));
                    }
                    // the protocol extension: the id of the metadata the statement object holds is presented, metadata skipped
                    let presented = result_metadata_id.as_ref().and_then(|m| {
                        let s = String::from_utf8_lossy(m).into_owned();
                        s.strip_prefix(&format!("m{}v", t)).and_then(|v| v.parse::<usize>().ok())
                    });
                    let Some(presented) = presented else {
                        ctx.fail(format!("EXECUTE on a connection with the extension presents the metadata id {:?}, which no node announced for this statement", result_metadata_id));
                        out.push(format!("{}~mid=?", op));
                        continue;
                    };
                    if !execs[0].metadata_ext || !params.skip_metadata {
                        ctx.fail("EXECUTE of a statement with result columns on an extension connection must skip metadata".to_owned());
                    }
                    if presented > cur {
                        ctx.fail(format!("the metadata version {} presented was never announced yet (current {})", presented, cur));
                    }
                    if let Some(j) = slot {
                        // through one handle the presented version never goes backwards, and once the handle itself was told
                        // the current version it presents it
                        if let Some(last) = slots[j].2 && presented < last {
                            ctx.fail(format!("handle {} presented version {} after having presented {}", j, presented, last));
                        }
                        if slots[j].3 == Some(cur) && presented != cur {
                            ctx.fail(format!("handle {} was told version {} by its own last execution, yet presents {}", j, cur, presented));
                        }
                        slots[j].2 = Some(presented);
                        slots[j].3 = Some(cur);
                    }
                    // faithful decoding: the caller sees exactly what the node encoded under its CURRENT columns
                    let mut want: Vec<Option<CqlValue>> = vec![Some(CqlValue::Blob(pk.clone()))];
                    if cur % 2 == 1 {
                        want.push(Some(CqlValue::Text(format!("w{}", cur))));
                    }
                    want.push(Some(CqlValue::Int(cur as i32)));
                    match res.map_err(|e| e.to_string()).and_then(|r| r.into_rows_result().map_err(|e| e.to_string())) {
                        Ok(rr) => match rr.rows::<Row>().map_err(|e| e.to_string()).and_then(|it| it.collect::<Result<Vec<Row>, _>>().map_err(|e| e.to_string())) {
                            Ok(rows) => {
                                if rows.len() != 1 || rows[0].columns != want {
                                    ctx.fail(format!("the node encoded {:?} under its current columns (version {}), the caller decoded {:?}", want, cur, rows.iter().map(|r| &r.columns).collect::<Vec<_>>()));
                                }
                            }
                            Err(e) => ctx.fail(format!("rows the node encoded under its current columns (version {}) do not decode: {}", cur, e)),
                        },
                        Err(e) => ctx.fail(format!("execution on a healthy cluster failed: {}", e)),
                    }
                    let chg = (presented != cur) as u8;
                    let u = match unprepared_on {
                        Some(node) => format!("~u={}~re={}", node, presented),
                        None => "~u=-".to_owned(),
                    };
                    let first = first_presented.map(|v| v.to_string()).unwrap_or_else(|| "?".into());
                    if b[0] == b'h' {
                        out.push(format!("{}~mid={}{}~chg={}", op, first, u, chg));
                    } else {
                        out.push(format!("{}~p={}~mid={}{}~chg={}", op, preps(&frames_for_p, &[t], ctx), first, u, chg));
                    }
                }
                _ => return "bad-case".to_owned(),
            }
        }
        out.join(" ; ")
    })
}

pub fn run(case: &str, ctx: &mut Ctx) -> String {
    let w: Vec<&str> = case.split(' ').collect();
    match w[0] {
        "pb" => run_pb(&w, ctx),
        "cs" => run_cs(&w, ctx),
        "cm" => run_cm(&w, ctx),
        _ => "bad-case".to_owned(),
    }
}

pub fn generate(rng: &mut Rng, tier: Tier, emit: &mut dyn FnMut(String)) {
    let quick = tier == Tier::Quick;
    // pb: every batch of up to 3 statements over {P, Qv, Qe} x 2 statement numbers, then random longer ones
    let atoms: Vec<String> = ["P0", "P2", "Q0v", "Q2v", "Q1e", "Q4v", "Q3e"].iter().map(|s| (*s).to_owned()).collect();
    for len in 1..=3usize {
        let total = atoms.len().pow(len as u32);
        for code in 0..total {
            let mut c = code;
            let items: Vec<&str> = (0..len).map(|_| { let a = atoms[c % atoms.len()].as_str(); c /= atoms.len(); a }).collect();
            let cfg = ["6.-.-", "1.8.77", "4.9.-"][code % 3];
            emit(format!("pb {} - {}", cfg, items.join(",")));
            if code % 5 == 0 {
                emit(format!("pb {} {} {}", cfg, 2 * (code % 3), items.join(",")));
            }
        }
    }
    for _ in 0..if quick { 300 } else { 3000 } {
        let len = 1 + rng.below(8) as usize;
        let items: Vec<String> = (0..len)
            .map(|_| {
                let s = rng.below(4);
                match rng.below(3) {
                    0 => format!("P{}", 2 * s),
                    1 => format!("Q{}v", 2 * s),
                    _ => format!("Q{}e", 2 * s + 1),
                }
            })
            .collect();
        let fail = if rng.chance(1, 5) { rng.below(8).to_string() } else { "-".to_owned() };
        let cfg = format!("{}.{}.{}", rng.pick(&[1, 4, 6]), rng.pick(&["-", "8", "9"]), if rng.bool() { rng.below(1000).to_string() } else { "-".to_owned() });
        emit(format!("pb {} {} {}", cfg, fail, items.join(",")));
    }
    // pb with server-side eviction of statements of the REBUILT batch (connection.rs:1212-1245 on it)
    for _ in 0..if quick { 300 } else { 3000 } {
        let len = 1 + rng.below(6) as usize;
        let items: Vec<String> = (0..len)
            .map(|_| {
                let s = rng.below(4);
                match rng.below(4) {
                    0 => format!("P{}", 2 * s),
                    1 | 2 => format!("Q{}v", 2 * s),
                    _ => format!("Q{}e", 2 * s + 1),
                }
            })
            .collect();
        let k = 1 + rng.below(3) as usize;
        let ev: Vec<String> = (0..k).map(|_| rng.below(len as u64).to_string()).collect();
        let cfg = format!("{}.{}.{}", rng.pick(&[1, 4, 6]), rng.pick(&["-", "8", "9"]), if rng.bool() { rng.below(1000).to_string() } else { "-".to_owned() });
        emit(format!("pb {} - {} {}", cfg, items.join(","), ev.join(".")));
    }
    // cs: CachingSession / Session::prepare against the mock cluster
    for i in 0..if quick { 80 } else { 600 } {
        let n = 1 + rng.below(3) as usize;
        let cap = 1 + rng.below(3);
        let sh = if i % 4 == 3 { *rng.pick(&[2u64, 3]) } else { 0 };
        let len = 4 + rng.below(10);
        let mut ops = Vec::new();
        for _ in 0..len {
            ops.push(match rng.below(17) {
                14 => format!("V{}", rng.below(n as u64)),
                15 | 16 => {
                    let k = 2 + rng.below(2);
                    let texts: String = (0..k).map(|_| rng.below(5).to_string()).collect();
                    format!("c{}", texts)
                }
                0..=4 => format!("x{}c{}", rng.below(5), rng.below(3)),
                5..=8 => {
                    let k = 1 + rng.below(4);
                    let items: String = (0..k).map(|_| format!("{}{}", if rng.chance(2, 3) { 'q' } else { 'p' }, rng.below(5))).collect();
                    format!("b{}", items)
                }
                9 => format!("M{}t{}", rng.below(n as u64), rng.below(5)),
                10 => format!("N{}t{}", rng.below(n as u64), rng.below(5)),
                11 | 12 => format!("F{}t{}", rng.below(n as u64), rng.below(5)),
                _ => format!("G{}t{}", rng.below(n as u64), rng.below(5)),
            });
        }
        emit(format!("cs n={} cap={} u={} sh={} ops={}", n, cap, rng.below(2), sh, ops.join(".")));
    }
    // the eviction victim pinned: capacity 1 (forced) and 2 (three texts added, then every probe order)
    emit("cs n=1 cap=1 u=0 sh=0 ops=x0c0.x1c0.x0c0.x1c0.x1c0.x2c1.x1c0.x2c0".to_owned());
    for (a, b, c) in [(0, 1, 2), (0, 2, 1), (1, 0, 2), (1, 2, 0), (2, 0, 1), (2, 1, 0)] {
        for cap in [2, 3] {
            emit(format!("cs n=2 cap={} u=1 sh=0 ops=x0c0.x1c0.x2c0.x3c0.x{}c1.x{}c1.x{}c1.x3c2", cap, a, b, c));
            emit(format!("cs n=1 cap={} u=0 sh=0 ops=bq0q1.x2c0.x{}c1.x{}c1.bq{}q3.x3c0.x{}c0", cap, a, b, c, a));
        }
    }
    // capacity pinned from both sides: cap+1 texts added one after another, then probed forward and backward
    for cap in 1..=3usize {
        let adds: Vec<String> = (0..=cap).map(|t| format!("x{}c0", t)).collect();
        let fwd: Vec<String> = (0..=cap).map(|t| format!("x{}c1", t)).collect();
        let bwd: Vec<String> = (0..=cap).rev().map(|t| format!("x{}c2", t)).collect();
        emit(format!("cs n=1 cap={} u=0 sh=0 ops={}.{}", cap, adds.join("."), fwd.join(".")));
        emit(format!("cs n=2 cap={} u=1 sh=0 ops={}.{}", cap, adds.join("."), bwd.join(".")));
        emit(format!("cs n=1 cap={} u=1 sh=0 ops={}.{}.{}", cap, adds.join("."), bwd.join("."), fwd.join(".")));
    }
    // concurrent callers of one CachingSession, then probes that pin what the cache holds
    for texts in ["00", "01", "000", "012", "001"] {
        for cap in [1, 2] {
            emit(format!("cs n=2 cap={} u=0 sh=0 ops=c{}.x0c0.x1c0.x2c0.x0c1", cap, texts));
            emit(format!("cs n=1 cap={} u=1 sh=0 ops=x0c0.c{}.x1c0.x0c0.c{}.x2c0", cap, texts, texts));
        }
    }
    // server-side eviction at the Session level: the node forgets, the next execution / batch is re-prepared transparently
    emit("cs n=1 cap=2 u=0 sh=0 ops=x0c0.V0.x0c0.bq0p1.V0.bq0p1.x0c1".to_owned());
    emit("cs n=2 cap=2 u=1 sh=0 ops=x0c0.x3c0.V0.V1.x0c0.x3c0.bq0q3p1.V0.V1.bq0q3p1".to_owned());
    // prepare-on-all, directed: for every node subset refusing / answering another id (3 nodes), one preparation
    for mask in 0..27u32 {
        // per node: 0 = fine, 1 = refuses, 2 = other id
        let mut ops: Vec<String> = Vec::new();
        let mut m = mask;
        for node in 0..3 {
            match m % 3 {
                1 => ops.push(format!("F{}t0", node)),
                2 => ops.push(format!("M{}t0", node)),
                _ => {}
            }
            m /= 3;
        }
        ops.push("x0c1".to_owned());
        ops.push("x0c0".to_owned());
        ops.push("bq0q1".to_owned());
        emit(format!("cs n=3 cap=2 u=1 sh={} ops={}", if mask % 2 == 0 { 0 } else { 2 }, ops.join(".")));
    }
    // Session::prepare_batch (`s` op): for every node subset refusing / answering another id (3 nodes) a batch with a
    // repeated text, a prepared statement and another text; then random flag / batch sequences
    for mask in 0..27u32 {
        let mut ops: Vec<String> = Vec::new();
        let mut m = mask;
        for node in 0..3 {
            match m % 3 {
                1 => ops.push(format!("F{}t0", node)),
                2 => ops.push(format!("M{}t0", node)),
                _ => {}
            }
            m /= 3;
        }
        ops.push("sq0q1q0p3".to_owned());
        ops.push("sq1q2".to_owned());
        emit(format!("cs n=3 cap=2 u=0 sh={} ops={}", if mask % 2 == 0 { 0 } else { 2 }, ops.join(".")));
    }
    for i in 0..if quick { 30 } else { 300 } {
        let n = 1 + rng.below(3) as usize;
        let len = 3 + rng.below(8);
        let mut ops: Vec<String> = Vec::new();
        for _ in 0..len {
            ops.push(match rng.below(10) {
                0..=4 => {
                    let k = 1 + rng.below(4);
                    format!("s{}", (0..k).map(|_| format!("{}{}", if rng.chance(3, 4) { 'q' } else { 'p' }, rng.below(5))).collect::<String>())
                }
                5 => format!("M{}t{}", rng.below(n as u64), rng.below(5)),
                6 => format!("N{}t{}", rng.below(n as u64), rng.below(5)),
                7 => format!("F{}t{}", rng.below(n as u64), rng.below(5)),
                8 => format!("G{}t{}", rng.below(n as u64), rng.below(5)),
                _ => format!("x{}c{}", rng.below(5), rng.below(3)),
            });
        }
        emit(format!("cs n={} cap=2 u={} sh={} ops={}", n, rng.below(2), if i % 4 == 3 { *rng.pick(&[2u64, 3]) } else { 0 }, ops.join(".")));
    }
    // cm: CachingSession handles and the shared result metadata (metadata-id extension). Directed: hits share the
    // statement object, concurrent misses need not, an evicted object lives on in its handles; then random histories
    for cap in [1, 2, 3] {
        emit(format!("cm n=1 cap={} ops=g0.g0.A0.h0.h1.x0.A0.h1.h0.x0", cap));
        emit(format!("cm n=2 cap={} ops=c00.A0.h0.h1.x0.h0.h1", cap));
        emit(format!("cm n=2 cap={} ops=c000.A0.h2.h1.h0.x0.g0.h3", cap));
        emit(format!("cm n=1 cap={} ops=g0.g1.g0.A0.h0.h2.x0.h2", cap));
        emit(format!("cm n=1 cap={} ops=x0.A0.x0.x0.g0.A0.h0.x0.g0.h1", cap));
        emit(format!("cm n=3 cap={} ops=c012.A0.A1.A1.x0.x1.x2.h0.h1.h2.g1.h3", cap));
        emit(format!("cm n=1 cap={} ops=c01.c01.A0.A1.h0.h2.h1.h3.x0.x1", cap));
        emit(format!("cm n=2 cap={} ops=g0.c00.A0.h1.h2.h0.A0.x0.h0.h1.h2", cap));
    }
    // extension x server-side eviction x refusal x ALTER: the re-PREPARE's announcement lands in the shared object
    for cap in [1, 2] {
        emit(format!("cm n=1 cap={} ops=g0.g0.A0.V0.h0.h1.x0", cap));
        emit(format!("cm n=2 cap={} ops=g0.g0.A0.V0.V1.h0.h1.A0.V0.h1.h1.h0.x0", cap));
        emit(format!("cm n=2 cap={} ops=c00.A0.V0.V1.h0.h1.h1.h0", cap));
        emit(format!("cm n=2 cap={} ops=F1.g0.A0.h0.h0.h0.h0.G1.h0.h0.h0", cap));
        emit(format!("cm n=3 cap={} ops=g0.F1.F2.A0.V1.V2.V0.h0.h0.h0.h0.x0.x0.G1.V0.x0.x0", cap));
        emit(format!("cm n=2 cap={} ops=g0.g1.g0.A0.V0.V1.h0.h2.h1.x0.x1", cap));
    }
    for round in 0..if quick { 80 } else { 800 } {
        let len = 4 + rng.below(12);
        let mut slots = 0u64;
        let nn = 1 + rng.below(3);
        if round % 2 == 1 {
            // with evictions and refusals
            let mut ops: Vec<String> = Vec::new();
            for _ in 0..len {
                let t = if rng.chance(2, 3) { 0 } else { rng.below(3) };
                ops.push(match rng.below(12) {
                    0 => {
                        slots += 1;
                        format!("g{}", t)
                    }
                    1 => {
                        slots += 2;
                        format!("c{}{}", t, t)
                    }
                    2 | 3 => format!("A{}", t),
                    4 | 5 => format!("V{}", rng.below(nn)),
                    6 if nn > 1 => format!("F{}", 1 + rng.below(nn - 1)),
                    7 if nn > 1 => format!("G{}", 1 + rng.below(nn - 1)),
                    8 => format!("x{}", t),
                    _ if slots > 0 => format!("h{}", rng.below(slots)),
                    _ => format!("x{}", t),
                });
            }
            emit(format!("cm n={} cap={} ops={}", nn, 1 + rng.below(3), ops.join(".")));
            continue;
        }
        let mut ops: Vec<String> = Vec::new();
        for _ in 0..len {
            let t = if rng.chance(2, 3) { 0 } else { rng.below(3) };
            ops.push(match rng.below(10) {
                0 | 1 => {
                    slots += 1;
                    format!("g{}", t)
                }
                2 | 3 => {
                    let k = 2 + rng.below(2);
                    slots += k;
                    format!("c{}", (0..k).map(|_| if rng.chance(3, 4) { t.to_string() } else { rng.below(3).to_string() }).collect::<String>())
                }
                4 | 5 => format!("A{}", t),
                6 => format!("x{}", t),
                _ if slots > 0 => format!("h{}", rng.below(slots.min(100))),
                _ => format!("x{}", t),
            });
        }
        emit(format!("cm n={} cap={} ops={}", 1 + rng.below(3), 1 + rng.below(3), ops.join(".")));
    }
}

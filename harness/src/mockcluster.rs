//! A mock CLUSTER: N scripted CQL v4 nodes on distinct loopback addresses (127.a.b.i, one common port) against which a
//! real `scylla::client::session::Session` is built (end-to-end halves of C06 / C07 / C10 / C12 / C14 / C18 / C20, see
//! e2e.rs).
//!
//! * The codec is `mocknode`'s (written from the protocol specification, independent of the driver's own).
//! * The control connection's `system.local` / `system.peers` / `system_schema.*` statements (PREPARE + EXECUTE, or
//!   plain QUERY) are answered by the nodes themselves from an in-memory [`Topology`]; OPTIONS / STARTUP / REGISTER and
//!   (optionally) `USE <keyspace>` too. Everything else goes to the user's [`ClusterHandler`].
//! * Every received frame is recorded, over all nodes, in arrival order with one logical clock; connection
//!   open / ready / close and keyspace acknowledgements are recorded on the same clock, and a test can drop its own
//!   marks (`MockCluster::mark`) into it.
//! * Faults: close / reset a connection from the handler, write raw bytes, kill all connections of a node, stop and
//!   restart a node's listener, add a node to the topology.
use crate::mocknode::*;
use std::net::{Ipv4Addr, SocketAddr};
use std::sync::atomic::{AtomicBool, AtomicU64, Ordering};
use std::sync::{Arc, Mutex};
use std::time::Duration;
use tokio::io::{AsyncReadExt, AsyncWriteExt};
use tokio::net::TcpListener;
use tokio::sync::Notify;

// ---------------------------------------------------------------------------------------------------------------
// typed result sets (collection types, which mocknode's `Col` does not have)
// ---------------------------------------------------------------------------------------------------------------

pub const T_BIGINT: u16 = 0x0002;
pub const T_BLOB: u16 = 0x0003;
pub const T_BOOLEAN: u16 = 0x0004;
pub const T_INT: u16 = 0x0009;
pub const T_UUID: u16 = 0x000C;
pub const T_TEXT: u16 = 0x000D;
pub const T_INET: u16 = 0x0010;

#[derive(Clone, Debug, PartialEq, Eq)]
pub enum CqlT {
    Native(u16),
    List(Box<CqlT>),
    Set(Box<CqlT>),
    Map(Box<CqlT>, Box<CqlT>),
}

impl CqlT {
    pub fn write(&self, b: &mut Vec<u8>) {
        match self {
            CqlT::Native(id) => w_short(b, *id),
            CqlT::List(e) => {
                w_short(b, 0x0020);
                e.write(b)
            }
            CqlT::Map(k, v) => {
                w_short(b, 0x0021);
                k.write(b);
                v.write(b)
            }
            CqlT::Set(e) => {
                w_short(b, 0x0022);
                e.write(b)
            }
        }
    }
}

pub fn t_text() -> CqlT {
    CqlT::Native(T_TEXT)
}

/// Column specs of a result set / of bind markers, with keyspace and table.
#[derive(Clone, Debug)]
pub struct Specs {
    pub ks: String,
    pub table: String,
    pub cols: Vec<(String, CqlT)>,
}

impl Specs {
    pub fn new(ks: &str, table: &str, cols: &[(&str, CqlT)]) -> Specs {
        Specs { ks: ks.into(), table: table.into(), cols: cols.iter().map(|(n, t)| (n.to_string(), t.clone())).collect() }
    }
}

/// Result metadata: `with_cols == false` ⇒ NO_METADATA (only the count).
pub fn write_meta(b: &mut Vec<u8>, specs: &Specs, with_cols: bool, paging_state: Option<&[u8]>) {
    let mut flags = if with_cols { 0x0001 } else { 0x0004 };
    if paging_state.is_some() {
        flags |= 0x0002;
    }
    w_int(b, flags);
    w_int(b, specs.cols.len() as i32);
    if let Some(ps) = paging_state {
        w_bytes(b, Some(ps));
    }
    if with_cols {
        w_string(b, &specs.ks);
        w_string(b, &specs.table);
        for (n, t) in &specs.cols {
            w_string(b, n);
            t.write(b);
        }
    }
}

pub type Cell = Option<Vec<u8>>;

/// RESULT/Rows body with the METADATA_CHANGED flag (0x0008) and a new result-metadata id when `new_metadata_id` is
/// `Some` (only legal on a connection with the metadata-id extension; the column specs must then be sent too).
pub fn rows_body_ext(specs: &Specs, with_cols: bool, paging_state: Option<&[u8]>, new_metadata_id: Option<&[u8]>, rows: &[Vec<Cell>]) -> Vec<u8> {
    let mut flags = if with_cols { 0x0001 } else { 0x0004 };
    if paging_state.is_some() {
        flags |= 0x0002;
    }
    if new_metadata_id.is_some() {
        flags |= 0x0008;
    }
    let mut b = Vec::new();
    w_int(&mut b, 2);
    w_int(&mut b, flags);
    w_int(&mut b, specs.cols.len() as i32);
    if let Some(ps) = paging_state {
        w_bytes(&mut b, Some(ps));
    }
    if let Some(id) = new_metadata_id {
        w_short_bytes(&mut b, id);
    }
    if with_cols {
        w_string(&mut b, &specs.ks);
        w_string(&mut b, &specs.table);
        for (n, t) in &specs.cols {
            w_string(&mut b, n);
            t.write(&mut b);
        }
    }
    w_int(&mut b, rows.len() as i32);
    for r in rows {
        debug_assert_eq!(r.len(), specs.cols.len());
        for c in r {
            w_bytes(&mut b, c.as_deref());
        }
    }
    b
}

/// RESULT/Rows body.
pub fn rows_body(specs: &Specs, with_cols: bool, paging_state: Option<&[u8]>, rows: &[Vec<Cell>]) -> Vec<u8> {
    let mut b = Vec::new();
    w_int(&mut b, 2);
    write_meta(&mut b, specs, with_cols, paging_state);
    w_int(&mut b, rows.len() as i32);
    for r in rows {
        debug_assert_eq!(r.len(), specs.cols.len());
        for c in r {
            w_bytes(&mut b, c.as_deref());
        }
    }
    b
}

/// RESULT/Prepared body (no metadata-id extension).
pub fn prepared_body(id: &[u8], bind: &Specs, pk_indexes: &[u16], result: Option<&Specs>) -> Vec<u8> {
    prepared_body_ext(id, None, bind, pk_indexes, result)
}

/// RESULT/Prepared body; `result_metadata_id`: `Some` exactly on connections that negotiated SCYLLA_USE_METADATA_ID
/// (`Req::metadata_ext`) - the id follows the statement id.
pub fn prepared_body_ext(id: &[u8], result_metadata_id: Option<&[u8]>, bind: &Specs, pk_indexes: &[u16], result: Option<&Specs>) -> Vec<u8> {
    let mut b = Vec::new();
    w_int(&mut b, 4);
    w_short_bytes(&mut b, id);
    if let Some(mid) = result_metadata_id {
        w_short_bytes(&mut b, mid);
    }
    w_int(&mut b, 0x0001);
    w_int(&mut b, bind.cols.len() as i32);
    w_int(&mut b, pk_indexes.len() as i32);
    for i in pk_indexes {
        w_short(&mut b, *i);
    }
    w_string(&mut b, &bind.ks);
    w_string(&mut b, &bind.table);
    for (n, t) in &bind.cols {
        w_string(&mut b, n);
        t.write(&mut b);
    }
    match result {
        Some(r) if !r.cols.is_empty() => write_meta(&mut b, r, true, None),
        _ => {
            // a statement without a result set: flags = 0 (no global spec), 0 columns
            w_int(&mut b, 0);
            w_int(&mut b, 0);
        }
    }
    b
}

pub fn c_text(s: &str) -> Cell {
    Some(s.as_bytes().to_vec())
}
pub fn c_int(v: i32) -> Cell {
    Some(v.to_be_bytes().to_vec())
}
pub fn c_bigint(v: i64) -> Cell {
    Some(v.to_be_bytes().to_vec())
}
pub fn c_bool(v: bool) -> Cell {
    Some(vec![v as u8])
}
pub fn c_uuid(v: &[u8; 16]) -> Cell {
    Some(v.to_vec())
}
pub fn c_inet(ip: Ipv4Addr) -> Cell {
    Some(ip.octets().to_vec())
}
/// list<text> / set<text>
pub fn c_text_seq(xs: &[String]) -> Cell {
    let mut b = Vec::new();
    w_int(&mut b, xs.len() as i32);
    for x in xs {
        w_bytes(&mut b, Some(x.as_bytes()));
    }
    Some(b)
}
pub fn c_text_map(xs: &[(String, String)]) -> Cell {
    let mut b = Vec::new();
    w_int(&mut b, xs.len() as i32);
    for (k, v) in xs {
        w_bytes(&mut b, Some(k.as_bytes()));
        w_bytes(&mut b, Some(v.as_bytes()));
    }
    Some(b)
}

// ---------------------------------------------------------------------------------------------------------------
// topology + schema
// ---------------------------------------------------------------------------------------------------------------

#[derive(Clone, Debug)]
pub struct NodeSpec {
    pub host_id: [u8; 16],
    pub dc: String,
    pub rack: String,
    pub tokens: Vec<i64>,
    pub shards: ShardMode,
}

#[derive(Clone, Debug)]
pub struct TableSpec {
    pub name: String,
    /// (column, CQL type name as `system_schema.columns.type` spells it, e.g. "blob", "int", "text")
    pub partition_key: Vec<(String, String)>,
    pub clustering: Vec<(String, String)>,
    pub regular: Vec<(String, String)>,
}

#[derive(Clone, Debug, Default)]
pub struct KeyspaceSpec {
    pub name: String,
    /// e.g. [("class","org.apache.cassandra.locator.NetworkTopologyStrategy"),("dc1","2")]
    pub replication: Vec<(String, String)>,
    pub tables: Vec<TableSpec>,
    /// `Some(n)`: a tablet-based keyspace (`system_schema.scylla_keyspaces.initial_tablets`)
    pub initial_tablets: Option<i32>,
}

/// (C12 `e2e route lwtmark=1`) When set, every node's SUPPORTED also advertises ScyllaDB's LWT-mark extension
/// `SCYLLA_LWT_ADD_METADATA_MARK` = [`LWT_OPTIMIZATION_META_BIT_MASK=<LWT_MARK>`]: a PREPARED response whose metadata flags
/// carry `LWT_MARK` then tells the driver that the statement is an LWT. Process-wide (cases run one at a time); the
/// case that sets it resets it.
pub static ADVERTISE_LWT_MARK: AtomicBool = AtomicBool::new(false);
pub const LWT_MARK: u32 = 0x8000_0000;

#[derive(Clone, Debug, Default)]
pub struct Topology {
    pub nodes: Vec<NodeSpec>,
    pub keyspaces: Vec<KeyspaceSpec>,
    /// SUPPORTED advertises TABLETS_ROUTING_V1 (tablet feedback in custom payloads is then legal)
    pub tablets_ext: bool,
}

/// (C04 `e2e ring`) Rows of `system.local` / `system.peers` described differently from the topology, and rows of nodes
/// that do not exist: the control connection must cope with null datacenter / rack / tokens / host id and with rows it
/// cannot deserialise.  Process-wide like `ADVERTISE_LWT_MARK` (cases run one at a time); the case that sets it resets it.
#[derive(Clone, Debug, Default)]
pub struct RowOverrides {
    /// node index -> the five cells (host_id, rpc_address, data_center, rack, tokens) this node is described by, in its
    /// own `system.local` and in the `system.peers` of the others
    pub node_cells: std::collections::HashMap<usize, Vec<Cell>>,
    /// extra `system.peers` rows (five cells each) reported by every node
    pub extra_peers: Vec<Vec<Cell>>,
}
pub static ROW_OVERRIDES: Mutex<Option<RowOverrides>> = Mutex::new(None);

pub fn host_id_of(i: usize) -> [u8; 16] {
    let mut h = [0u8; 16];
    h[0] = 0xAB;
    h[6] = 0x40; // version nibble, cosmetic
    h[8] = 0x80;
    h[15] = (i + 1) as u8;
    h[14] = ((i + 1) >> 8) as u8;
    h
}

pub fn simple_strategy(rf: usize) -> Vec<(String, String)> {
    vec![("class".into(), "org.apache.cassandra.locator.SimpleStrategy".into()), ("replication_factor".into(), rf.to_string())]
}

pub fn nts(dcs: &[(String, usize)]) -> Vec<(String, String)> {
    let mut v = vec![("class".to_string(), "org.apache.cassandra.locator.NetworkTopologyStrategy".to_string())];
    for (d, rf) in dcs {
        v.push((d.clone(), rf.to_string()));
    }
    v
}

// ---------------------------------------------------------------------------------------------------------------
// what the nodes record
// ---------------------------------------------------------------------------------------------------------------

/// One received frame.
#[derive(Clone, Debug)]
pub struct Req {
    /// logical clock over the whole cluster (frames, connection events, marks)
    pub seq: u64,
    pub node: usize,
    /// connection number on that node, in accept order
    pub conn: usize,
    /// server-side shard of that connection
    pub shard: Option<u16>,
    /// (nr_shards, msb_ignore) the node reported in SUPPORTED on that connection (its parameters when it was accepted)
    pub sharding: Option<(u16, u8)>,
    pub stream: i16,
    pub flags: u8,
    pub opcode: u8,
    pub body: Vec<u8>,
    pub parsed: Parsed,
    /// keyspace this connection had acknowledged (SetKeyspace written) when the frame arrived
    pub keyspace: Option<String>,
    /// the connection has sent REGISTER (it is a control connection)
    pub control: bool,
    /// answered by the node itself (handshake, system tables, automatic USE)
    pub internal: bool,
    /// wall clock at arrival
    pub at: std::time::Instant,
    /// this connection negotiated SCYLLA_USE_METADATA_ID in STARTUP (only possible after
    /// `MockCluster::enable_metadata_id_ext`): its EXECUTE bodies carry a result-metadata id, which is then in
    /// `Parsed::Execute::result_metadata_id` (`None` on connections without the extension)
    pub metadata_ext: bool,
}

#[derive(Clone, Debug)]
pub struct ConnInfo {
    pub node: usize,
    pub conn: usize,
    pub shard: Option<u16>,
    /// (nr_shards, msb_ignore) reported in SUPPORTED on this connection
    pub sharding: Option<(u16, u8)>,
    pub peer: SocketAddr,
    pub opened: u64,
    /// clock value when READY was written
    pub ready: Option<u64>,
    pub closed: Option<u64>,
    /// wall clock of the same two events
    pub ready_at: Option<std::time::Instant>,
    pub closed_at: Option<std::time::Instant>,
    pub control: bool,
    pub keyspace: Option<String>,
    /// (clock, keyspace) for every SetKeyspace written
    pub keyspace_acks: Vec<(u64, String)>,
}

pub enum Act {
    /// response frame on the request's stream
    Respond(u8, Vec<u8>),
    /// response frame on an arbitrary stream
    RespondOn(i16, u8, Vec<u8>),
    /// response frame with header flags (0x04 = the body starts with a custom payload, see `with_custom_payload`)
    RespondFlags(u8, u8, Vec<u8>),
    /// raw bytes
    Raw(Vec<u8>),
    Delay(Duration),
    /// FIN
    Close,
    /// RST (SO_LINGER 0)
    Reset,
    /// record that this connection acknowledged a keyspace (after the preceding actions were written)
    AckKeyspace(String),
}

pub type ClusterHandler = Box<dyn FnMut(&Req) -> Vec<Act> + Send>;

struct ConnCtl {
    kill: Arc<Notify>,
}

struct State {
    frames: Vec<Req>,
    conns: Vec<Vec<ConnInfo>>,
    ctl: Vec<Vec<ConnCtl>>,
    marks: Vec<(u64, String)>,
    topo: Topology,
    ips: Vec<Ipv4Addr>,
    /// handle `USE x` inside the node (SetKeyspace + ack)
    auto_use: bool,
    /// a muted node reads and records frames but answers nothing (not even keep-alives)
    muted: Vec<bool>,
    /// opt-in (`MockCluster::enable_metadata_id_ext`): SUPPORTED advertises SCYLLA_USE_METADATA_ID
    metadata_id_ext: bool,
    /// print every frame to stderr (developer aid)
    trace: bool,
    /// C19: while on, a `system.local` rows query (one per full metadata fetch) is held until a verdict is released
    /// (`Some(true)` = answer it, `Some(false)` = answer ERROR); `meta_held` = queries currently held
    meta_gate: bool,
    meta_held: usize,
    meta_verdict: Option<bool>,
    /// C19: the nodes whose gated query is currently held
    meta_held_nodes: Vec<usize>,
    /// C19: a `false` verdict resets the connection instead of answering ERROR (a multi-node fetch tolerates an
    /// ERROR on `system.local` alone - the row is "skipped" -, a broken connection fails it)
    meta_fail_reset: bool,
    /// C10 `metaf`: a one-shot scripted fault on the next metadata request on one system table (`set_meta_fault`)
    meta_fault: Option<MetaFault>,
    /// C10 `metaf`: (node, conn, clock) of the request that met the fault
    meta_fault_fired: Option<(usize, usize, u64)>,
}

/// C10 `metaf`: what the node does INSTEAD of answering the next metadata request on `table` (one shot).
pub struct MetaFault {
    /// e.g. `system_schema.scylla_tables`
    pub table: String,
    /// hit the PREPARE of the rows statement instead of its QUERY / EXECUTE
    pub on_prepare: bool,
    pub acts: Vec<Act>,
    /// from then on this connection reads and records frames but answers nothing (not even keep-alives)
    pub silence: bool,
}

/// The PREPARE of the rows statement (not the schema_version one) of a system table.
fn is_rows_prepare_of(parsed: &Parsed, table: &str) -> bool {
    let idx = SYSTEM_TEXTS.iter().position(|s| *s == table);
    match parsed {
        Parsed::Prepare { text } => system_statement(text) && classify(text).is_some_and(|(ti, ver)| Some(ti) == idx && !ver),
        _ => false,
    }
}

/// The control connection's `SELECT … FROM system.local WHERE key='local'` (QUERY or EXECUTE of the prepared id).
fn is_local_rows_query(parsed: &Parsed) -> bool {
    is_rows_query_of(parsed, "system.local")
}

/// The rows query (not the schema_version one) of a system table.
fn is_rows_query_of(parsed: &Parsed, table: &str) -> bool {
    let local = SYSTEM_TEXTS.iter().position(|s| *s == table);
    match parsed {
        Parsed::Query { text, .. } => system_statement(text) && classify(text).is_some_and(|(ti, ver)| Some(ti) == local && !ver),
        Parsed::Execute { id, .. } => id.len() == 16 && id.starts_with(b"SYS") && Some(id[3] as usize) == local && id[4] == 0,
        _ => false,
    }
}

struct Shared {
    clock: AtomicU64,
    st: Mutex<State>,
    handler: Mutex<ClusterHandler>,
}

impl Shared {
    fn tick(&self) -> u64 {
        self.clock.fetch_add(1, Ordering::SeqCst)
    }
}

struct Listener {
    stop: Arc<Notify>,
    task: tokio::task::JoinHandle<()>,
}

pub struct MockCluster {
    pub port: u16,
    shared: Arc<Shared>,
    listeners: Mutex<Vec<Option<Listener>>>,
    base: (u8, u8),
}

static PORT_COUNTER: AtomicU64 = AtomicU64::new(0);

fn ip_of(base: (u8, u8), i: usize) -> Ipv4Addr {
    Ipv4Addr::new(127, base.0, base.1, (i + 1) as u8)
}

async fn bind_all(base: (u8, u8), n: usize) -> (u16, Vec<TcpListener>) {
    // A port below the ephemeral range (32768..) and below the driver's shard-aware source-port range (49152..), so
    // neither other processes' outgoing connections nor the driver's wildcard source-port binds collide with it.
    let pid = std::process::id() as u64;
    for _ in 0..2000 {
        let k = PORT_COUNTER.fetch_add(1, Ordering::SeqCst);
        let port = 10000 + ((pid.wrapping_mul(7919) + k.wrapping_mul(104729)) % 20000) as u16;
        let mut ls = Vec::new();
        let mut ok = true;
        // reserve head-room for nodes added later: the port must be free on the next few addresses too
        for i in 0..n + 4 {
            match TcpListener::bind(SocketAddr::from((ip_of(base, i), port))).await {
                Ok(l) => ls.push(l),
                Err(_) => {
                    ok = false;
                    break;
                }
            }
        }
        if ok {
            ls.truncate(n);
            return (port, ls);
        }
    }
    panic!("mockcluster: no free port");
}

impl MockCluster {
    /// Binds `topo.nodes.len()` listeners and starts serving.
    pub async fn start(topo: Topology, handler: ClusterHandler) -> MockCluster {
        let pid = std::process::id();
        // 127.a.b.*: a ∈ 1..=250, b ∈ 0..=249, from the process id, so concurrently running harness processes use
        // disjoint addresses
        let base = ((1 + (pid / 250) % 250) as u8, (pid % 250) as u8);
        let n = topo.nodes.len();
        let (port, ls) = bind_all(base, n).await;
        let ips: Vec<Ipv4Addr> = (0..n).map(|i| ip_of(base, i)).collect();
        let shared = Arc::new(Shared {
            clock: AtomicU64::new(0),
            st: Mutex::new(State {
                frames: Vec::new(),
                conns: (0..n).map(|_| Vec::new()).collect(),
                ctl: (0..n).map(|_| Vec::new()).collect(),
                marks: Vec::new(),
                topo,
                ips,
                auto_use: true,
                muted: vec![false; n],
                metadata_id_ext: false,
                trace: std::env::var_os("VERIF_E2E_TRACE").is_some(),
                meta_gate: false,
                meta_held: 0,
                meta_verdict: None,
                meta_held_nodes: Vec::new(),
                meta_fail_reset: false,
                meta_fault: None,
                meta_fault_fired: None,
            }),
            handler: Mutex::new(handler),
        });
        let mut listeners = Vec::new();
        for (i, l) in ls.into_iter().enumerate() {
            listeners.push(Some(spawn_listener(Arc::clone(&shared), i, l, port)));
        }
        MockCluster { port, shared, listeners: Mutex::new(listeners), base }
    }

    pub fn addr(&self, node: usize) -> SocketAddr {
        SocketAddr::from((ip_of(self.base, node), self.port))
    }

    pub fn node_of_ip(&self, ip: std::net::IpAddr) -> Option<usize> {
        let st = self.shared.st.lock().unwrap();
        st.ips.iter().position(|x| std::net::IpAddr::V4(*x) == ip)
    }

    pub fn n_nodes(&self) -> usize {
        self.shared.st.lock().unwrap().topo.nodes.len()
    }

    pub fn topology(&self) -> Topology {
        self.shared.st.lock().unwrap().topo.clone()
    }

    pub fn set_handler(&self, h: ClusterHandler) {
        *self.shared.handler.lock().unwrap() = h;
    }

    /// OPT-IN, call it right after `start` (before a session connects): every node advertises SCYLLA_USE_METADATA_ID in
    /// SUPPORTED; a connection whose STARTUP asks for it has `Req::metadata_ext == true`, its EXECUTE bodies are parsed
    /// with the result-metadata id field (`Parsed::Execute::result_metadata_id`), and PREPARED bodies sent on it must
    /// carry a result-metadata id (`prepared_body_ext`; the nodes do so themselves for the system tables). See
    /// [`MetaRegistry`] for the scripted "current result metadata" of user statements.
    pub fn enable_metadata_id_ext(&self) {
        self.shared.st.lock().unwrap().metadata_id_ext = true;
    }

    /// `false`: `USE x` statements go to the handler (which then answers and emits `Act::AckKeyspace`).
    pub fn set_auto_use(&self, on: bool) {
        self.shared.st.lock().unwrap().auto_use = on;
    }

    /// A session builder with realistic but fast settings. (Tracing is off unless a statement asks for it.)
    pub fn session_builder(&self) -> scylla::client::session_builder::SessionBuilder {
        use scylla::client::PoolSize;
        scylla::client::session_builder::SessionBuilder::new()
            .known_node_addr(self.addr(0))
            // generous: these only matter when the machine is badly overloaded (a healthy handshake takes < 1 ms)
            .connection_timeout(Duration::from_secs(10))
            .pool_size(PoolSize::PerShard(std::num::NonZeroUsize::new(1).unwrap()))
            .keepalive_interval(Duration::from_secs(60))
            .keepalive_timeout(Duration::from_secs(30))
            .cluster_metadata_refresh_interval(Duration::from_secs(600))
    }

    // ------------------------------------------------------------------------------------------ records

    pub fn mark(&self, label: &str) -> u64 {
        let t = self.shared.tick();
        self.shared.st.lock().unwrap().marks.push((t, label.to_owned()));
        t
    }

    pub fn now(&self) -> u64 {
        self.shared.clock.load(Ordering::SeqCst)
    }

    pub fn marks(&self) -> Vec<(u64, String)> {
        self.shared.st.lock().unwrap().marks.clone()
    }

    /// All frames, in arrival order.
    pub fn frames(&self) -> Vec<Req> {
        self.shared.st.lock().unwrap().frames.clone()
    }

    /// Frames the nodes did not answer themselves (i.e. those the handler saw).
    pub fn user_frames(&self) -> Vec<Req> {
        self.shared.st.lock().unwrap().frames.iter().filter(|r| !r.internal).cloned().collect()
    }

    pub fn conns(&self) -> Vec<ConnInfo> {
        self.shared.st.lock().unwrap().conns.iter().flatten().cloned().collect()
    }

    pub fn conn(&self, node: usize, conn: usize) -> ConnInfo {
        self.shared.st.lock().unwrap().conns[node][conn].clone()
    }

    /// Per node: the shards that currently have a live, READY, non-control connection.
    pub fn live_shards(&self, node: usize) -> Vec<Option<u16>> {
        let st = self.shared.st.lock().unwrap();
        // only connections accepted under the node's CURRENT sharding parameters count (see `restart_node_with`)
        let current = match st.topo.nodes[node].shards {
            ShardMode::None => None,
            ShardMode::Fixed(_, n, m) | ShardMode::ByPort(n, m) | ShardMode::ByPortShifted(n, m) => Some((n, m)),
        };
        let mut v: Vec<Option<u16>> = st.conns[node]
            .iter()
            .filter(|c| c.ready.is_some() && c.closed.is_none() && !c.control && c.sharding == current)
            .map(|c| c.shard)
            .collect();
        v.sort();
        v.dedup();
        v
    }

    /// True when every listening node has a live READY pool connection for each of its shards.
    pub fn pools_full(&self) -> bool {
        let n = self.n_nodes();
        let up: Vec<bool> = self.listeners.lock().unwrap().iter().map(|l| l.is_some()).collect();
        (0..n).all(|i| {
            if !up[i] {
                return true;
            }
            let want = match self.shared.st.lock().unwrap().topo.nodes[i].shards {
                ShardMode::None => 1,
                ShardMode::Fixed(..) => 1,
                ShardMode::ByPort(k, _) | ShardMode::ByPortShifted(k, _) => k as usize,
            };
            self.live_shards(i).len() >= want
        })
    }

    /// Waits until the session knows all nodes and sees every listening node connected (at least one pool connection).
    pub async fn wait_connected(&self, session: &scylla::client::session::Session, timeout: Duration) -> bool {
        let t0 = std::time::Instant::now();
        loop {
            let n = self.n_nodes();
            let up = self.listeners.lock().unwrap().iter().filter(|l| l.is_some()).count();
            let cs = session.get_cluster_state();
            if cs.get_nodes_info().len() == n && cs.get_nodes_info().iter().filter(|x| x.is_connected()).count() >= up {
                return true;
            }
            if t0.elapsed() > timeout {
                return false;
            }
            tokio::time::sleep(Duration::from_millis(5)).await;
        }
    }

    /// Waits until the session knows all nodes, sees them connected, and the nodes see full pools; then lets the
    /// pools settle (a connection that is READY at the node enters the client's pool a moment later).
    pub async fn wait_pools_full(&self, session: &scylla::client::session::Session, timeout: Duration) -> bool {
        let t0 = std::time::Instant::now();
        loop {
            let n = self.n_nodes();
            let up = self.listeners.lock().unwrap().iter().filter(|l| l.is_some()).count();
            let cs = session.get_cluster_state();
            let known = cs.get_nodes_info().len();
            let connected = cs.get_nodes_info().iter().filter(|x| x.is_connected()).count();
            if known == n && connected >= up && self.pools_full() {
                tokio::time::sleep(Duration::from_millis(15)).await;
                if self.pools_full() {
                    return true;
                }
            }
            if t0.elapsed() > timeout {
                return false;
            }
            tokio::time::sleep(Duration::from_millis(5)).await;
        }
    }

    // ------------------------------------------------------------------------------------------ faults

    /// Closes (RST) the live connections of a node; `control`: also the control connection.
    pub fn kill_connections(&self, node: usize, control: bool) -> usize {
        let st = self.shared.st.lock().unwrap();
        let mut k = 0;
        for (c, ctl) in st.conns[node].iter().zip(st.ctl[node].iter()) {
            if c.closed.is_none() && (control || !c.control) {
                ctl.kill.notify_one();
                k += 1;
            }
        }
        k
    }

    pub fn kill_connection(&self, node: usize, conn: usize) {
        let st = self.shared.st.lock().unwrap();
        st.ctl[node][conn].kill.notify_one();
    }

    /// C19: while the gate is on, every `system.local` rows query (one per full metadata fetch / establishment
    /// attempt) is held by the node until `release_meta` hands out a verdict for it.
    pub fn set_meta_gate(&self, on: bool) {
        self.shared.st.lock().unwrap().meta_gate = on;
    }

    /// Number of metadata fetches currently held at the gate.
    pub fn meta_held(&self) -> usize {
        self.shared.st.lock().unwrap().meta_held
    }

    /// Lets ONE held (or the next arriving) gated query through: `ok` = answered normally, else answered with ERROR.
    pub fn release_meta(&self, ok: bool) {
        self.shared.st.lock().unwrap().meta_verdict = Some(ok);
    }

    /// C19: make a `false` verdict of `release_meta` reset the connection instead of answering ERROR.
    pub fn set_meta_fail_reset(&self, on: bool) {
        self.shared.st.lock().unwrap().meta_fail_reset = on;
    }

    /// C10 `metaf`: arms a one-shot fault on the next metadata request on `f.table`.
    pub fn set_meta_fault(&self, f: MetaFault) {
        let mut st = self.shared.st.lock().unwrap();
        st.meta_fault = Some(f);
        st.meta_fault_fired = None;
    }

    /// C10 `metaf`: (node, conn, clock) of the request that met the armed fault, once it has.
    pub fn meta_fault_fired(&self) -> Option<(usize, usize, u64)> {
        self.shared.st.lock().unwrap().meta_fault_fired
    }

    /// C19: the node whose gated metadata query is held right now, if any.
    pub fn meta_held_node(&self) -> Option<usize> {
        self.shared.st.lock().unwrap().meta_held_nodes.first().copied()
    }

    /// C19: changes the datacenter a node reports (in every node's `system.local` / `system.peers` rows from now on).
    pub fn set_node_dc(&self, node: usize, dc: &str) {
        self.shared.st.lock().unwrap().topo.nodes[node].dc = dc.to_owned();
    }

    /// C20: changes the rack a node reports (in every node's `system.local` / `system.peers` rows from now on).
    pub fn set_node_rack(&self, node: usize, rack: &str) {
        self.shared.st.lock().unwrap().topo.nodes[node].rack = rack.to_owned();
    }

    /// Has the verdict handed out by `release_meta` not been consumed by a gated query yet?
    pub fn meta_verdict_pending(&self) -> bool {
        self.shared.st.lock().unwrap().meta_verdict.is_some()
    }

    /// A muted node keeps reading (and recording) frames but answers nothing, keep-alives included.
    pub fn set_muted(&self, node: usize, muted: bool) {
        self.shared.st.lock().unwrap().muted[node] = muted;
    }

    /// Stops listening on a node and closes its connections.
    pub async fn stop_node(&self, node: usize) {
        let l = self.listeners.lock().unwrap()[node].take();
        if let Some(l) = l {
            l.stop.notify_one();
            let _ = l.task.await;
        }
        self.kill_connections(node, true);
    }

    pub async fn restart_node(&self, node: usize) {
        if self.listeners.lock().unwrap()[node].is_some() {
            return;
        }
        let mut tries = 0;
        let l = loop {
            match TcpListener::bind(self.addr(node)).await {
                Ok(l) => break l,
                Err(e) => {
                    tries += 1;
                    if tries > 200 {
                        panic!("mockcluster: cannot re-bind {}: {}", self.addr(node), e);
                    }
                    tokio::time::sleep(Duration::from_millis(5)).await;
                }
            }
        };
        let li = spawn_listener(Arc::clone(&self.shared), node, l, self.port);
        self.listeners.lock().unwrap()[node] = Some(li);
    }

    /// A node restart with new sharding parameters: the node stops listening and drops every connection (control
    /// connection included), stays down for `down`, and comes back reporting `mode` in SUPPORTED on every new
    /// connection (shards are assigned by source port under the NEW shard count). Host id, address, tokens unchanged.
    pub async fn restart_node_with(&self, node: usize, mode: ShardMode, down: Duration) {
        self.stop_node(node).await;
        self.shared.st.lock().unwrap().topo.nodes[node].shards = mode;
        tokio::time::sleep(down).await;
        self.restart_node(node).await;
    }

    /// Adds a node to the topology and starts it. The session learns of it on its next metadata refresh
    /// (`session.refresh_metadata().await`).
    pub async fn add_node(&self, spec: NodeSpec) -> usize {
        let i = {
            let mut st = self.shared.st.lock().unwrap();
            let i = st.topo.nodes.len();
            st.topo.nodes.push(spec);
            st.ips.push(ip_of(self.base, i));
            st.conns.push(Vec::new());
            st.ctl.push(Vec::new());
            st.muted.push(false);
            i
        };
        self.listeners.lock().unwrap().push(None);
        self.restart_node(i).await;
        i
    }
}

impl Drop for MockCluster {
    fn drop(&mut self) {
        for l in self.listeners.lock().unwrap().iter_mut() {
            if let Some(l) = l.take() {
                l.task.abort();
            }
        }
        let st = self.shared.st.lock().unwrap();
        for ctl in st.ctl.iter().flatten() {
            ctl.kill.notify_one();
        }
    }
}

// ---------------------------------------------------------------------------------------------------------------
// the node
// ---------------------------------------------------------------------------------------------------------------

fn spawn_listener(shared: Arc<Shared>, node: usize, listener: TcpListener, port: u16) -> Listener {
    let stop = Arc::new(Notify::new());
    let stop2 = Arc::clone(&stop);
    let task = tokio::spawn(async move {
        loop {
            let acc = tokio::select! {
                a = listener.accept() => a,
                _ = stop2.notified() => return,
            };
            let Ok((sock, peer)) = acc else { return };
            let _ = sock.set_nodelay(true);
            // SO_LINGER 0: whenever the node's side of a connection is dropped (kill, teardown at the end of a case) the
            // peer gets RST, so neither side lingers in TIME_WAIT. (The driver binds its source port explicitly, and
            // thousands of TIME_WAIT sockets per run would exhaust the ephemeral ports of the machine.) A scripted
            // graceful close (`Act::Close`) switches lingering back on and sends FIN.
            #[allow(deprecated)]
            let _ = sock.set_linger(Some(Duration::ZERO));
            let (conn, shard, kill) = {
                let mut st = shared.st.lock().unwrap();
                let mode = st.topo.nodes[node].shards;
                let shard = match mode {
                    ShardMode::None => None,
                    ShardMode::Fixed(s, n, m) => Some((s, n, m)),
                    ShardMode::ByPort(n, m) => Some((peer.port() % n, n, m)),
                    ShardMode::ByPortShifted(n, m) => Some(((peer.port() as u32 + 1) as u16 % n, n, m)),
                };
                let conn = st.conns[node].len();
                let kill = Arc::new(Notify::new());
                let opened = shared.tick();
                st.conns[node].push(ConnInfo {
                    node,
                    conn,
                    shard: shard.map(|s| s.0),
                    sharding: shard.map(|s| (s.1, s.2)),
                    peer,
                    opened,
                    ready: None,
                    closed: None,
                    ready_at: None,
                    closed_at: None,
                    control: false,
                    keyspace: None,
                    keyspace_acks: Vec::new(),
                });
                st.ctl[node].push(ConnCtl { kill: Arc::clone(&kill) });
                (conn, shard, kill)
            };
            let shared = Arc::clone(&shared);
            tokio::spawn(async move {
                serve_conn(&shared, node, conn, shard, port, sock, kill).await;
                let t = shared.tick();
                let mut st = shared.st.lock().unwrap();
                st.conns[node][conn].closed = Some(t);
                st.conns[node][conn].closed_at = Some(std::time::Instant::now());
            });
        }
    });
    Listener { stop, task }
}

async fn read_frame(sock: &mut tokio::net::TcpStream) -> Option<([u8; 9], Vec<u8>)> {
    let mut hdr = [0u8; 9];
    sock.read_exact(&mut hdr).await.ok()?;
    let len = u32::from_be_bytes([hdr[5], hdr[6], hdr[7], hdr[8]]) as usize;
    let mut body = vec![0u8; len];
    sock.read_exact(&mut body).await.ok()?;
    Some((hdr, body))
}

async fn serve_conn(
    shared: &Arc<Shared>,
    node: usize,
    conn: usize,
    shard: Option<(u16, u16, u8)>,
    port: u16,
    mut sock: tokio::net::TcpStream,
    kill: Arc<Notify>,
) {
    // SCYLLA_USE_METADATA_ID negotiated on this connection (opt-in, see `MockCluster::enable_metadata_id_ext`)
    let mut ext_on = false;
    // C10 `metaf`: set by a fault with `silence`
    let mut silenced = false;
    loop {
        let fr = tokio::select! {
            f = read_frame(&mut sock) => f,
            _ = kill.notified() => return,
        };
        let Some((hdr, body)) = fr else { return };
        let stream = i16::from_be_bytes([hdr[2], hdr[3]]);
        let opcode = hdr[4];
        let parsed = parse_request(opcode, &body, ext_on);
        if let Parsed::Startup(opts) = &parsed {
            // negotiated only if this cluster advertises it (opt-in) and the driver asked for it
            ext_on = shared.st.lock().unwrap().metadata_id_ext && opts.iter().any(|(k, _)| k == "SCYLLA_USE_METADATA_ID");
        }
        // classify + record under the lock
        let (req, internal_actions) = {
            let mut st = shared.st.lock().unwrap();
            let mut internal_actions = internal_response(&mut st, node, conn, shard, port, &parsed, ext_on);
            let internal = internal_actions.is_some();
            if st.muted[node] {
                internal_actions = Some(vec![]);
            }
            if matches!(parsed, Parsed::Register(_)) {
                st.conns[node][conn].control = true;
            }
            let ci = &st.conns[node][conn];
            let req = Req {
                seq: shared.tick(),
                node,
                conn,
                shard: shard.map(|s| s.0),
                sharding: shard.map(|s| (s.1, s.2)),
                stream,
                flags: hdr[1],
                opcode,
                body,
                parsed,
                keyspace: ci.keyspace.clone(),
                control: ci.control,
                internal,
                at: std::time::Instant::now(),
                metadata_ext: ext_on,
            };
            if st.trace {
                eprintln!("[mock n{} c{} s{:?} #{}] {:?} ks={:?}", node, conn, req.shard, req.stream, req.parsed, req.keyspace);
            }
            st.frames.push(req.clone());
            (req, internal_actions)
        };
        // C19: scripted outcome of the `system.local` rows query, one per full metadata fetch (`set_meta_gate`)
        let mut internal_actions = internal_actions;
        // in reset mode the gate sits on the FIRST query of a fetch (`system.peers`), so that a `false` verdict fails
        // the whole fetch (an error on `system.local` alone is tolerated by a multi-node fetch: the row is skipped)
        let gate_on_peers = shared.st.lock().unwrap().meta_fail_reset;
        if req.internal && (if gate_on_peers { is_rows_query_of(&req.parsed, "system.peers") } else { is_local_rows_query(&req.parsed) }) {
            let mut counted = false;
            let verdict = loop {
                {
                    let mut st = shared.st.lock().unwrap();
                    if !st.meta_gate {
                        if counted {
                            st.meta_held -= 1;
                            st.meta_held_nodes.retain(|n| *n != node);
                        }
                        break true;
                    }
                    if !counted {
                        st.meta_held += 1;
                        st.meta_held_nodes.push(node);
                        counted = true;
                    }
                    if let Some(v) = st.meta_verdict.take() {
                        st.meta_held -= 1;
                        st.meta_held_nodes.retain(|n| *n != node);
                        break v;
                    }
                }
                tokio::select! {
                    _ = tokio::time::sleep(Duration::from_micros(200)) => {}
                    _ = kill.notified() => {
                        let mut st = shared.st.lock().unwrap();
                        st.meta_held -= 1;
                        st.meta_held_nodes.retain(|n| *n != node);
                        return;
                    }
                }
            };
            if !verdict {
                let reset = shared.st.lock().unwrap().meta_fail_reset;
                internal_actions = Some(vec![if reset { Act::Reset } else { act_error(0x0000, "scripted metadata failure", &[]) }]);
            }
        }
        // C10 `metaf`: the one-shot scripted fault on a metadata request (`set_meta_fault`)
        let was_silenced = silenced;
        if req.internal {
            let mut st = shared.st.lock().unwrap();
            let hit = st.meta_fault.as_ref().is_some_and(|f| if f.on_prepare { is_rows_prepare_of(&req.parsed, &f.table) } else { is_rows_query_of(&req.parsed, &f.table) });
            if hit {
                let f = st.meta_fault.take().unwrap();
                st.meta_fault_fired = Some((node, conn, req.seq));
                silenced = f.silence;
                internal_actions = Some(f.acts);
            }
        }
        let is_startup = matches!(req.parsed, Parsed::Startup(_));
        let actions = match internal_actions {
            _ if was_silenced => Vec::new(),
            Some(a) => a,
            None => (shared.handler.lock().unwrap())(&req),
        };
        for a in actions {
            match a {
                Act::Respond(op, b) => {
                    if sock.write_all(&frame(stream, op, &b)).await.is_err() {
                        return;
                    }
                }
                Act::RespondOn(s, op, b) => {
                    if sock.write_all(&frame(s, op, &b)).await.is_err() {
                        return;
                    }
                }
                Act::RespondFlags(fl, op, b) => {
                    let mut f = frame(stream, op, &b);
                    f[1] = fl;
                    if sock.write_all(&f).await.is_err() {
                        return;
                    }
                }
                Act::Raw(b) => {
                    if sock.write_all(&b).await.is_err() {
                        return;
                    }
                }
                Act::Delay(d) => {
                    tokio::select! {
                        _ = tokio::time::sleep(d) => {}
                        _ = kill.notified() => return,
                    }
                }
                Act::Close => {
                    #[allow(deprecated)]
                    let _ = sock.set_linger(None);
                    let _ = sock.shutdown().await;
                    return;
                }
                Act::Reset => {
                    #[allow(deprecated)]
                    let _ = sock.set_linger(Some(Duration::ZERO));
                    return;
                }
                Act::AckKeyspace(k) => {
                    let t = shared.tick();
                    let mut st = shared.st.lock().unwrap();
                    let ci = &mut st.conns[node][conn];
                    ci.keyspace = Some(k.clone());
                    ci.keyspace_acks.push((t, k));
                }
            }
        }
        if is_startup {
            let t = shared.tick();
            let mut st = shared.st.lock().unwrap();
            st.conns[node][conn].ready = Some(t);
            st.conns[node][conn].ready_at = Some(std::time::Instant::now());
        }
    }
}

/// `USE ks` / `USE "ks"` → ks
pub fn parse_use(text: &str) -> Option<String> {
    let t = text.trim();
    if t.len() < 4 || !t[..4].eq_ignore_ascii_case("use ") {
        return None;
    }
    Some(t[4..].trim().trim_end_matches(';').trim_matches('"').to_owned())
}

fn system_statement(text: &str) -> bool {
    let t = text.to_ascii_lowercase();
    t.contains(" from system.") || t.contains(" from system_schema.")
}

/// Prepared id of a system statement: "SYS", the table's index, the schema_version flag, a digest of the text. The id
/// alone tells what to answer, so an EXECUTE is answered on any node and after any reconnect.
fn sys_id(text: &str) -> Option<Vec<u8>> {
    let (ti, ver) = classify(text)?;
    let mut id = b"SYS".to_vec();
    id.push(ti as u8);
    id.push(ver as u8);
    id.extend_from_slice(&md5ish(text)[..11]);
    Some(id)
}

fn internal_response(
    st: &mut State,
    node: usize,
    _conn: usize,
    shard: Option<(u16, u16, u8)>,
    port: u16,
    parsed: &Parsed,
    ext_on: bool,
) -> Option<Vec<Act>> {
    match parsed {
        Parsed::Options => {
            let aware = matches!(st.topo.nodes[node].shards, ShardMode::ByPort(..) | ShardMode::ByPortShifted(..)).then_some(port);
            let mut body = body_supported_ext(false, shard, aware);
            if st.topo.tablets_ext {
                // one more entry of the string multimap: bump the count, append key + empty value list entry
                let n = u16::from_be_bytes([body[0], body[1]]) + 1;
                body[..2].copy_from_slice(&n.to_be_bytes());
                w_string(&mut body, "TABLETS_ROUTING_V1");
                w_short(&mut body, 1);
                w_string(&mut body, "");
            }
            if ADVERTISE_LWT_MARK.load(Ordering::SeqCst) {
                let n = u16::from_be_bytes([body[0], body[1]]) + 1;
                body[..2].copy_from_slice(&n.to_be_bytes());
                w_string(&mut body, "SCYLLA_LWT_ADD_METADATA_MARK");
                w_short(&mut body, 1);
                w_string(&mut body, &format!("LWT_OPTIMIZATION_META_BIT_MASK={}", LWT_MARK));
            }
            if st.metadata_id_ext {
                let n = u16::from_be_bytes([body[0], body[1]]) + 1;
                body[..2].copy_from_slice(&n.to_be_bytes());
                w_string(&mut body, "SCYLLA_USE_METADATA_ID");
                w_short(&mut body, 1);
                w_string(&mut body, "");
            }
            Some(vec![Act::Respond(RESP_SUPPORTED, body)])
        }
        Parsed::Startup(_) => Some(vec![Act::Respond(RESP_READY, vec![])]),
        Parsed::Register(_) => Some(vec![Act::Respond(RESP_READY, vec![])]),
        Parsed::Prepare { text } if system_statement(text) => {
            let (ti, ver) = classify(text)?;
            let (specs, _) = system_rows(st, node, ti, ver)?;
            let bind = Specs { ks: specs.ks.clone(), table: specs.table.clone(), cols: vec![] };
            // with the extension negotiated a PREPARED body carries a result-metadata id (fixed for the system tables)
            let mid = ext_on.then_some(&b"sysmeta"[..]);
            Some(vec![Act::Respond(RESP_RESULT, prepared_body_ext(&sys_id(text)?, mid, &bind, &[], Some(&specs)))])
        }
        Parsed::Query { text, params } if system_statement(text) => {
            let (ti, ver) = classify(text)?;
            let (specs, rows) = system_rows(st, node, ti, ver)?;
            Some(vec![Act::Respond(RESP_RESULT, rows_body(&specs, !params.skip_metadata, None, &rows))])
        }
        Parsed::Execute { id, params, .. } if id.len() == 16 && id.starts_with(b"SYS") => {
            match system_rows(st, node, id[3] as usize, id[4] != 0) {
                Some((specs, rows)) => Some(vec![Act::Respond(RESP_RESULT, rows_body(&specs, !params.skip_metadata, None, &rows))]),
                None => Some(vec![Act::Respond(RESP_ERROR, body_unprepared(id))]),
            }
        }
        Parsed::Query { text, .. } if st.auto_use && parse_use(text).is_some() => {
            let k = parse_use(text).unwrap();
            Some(vec![Act::Respond(RESP_RESULT, body_set_keyspace(&k)), Act::AckKeyspace(k)])
        }
        _ => None,
    }
}

const SYSTEM_TEXTS: &[&str] = &[
    "system.peers",
    "system.local",
    "system_schema.keyspaces",
    "system_schema.types",
    "system_schema.tables",
    "system_schema.views",
    "system_schema.columns",
    "system_schema.scylla_tables",
    "system_schema.scylla_keyspaces",
];

/// (index into SYSTEM_TEXTS, asks for schema_version) of a statement on a system table.
fn classify(text: &str) -> Option<(usize, bool)> {
    let t = text.to_ascii_lowercase();
    let after = t.split(" from ").nth(1)?;
    let name = after.split_whitespace().next()?;
    let ti = SYSTEM_TEXTS.iter().position(|s| *s == name)?;
    Some((ti, t.contains("schema_version")))
}

/// The rows of a system table as this node answers them.
fn system_rows(st: &State, node: usize, table_idx: usize, wants_version: bool) -> Option<(Specs, Vec<Vec<Cell>>)> {
    let table = *SYSTEM_TEXTS.get(table_idx)?;
    let (ks, tb) = table.split_once('.')?;
    let text_set = CqlT::Set(Box::new(t_text()));
    let text_list = CqlT::List(Box::new(t_text()));
    let overrides: Option<RowOverrides> = ROW_OVERRIDES.lock().unwrap().clone();
    let node_cells = |i: usize| -> Vec<Cell> {
        if let Some(c) = overrides.as_ref().and_then(|o| o.node_cells.get(&i)) {
            return c.clone();
        }
        let n = &st.topo.nodes[i];
        vec![
            c_uuid(&n.host_id),
            c_inet(st.ips[i]),
            c_text(&n.dc),
            c_text(&n.rack),
            c_text_seq(&n.tokens.iter().map(|t| t.to_string()).collect::<Vec<_>>()),
        ]
    };
    Some(match table {
        "system.peers" | "system.local" if wants_version => {
            // schema agreement probe: one fixed version everywhere
            let specs = Specs::new(ks, tb, &[("schema_version", CqlT::Native(T_UUID))]);
            let v = [0x11u8; 16];
            let rows = if table == "system.local" {
                vec![vec![c_uuid(&v)]]
            } else {
                (0..st.topo.nodes.len()).filter(|i| *i != node).map(|_| vec![c_uuid(&v)]).collect()
            };
            (specs, rows)
        }
        "system.peers" => {
            let specs = Specs::new(
                ks,
                tb,
                &[
                    ("host_id", CqlT::Native(T_UUID)),
                    ("rpc_address", CqlT::Native(T_INET)),
                    ("data_center", t_text()),
                    ("rack", t_text()),
                    ("tokens", text_set),
                ],
            );
            let mut rows: Vec<Vec<Cell>> = (0..st.topo.nodes.len()).filter(|i| *i != node).map(node_cells).collect();
            if let Some(o) = &overrides {
                rows.extend(o.extra_peers.iter().cloned());
            }
            (specs, rows)
        }
        "system.local" => {
            let specs = Specs::new(
                ks,
                tb,
                &[
                    ("host_id", CqlT::Native(T_UUID)),
                    ("rpc_address", CqlT::Native(T_INET)),
                    ("data_center", t_text()),
                    ("rack", t_text()),
                    ("tokens", text_set),
                    ("cluster_name", t_text()),
                ],
            );
            let mut r = node_cells(node);
            r.push(c_text("mockcluster"));
            (specs, vec![r])
        }
        "system_schema.keyspaces" => {
            let specs = Specs::new(
                ks,
                tb,
                &[
                    ("keyspace_name", t_text()),
                    ("replication", CqlT::Map(Box::new(t_text()), Box::new(t_text()))),
                    ("durable_writes", CqlT::Native(T_BOOLEAN)),
                ],
            );
            let rows = st.topo.keyspaces.iter().map(|k| vec![c_text(&k.name), c_text_map(&k.replication), c_bool(true)]).collect();
            (specs, rows)
        }
        "system_schema.types" => {
            let specs = Specs::new(
                ks,
                tb,
                &[("keyspace_name", t_text()), ("type_name", t_text()), ("field_names", text_list.clone()), ("field_types", text_list)],
            );
            (specs, vec![])
        }
        "system_schema.tables" => {
            let specs = Specs::new(ks, tb, &[("keyspace_name", t_text()), ("table_name", t_text())]);
            let rows = st.topo.keyspaces.iter().flat_map(|k| k.tables.iter().map(move |t| vec![c_text(&k.name), c_text(&t.name)])).collect();
            (specs, rows)
        }
        "system_schema.views" => {
            let specs = Specs::new(ks, tb, &[("keyspace_name", t_text()), ("view_name", t_text()), ("base_table_name", t_text())]);
            // materialized views registered in VIEWS (C03's `sesspart` only), for keyspaces of this topology
            let rows = VIEWS
                .lock()
                .unwrap()
                .iter()
                .filter(|(k, _, _)| st.topo.keyspaces.iter().any(|x| x.name == *k))
                .map(|(k, v, base)| vec![c_text(k), c_text(&v.name), c_text(base)])
                .collect();
            (specs, rows)
        }
        "system_schema.columns" => {
            let specs = Specs::new(
                ks,
                tb,
                &[
                    ("keyspace_name", t_text()),
                    ("table_name", t_text()),
                    ("column_name", t_text()),
                    ("kind", t_text()),
                    ("position", CqlT::Native(T_INT)),
                    ("type", t_text()),
                ],
            );
            let mut rows = Vec::new();
            // the columns of registered materialized views (C03's `sesspart` only) are listed like a table's
            let views: Vec<(String, TableSpec, String)> = VIEWS.lock().unwrap().clone();
            for k in &st.topo.keyspaces {
                for t in k.tables.iter().chain(views.iter().filter(|(vk, _, _)| *vk == k.name).map(|(_, v, _)| v)) {
                    // C03's `pkfetch`: the column rows of a registered table are served verbatim, in the registered order
                    if let Some(over) = column_rows_override(&k.name, &t.name) {
                        for (c, kind, p, ty) in &over {
                            rows.push(vec![c_text(&k.name), c_text(&t.name), c_text(c), c_text(kind), c_int(*p), c_text(ty)]);
                        }
                        continue;
                    }
                    let groups: [(&str, &Vec<(String, String)>); 3] =
                        [("partition_key", &t.partition_key), ("clustering", &t.clustering), ("regular", &t.regular)];
                    for (kind, cols) in groups {
                        for (pos, (c, ty)) in cols.iter().enumerate() {
                            let p = if kind == "regular" { -1 } else { pos as i32 };
                            rows.push(vec![c_text(&k.name), c_text(&t.name), c_text(c), c_text(kind), c_int(p), c_text(ty)]);
                        }
                    }
                }
            }
            (specs, rows)
        }
        "system_schema.scylla_tables" => {
            let specs = Specs::new(ks, tb, &[("keyspace_name", t_text()), ("table_name", t_text()), ("partitioner", t_text())]);
            // `partitioner`: null unless registered in TABLE_PARTITIONERS (C03's `e2e partitioner` family)
            let mut rows: Vec<Vec<Cell>> = st.topo.keyspaces.iter().flat_map(|k| k.tables.iter().map(move |t| vec![c_text(&k.name), c_text(&t.name), table_partitioner(&k.name, &t.name).map(|p| p.into_bytes())])).collect();
            for (k, v, _) in VIEWS.lock().unwrap().iter().filter(|(k, _, _)| st.topo.keyspaces.iter().any(|x| x.name == *k)) {
                rows.push(vec![c_text(k), c_text(&v.name), table_partitioner(k, &v.name).map(|p| p.into_bytes())]);
            }
            (specs, rows)
        }
        "system_schema.scylla_keyspaces" => {
            let specs = Specs::new(ks, tb, &[("keyspace_name", t_text()), ("initial_tablets", CqlT::Native(T_INT))]);
            let rows = st.topo.keyspaces.iter().filter_map(|k| k.initial_tablets.map(|n| vec![c_text(&k.name), c_int(n)])).collect();
            (specs, rows)
        }
        _ => return None,
    })
}

/// Partitioner names `system_schema.scylla_tables` reports, keyed by `"<keyspace>.<table>"` (absent = null). A
/// process-wide registry so that `TableSpec` keeps its shape; only C03's `e2e partitioner` family registers names, for
/// tables no other family uses.
pub static TABLE_PARTITIONERS: Mutex<Vec<(String, String)>> = Mutex::new(Vec::new());

/// Materialized views `system_schema.views` / `system_schema.columns` report: (keyspace, the view's columns as a
/// `TableSpec`, base table name). Process-wide like TABLE_PARTITIONERS; only C03's `sesspart` registers views.
pub static VIEWS: Mutex<Vec<(String, TableSpec, String)>> = Mutex::new(Vec::new());

/// `system_schema.columns` rows served VERBATIM (column, kind, position, type - in this order of rows) for the table
/// `"<keyspace>.<table>"` instead of the rows derived from its `TableSpec`. Only C03's `pkfetch` family registers rows
/// (for a table no other family uses): real servers return these rows sorted by column NAME, not by key position.
pub static COLUMN_ROWS: Mutex<Vec<(String, Vec<(String, String, i32, String)>)>> = Mutex::new(Vec::new());

fn column_rows_override(ks: &str, table: &str) -> Option<Vec<(String, String, i32, String)>> {
    let key = format!("{ks}.{table}");
    COLUMN_ROWS.lock().unwrap().iter().find(|(k, _)| *k == key).map(|(_, r)| r.clone())
}

fn table_partitioner(ks: &str, table: &str) -> Option<String> {
    let key = format!("{ks}.{table}");
    TABLE_PARTITIONERS.lock().unwrap().iter().find(|(k, _)| *k == key).map(|(_, v)| v.clone())
}

// ---------------------------------------------------------------------------------------------------------------
// small helpers for handlers
// ---------------------------------------------------------------------------------------------------------------

/// Scripted "current result metadata" of prepared statements, shared between the test and its handler (clone it into the
/// handler closure): statement id -> (result-metadata id, result column specs). `set` again = an ALTER TABLE event.
/// The answer helpers implement the server side of the SCYLLA_USE_METADATA_ID extension (the semantics of the C14
/// `hist` server, harness/src/c14.rs):
///  * PREPARED carries the current metadata id (on extension connections) and the current column specs;
///  * an EXECUTE on an extension connection presenting ANOTHER id than the current one is answered with
///    Rows + METADATA_CHANGED + the current id + the current column specs;
///  * otherwise an EXECUTE with skip_metadata gets NO_METADATA rows, one without it gets the column specs.
#[derive(Clone, Default)]
pub struct MetaRegistry(Arc<Mutex<std::collections::HashMap<Vec<u8>, (Vec<u8>, Specs)>>>);

impl MetaRegistry {
    pub fn new() -> MetaRegistry {
        MetaRegistry::default()
    }

    /// Sets / changes (ALTER) the current result metadata of a statement.
    pub fn set(&self, stmt_id: &[u8], metadata_id: &[u8], specs: Specs) {
        self.0.lock().unwrap().insert(stmt_id.to_vec(), (metadata_id.to_vec(), specs));
    }

    pub fn get(&self, stmt_id: &[u8]) -> Option<(Vec<u8>, Specs)> {
        self.0.lock().unwrap().get(stmt_id).cloned()
    }

    /// RESULT/Prepared for `stmt_id` under its current metadata (`None`: the statement is not registered).
    pub fn answer_prepare(&self, req: &Req, stmt_id: &[u8], bind: &Specs, pk_indexes: &[u16]) -> Option<Act> {
        let (mid, specs) = self.get(stmt_id)?;
        let mid = req.metadata_ext.then_some(&mid[..]);
        Some(Act::Respond(RESP_RESULT, prepared_body_ext(stmt_id, mid, bind, pk_indexes, Some(&specs))))
    }

    /// RESULT/Rows for an EXECUTE frame (`None`: not an EXECUTE of a registered statement). `rows(specs)` builds the
    /// rows under the CURRENT column specs.
    pub fn answer_execute(&self, req: &Req, paging_state: Option<&[u8]>, rows: impl FnOnce(&Specs) -> Vec<Vec<Cell>>) -> Option<Act> {
        let Parsed::Execute { id, result_metadata_id, params } = &req.parsed else { return None };
        let (cur, specs) = self.get(id)?;
        let rows = rows(&specs);
        let stale = req.metadata_ext && result_metadata_id.as_deref() != Some(&cur[..]);
        let body = if stale {
            rows_body_ext(&specs, true, paging_state, Some(&cur), &rows)
        } else {
            rows_body_ext(&specs, !params.skip_metadata, paging_state, None, &rows)
        };
        Some(Act::Respond(RESP_RESULT, body))
    }
}

/// Prefixes a response body with a custom payload (bytes map); send it with `Act::RespondFlags(0x04, ..)`.
pub fn with_custom_payload(entries: &[(&str, Vec<u8>)], body: &[u8]) -> Vec<u8> {
    let mut b = Vec::new();
    w_short(&mut b, entries.len() as u16);
    for (k, v) in entries {
        w_string(&mut b, k);
        w_bytes(&mut b, Some(v));
    }
    b.extend_from_slice(body);
    b
}

/// The value of the `tablets-routing-v1` payload entry: tuple<bigint, bigint, list<tuple<uuid, int>>> =
/// (first token, EXCLUSIVE; last token, inclusive; replicas (host id, shard)).
pub fn tablet_payload(first_exclusive: i64, last: i64, replicas: &[([u8; 16], i32)]) -> Vec<u8> {
    let mut b = Vec::new();
    w_bytes(&mut b, Some(&first_exclusive.to_be_bytes()));
    w_bytes(&mut b, Some(&last.to_be_bytes()));
    let mut l = Vec::new();
    w_int(&mut l, replicas.len() as i32);
    for (h, s) in replicas {
        let mut t = Vec::new();
        w_bytes(&mut t, Some(h));
        w_bytes(&mut t, Some(&s.to_be_bytes()));
        w_bytes(&mut l, Some(&t));
    }
    w_bytes(&mut b, Some(&l));
    b
}

pub fn act_void() -> Act {
    Act::Respond(RESP_RESULT, body_void())
}

pub fn act_error(code: i32, msg: &str, extra: &[u8]) -> Act {
    Act::Respond(RESP_ERROR, body_error(code, msg, extra))
}

/// Unavailable: <cl><required><alive>
pub fn err_unavailable(cl: u16, required: i32, alive: i32) -> Act {
    let mut e = Vec::new();
    w_short(&mut e, cl);
    w_int(&mut e, required);
    w_int(&mut e, alive);
    act_error(0x1000, "unavailable", &e)
}

/// WriteTimeout: <cl><received><blockfor><writeType>
pub fn err_write_timeout(cl: u16, received: i32, blockfor: i32, write_type: &str) -> Act {
    let mut e = Vec::new();
    w_short(&mut e, cl);
    w_int(&mut e, received);
    w_int(&mut e, blockfor);
    w_string(&mut e, write_type);
    act_error(0x1100, "write timeout", &e)
}

/// ReadTimeout: <cl><received><blockfor><data_present>
pub fn err_read_timeout(cl: u16, received: i32, blockfor: i32, data_present: bool) -> Act {
    let mut e = Vec::new();
    w_short(&mut e, cl);
    w_int(&mut e, received);
    w_int(&mut e, blockfor);
    e.push(data_present as u8);
    act_error(0x1200, "read timeout", &e)
}

/// A current-thread runtime for one case; dropped (with every task of the session and of the cluster) at its end.
pub fn runtime(threads: usize) -> tokio::runtime::Runtime {
    if threads <= 1 {
        tokio::runtime::Builder::new_current_thread().enable_all().build().unwrap()
    } else {
        tokio::runtime::Builder::new_multi_thread().worker_threads(threads).enable_all().build().unwrap()
    }
}

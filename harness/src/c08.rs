//! C08 — decoding any bytes from the network returns a value or an error, never a crash.
//! Run side: the REAL decoding pipeline on one case, canonical output line, model-independent oracle
//! (panic, hang, allocation out of proportion, well-formed frame decodes to what was encoded).
//! Generation side: `c08gen.rs`.
use crate::c08alloc;
use crate::util::{hex, unhex};
use crate::Ctx;
use bytes::Bytes;
use scylla_cql::deserialize::row::ColumnIterator;
use scylla_cql::frame::frame_errors::*;
use scylla_cql::frame::protocol_features::ProtocolFeatures;
use scylla_cql::frame::request::query::PagingStateResponse;
use scylla_cql::frame::response::error::{DbError, OperationType, WriteType};
use scylla_cql::frame::response::event::{
    ClientRoutesChangeEvent, EventV2, SchemaChangeEvent, SchemaChangeType, StatusChangeEvent, TopologyChangeEvent,
};
use scylla_cql::frame::response::result::{
    self, CollectionType, ColumnSpec, ColumnType, NativeType, ResultMetadata, ResultMetadataHolder,
};
use scylla_cql::frame::response::{ResponseOpcode, ResponseV2};
use scylla_cql::frame::{self, Compression};
use scylla_cql::value::{CqlValue, Row};
use std::collections::HashMap;
use std::net::SocketAddr;
use std::sync::{Arc, OnceLock};

pub use crate::c08gen::generate;

pub const ZERO_COL_ROW_CAP: usize = 1000;
/// A decode that has not finished after this long is a hang.  (Every legitimate case takes milliseconds; the margin
/// absorbs scheduling starvation when the machine is saturated by parallel checks and builds.)
const HANG_TIMEOUT_S: u64 = 30;

pub fn fnv(s: &str) -> u64 {
    let mut h: u64 = 0xcbf29ce484222325;
    for b in s.as_bytes() {
        h ^= *b as u64;
        h = h.wrapping_mul(0x100000001b3);
    }
    h
}

pub fn lst(xs: &[String]) -> String {
    format!("[{}]", xs.join(";"))
}
pub fn tup(xs: &[String]) -> String {
    format!("({})", xs.join(","))
}
pub fn opt_hex(o: Option<&[u8]>) -> String {
    match o {
        None => "none".into(),
        Some(b) => hex(b),
    }
}
/// HashMap semantics (last value wins), printed sorted by key.
pub fn canon_map(kvs: &[(String, String)]) -> String {
    let mut m: Vec<(String, String)> = Vec::new();
    for (k, v) in kvs {
        m.retain(|p| &p.0 != k);
        m.push((k.clone(), v.clone()));
    }
    m.sort();
    format!("{{{}}}", m.iter().map(|(k, v)| format!("{}={}", k, v)).collect::<Vec<_>>().join(";"))
}

// ---------------------------------------------------------------------------------------------
// error kinds
// ---------------------------------------------------------------------------------------------

fn ll(e: &LowLevelDeserializationError) -> &'static str {
    match e {
        LowLevelDeserializationError::IoError(_) => "eof",
        LowLevelDeserializationError::TryFromIntError(_) => "negint",
        LowLevelDeserializationError::TryFromSliceError(_) => "slice",
        LowLevelDeserializationError::TooFewBytesReceived { .. } => "few",
        LowLevelDeserializationError::InvalidValueLength(_) => "valuelen",
        LowLevelDeserializationError::UnknownConsistency(_) => "consistency",
        LowLevelDeserializationError::InvalidInetLength(_) => "inetlen",
        LowLevelDeserializationError::UTF8DeserializationError(_) => "utf8",
        _ => "ll?",
    }
}

fn ct_err(e: &CustomTypeParseError) -> String {
    match e {
        CustomTypeParseError::UnknownSimpleCustomTypeName(_) => "unksimple".into(),
        CustomTypeParseError::UnknownComplexCustomTypeName(_) => "unkcomplex".into(),
        CustomTypeParseError::UnexpectedCharacter(_, _) => "unexpchar".into(),
        CustomTypeParseError::IntegerParseError(_) => "int".into(),
        CustomTypeParseError::UnexpectedEndOfInput => "eof".into(),
        CustomTypeParseError::BadHexString(_) => "badhex".into(),
        CustomTypeParseError::InvalidUtf8(_) => "utf8".into(),
        CustomTypeParseError::InvalidParameterCount { actual, expected } => format!("paramcount:{}:{}", actual, expected),
        CustomTypeParseError::NestingTooDeep(_) => "depth".into(),
        CustomTypeParseError::ZeroVectorDimensions => "zerodim".into(),
        _ => "ct?".into(),
    }
}

fn type_err(e: &CqlTypeParseError) -> String {
    match e {
        CqlTypeParseError::TypeIdParseError(l) => format!("type.id.{}", ll(l)),
        CqlTypeParseError::CustomTypeNameParseError(l) => format!("type.customname.{}", ll(l)),
        CqlTypeParseError::UdtKeyspaceNameParseError(l) => format!("type.udtks.{}", ll(l)),
        CqlTypeParseError::UdtNameParseError(l) => format!("type.udtname.{}", ll(l)),
        CqlTypeParseError::UdtFieldsCountParseError(l) => format!("type.udtcount.{}", ll(l)),
        CqlTypeParseError::UdtFieldNameParseError(l) => format!("type.udtfield.{}", ll(l)),
        CqlTypeParseError::TupleLengthParseError(l) => format!("type.tuplelen.{}", ll(l)),
        CqlTypeParseError::TypeNotImplemented(_) => "type.unknownid".into(),
        CqlTypeParseError::CustomTypeParseError(c) => format!("type.ct.{}", ct_err(c)),
        CqlTypeParseError::NestingTooDeep(_) => "type.depth".into(),
        _ => "type?".into(),
    }
}

fn tspec_err(e: &TableSpecParseError) -> String {
    match e {
        TableSpecParseError::MalformedKeyspaceName(l) => format!("ks.{}", ll(l)),
        TableSpecParseError::MalformedTableName(l) => format!("table.{}", ll(l)),
        _ => "tspec?".into(),
    }
}

fn col_err(e: &ColumnSpecParseError) -> String {
    match &e.kind {
        ColumnSpecParseErrorKind::TableSpecParseError(t) => format!("col.{}", tspec_err(t)),
        ColumnSpecParseErrorKind::ColumnNameParseError(l) => format!("col.name.{}", ll(l)),
        ColumnSpecParseErrorKind::ColumnTypeParseError(t) => format!("col.{}", type_err(t)),
        _ => "col?".into(),
    }
}

fn rmeta_err(e: &ResultMetadataParseError) -> String {
    match e {
        ResultMetadataParseError::FlagsParseError(l) => format!("flags.{}", ll(l)),
        ResultMetadataParseError::ColumnCountParseError(l) => format!("colcount.{}", ll(l)),
        ResultMetadataParseError::PagingStateParseError(l) => format!("paging.{}", ll(l)),
        ResultMetadataParseError::NewMetadataIdParseError(l) => format!("newid.{}", ll(l)),
        ResultMetadataParseError::GlobalTableSpecParseError(t) => format!("gts.{}", tspec_err(t)),
        ResultMetadataParseError::ColumnSpecParseError(c) => col_err(c),
        ResultMetadataParseError::IdPresentForEmptyMetadata => "idnometa".into(),
        _ => "rmeta?".into(),
    }
}

fn pmeta_err(e: &PreparedMetadataParseError) -> String {
    match e {
        PreparedMetadataParseError::FlagsParseError(l) => format!("flags.{}", ll(l)),
        PreparedMetadataParseError::ColumnCountParseError(l) => format!("colcount.{}", ll(l)),
        PreparedMetadataParseError::PkCountParseError(l) => format!("pkcount.{}", ll(l)),
        PreparedMetadataParseError::PkIndexParseError(l) => format!("pkindex.{}", ll(l)),
        PreparedMetadataParseError::GlobalTableSpecParseError(t) => format!("gts.{}", tspec_err(t)),
        PreparedMetadataParseError::ColumnSpecParseError(c) => col_err(c),
        _ => "pmeta?".into(),
    }
}

fn schema_err(e: &SchemaChangeEventParseError) -> String {
    match e {
        SchemaChangeEventParseError::TypeOfChangeParseError(l) => format!("schema.change.{}", ll(l)),
        SchemaChangeEventParseError::TargetTypeParseError(l) => format!("schema.target.{}", ll(l)),
        SchemaChangeEventParseError::AffectedKeyspaceParseError(l) => format!("schema.ks.{}", ll(l)),
        SchemaChangeEventParseError::AffectedTableNameParseError(l) => format!("schema.tablename.{}", ll(l)),
        SchemaChangeEventParseError::AffectedTargetNameParseError(l) => format!("schema.name.{}", ll(l)),
        SchemaChangeEventParseError::ArgumentCountParseError(l) => format!("schema.argcount.{}", ll(l)),
        SchemaChangeEventParseError::FunctionArgumentParseError(l) => format!("schema.arg.{}", ll(l)),
        SchemaChangeEventParseError::UnknownTargetOfSchemaChange(_) => "schema.unknowntarget".into(),
        _ => "schema?".into(),
    }
}

fn cluster_err(p: &str, e: &ClusterChangeEventParseError) -> String {
    match e {
        ClusterChangeEventParseError::TypeOfChangeParseError(l) => format!("{}.change.{}", p, ll(l)),
        ClusterChangeEventParseError::NodeAddressParseError(l) => format!("{}.addr.{}", p, ll(l)),
        ClusterChangeEventParseError::UnknownTypeOfChange(_) => format!("{}.unknownchange", p),
        _ => format!("{}?", p),
    }
}

fn routes_err(e: &ClientRoutesChangeEventParseError) -> String {
    match e {
        ClientRoutesChangeEventParseError::TypeOfChangeParseError(l) => format!("routes.change.{}", ll(l)),
        ClientRoutesChangeEventParseError::UnknownTypeOfChange(_) => "routes.unknownchange".into(),
        ClientRoutesChangeEventParseError::ConnectionIdsParseError(l) => format!("routes.connids.{}", ll(l)),
        ClientRoutesChangeEventParseError::HostIdsParseError(l) => format!("routes.hostids.{}", ll(l)),
        ClientRoutesChangeEventParseError::HostIdsUuidParseError(_) => "routes.uuid".into(),
        ClientRoutesChangeEventParseError::ConnectionHostIdsLengthMismatch { .. } => "routes.lenmismatch".into(),
        _ => "routes?".into(),
    }
}

fn event_err(e: &CqlEventParseError) -> String {
    match e {
        CqlEventParseError::EventTypeParseError(l) => format!("event.type.{}", ll(l)),
        CqlEventParseError::UnknownEventType(_) => "event.unknowntype".into(),
        CqlEventParseError::SchemaChangeEventParseError(s) => schema_err(s),
        CqlEventParseError::TopologyChangeEventParseError(c) => cluster_err("topo", c),
        CqlEventParseError::StatusChangeEventParseError(c) => cluster_err("status", c),
        CqlEventParseError::ClientRoutesChangeEventParseError(r) => routes_err(r),
        _ => "event?".into(),
    }
}

fn result_err(e: &CqlResultParseError) -> String {
    match e {
        CqlResultParseError::ResultIdParseError(l) => format!("result.kind.{}", ll(l)),
        CqlResultParseError::UnknownResultId(_) => "result.unknownkind".into(),
        CqlResultParseError::SetKeyspaceParseError(SetKeyspaceParseError::MalformedKeyspaceName(l)) => {
            format!("setks.{}", ll(l))
        }
        CqlResultParseError::SchemaChangeParseError(s) => schema_err(s),
        CqlResultParseError::PreparedParseError(p) => match p {
            PreparedParseError::IdLengthParseError(l) => format!("prep.idlen.{}", ll(l)),
            PreparedParseError::IdParseError(l) => format!("prep.id.{}", ll(l)),
            PreparedParseError::ResultMetadataIdParseError(l) => format!("prep.rmid.{}", ll(l)),
            PreparedParseError::ResultMetadataParseError(r) => format!("prep.rm.{}", rmeta_err(r)),
            PreparedParseError::PreparedMetadataParseError(m) => format!("prep.pm.{}", pmeta_err(m)),
            PreparedParseError::NonZeroPagingState(_) => "prep.nonzeropaging".into(),
            _ => "prep?".into(),
        },
        CqlResultParseError::RawRowsParseError(r) => match r {
            RawRowsAndPagingStateResponseParseError::FlagsParseError(l) => format!("rows.flags.{}", ll(l)),
            RawRowsAndPagingStateResponseParseError::ColumnCountParseError(l) => format!("rows.colcount.{}", ll(l)),
            RawRowsAndPagingStateResponseParseError::PagingStateParseError(l) => format!("rows.paging.{}", ll(l)),
            RawRowsAndPagingStateResponseParseError::IdPresentForEmptyMetadata => "rows.idnometa".into(),
            _ => "rows?".into(),
        },
        CqlResultParseError::ResultMetadataParseError(m) => dm_err(m),
        _ => "result?".into(),
    }
}

fn dm_err(e: &ResultMetadataAndRowsCountParseError) -> String {
    match e {
        ResultMetadataAndRowsCountParseError::ResultMetadataParseError(r) => format!("meta.{}", rmeta_err(r)),
        ResultMetadataAndRowsCountParseError::RowsCountParseError(l) => format!("rowscount.{}", ll(l)),
        _ => "dm?".into(),
    }
}

fn response_err(e: &CqlResponseParseError) -> String {
    match e {
        CqlResponseParseError::CqlErrorParseError(e) => match e {
            CqlErrorParseError::ErrorCodeParseError(l) => format!("error.code.{}", ll(l)),
            CqlErrorParseError::ReasonParseError(l) => format!("error.reason.{}", ll(l)),
            CqlErrorParseError::MalformedErrorField { err, .. } => format!("error.field.{}", ll(err)),
            _ => "error?".into(),
        },
        CqlResponseParseError::CqlAuthChallengeParseError(CqlAuthChallengeParseError::AuthMessageParseError(l)) => {
            format!("authchallenge.{}", ll(l))
        }
        CqlResponseParseError::CqlAuthSuccessParseError(CqlAuthSuccessParseError::SuccessMessageParseError(l)) => {
            format!("authsuccess.{}", ll(l))
        }
        CqlResponseParseError::CqlAuthenticateParseError(CqlAuthenticateParseError::AuthNameParseError(l)) => {
            format!("authenticate.{}", ll(l))
        }
        CqlResponseParseError::CqlSupportedParseError(CqlSupportedParseError::OptionsMapDeserialization(l)) => {
            format!("supported.{}", ll(l))
        }
        CqlResponseParseError::CqlEventParseError(e) => event_err(e),
        CqlResponseParseError::CqlResultParseError(r) => result_err(r),
        _ => "response?".into(),
    }
}

// ---------------------------------------------------------------------------------------------
// canonical printing of decoded values
// ---------------------------------------------------------------------------------------------

fn native_name(n: &NativeType) -> &'static str {
    match n {
        NativeType::Ascii => "ascii",
        NativeType::BigInt => "bigint",
        NativeType::Blob => "blob",
        NativeType::Boolean => "boolean",
        NativeType::Counter => "counter",
        NativeType::Decimal => "decimal",
        NativeType::Double => "double",
        NativeType::Float => "float",
        NativeType::Int => "int",
        NativeType::Timestamp => "timestamp",
        NativeType::Uuid => "uuid",
        NativeType::Text => "text",
        NativeType::Varint => "varint",
        NativeType::Timeuuid => "timeuuid",
        NativeType::Inet => "inet",
        NativeType::Date => "date",
        NativeType::Time => "time",
        NativeType::SmallInt => "smallint",
        NativeType::TinyInt => "tinyint",
        NativeType::Duration => "duration",
        _ => "native?",
    }
}

pub fn ty_str(t: &ColumnType) -> String {
    match t {
        ColumnType::Native(n) => native_name(n).to_owned(),
        ColumnType::Collection { frozen, typ } => {
            let f = if *frozen { "f" } else { "" };
            match typ {
                CollectionType::List(e) => format!("{}list<{}>", f, ty_str(e)),
                CollectionType::Set(e) => format!("{}set<{}>", f, ty_str(e)),
                CollectionType::Map(k, v) => format!("{}map<{},{}>", f, ty_str(k), ty_str(v)),
                _ => "collection?".into(),
            }
        }
        ColumnType::Vector { typ, dimensions } => format!("vector<{},{}>", ty_str(typ), dimensions),
        ColumnType::UserDefinedType { frozen, definition } => format!(
            "{}udt({},{}){{{}}}",
            if *frozen { "f" } else { "" },
            hex(definition.keyspace.as_bytes()),
            hex(definition.name.as_bytes()),
            definition.field_types.iter().map(|(n, t)| format!("{}:{}", hex(n.as_bytes()), ty_str(t))).collect::<Vec<_>>().join(",")
        ),
        ColumnType::Tuple(ts) => format!("tuple<{}>", ts.iter().map(ty_str).collect::<Vec<_>>().join(",")),
        _ => "type?".into(),
    }
}

fn col_str(c: &ColumnSpec) -> String {
    format!(
        "{}.{}.{}:{}",
        hex(c.table_spec().ks_name().as_bytes()),
        hex(c.table_spec().table_name().as_bytes()),
        hex(c.name().as_bytes()),
        ty_str(c.typ())
    )
}

fn meta_str(m: &ResultMetadata) -> String {
    format!(
        "meta{{id={} cc={} cols={}}}",
        opt_hex(m.id()),
        m.col_count(),
        lst(&m.col_specs().iter().map(col_str).collect::<Vec<_>>())
    )
}

fn addr_str(a: &SocketAddr) -> String {
    match a.ip() {
        std::net::IpAddr::V4(v) => format!("{}:{}", hex(&v.octets()), a.port()),
        std::net::IpAddr::V6(v) => format!("{}:{}", hex(&v.octets()), a.port()),
    }
}

fn hexs(s: &str) -> String {
    hex(s.as_bytes())
}

fn write_type_str(w: &WriteType) -> String {
    let s: &str = match w {
        WriteType::Simple => "SIMPLE",
        WriteType::Batch => "BATCH",
        WriteType::UnloggedBatch => "UNLOGGED_BATCH",
        WriteType::Counter => "COUNTER",
        WriteType::BatchLog => "BATCH_LOG",
        WriteType::Cas => "CAS",
        WriteType::View => "VIEW",
        WriteType::Cdc => "CDC",
        WriteType::Other(s) => s.as_str(),
    };
    hexs(s)
}

fn b01(b: bool) -> String {
    if b { "1".into() } else { "0".into() }
}

fn db_error_str(e: &DbError) -> (String, Vec<String>) {
    let c = |c: &scylla_cql::Consistency| (*c as u16).to_string();
    let (n, f): (&str, Vec<String>) = match e {
        DbError::SyntaxError => ("SyntaxError", vec![]),
        DbError::Invalid => ("Invalid", vec![]),
        DbError::AlreadyExists { keyspace, table } => ("AlreadyExists", vec![hexs(keyspace), hexs(table)]),
        DbError::FunctionFailure { keyspace, function, arg_types } => (
            "FunctionFailure",
            vec![hexs(keyspace), hexs(function), tup(&arg_types.iter().map(|s| hexs(s)).collect::<Vec<_>>())],
        ),
        DbError::AuthenticationError => ("AuthenticationError", vec![]),
        DbError::Unauthorized => ("Unauthorized", vec![]),
        DbError::ConfigError => ("ConfigError", vec![]),
        DbError::Unavailable { consistency, required, alive } => {
            ("Unavailable", vec![c(consistency), required.to_string(), alive.to_string()])
        }
        DbError::Overloaded => ("Overloaded", vec![]),
        DbError::IsBootstrapping => ("IsBootstrapping", vec![]),
        DbError::TruncateError => ("TruncateError", vec![]),
        DbError::ReadTimeout { consistency, received, required, data_present } => {
            ("ReadTimeout", vec![c(consistency), received.to_string(), required.to_string(), b01(*data_present)])
        }
        DbError::WriteTimeout { consistency, received, required, write_type } => {
            ("WriteTimeout", vec![c(consistency), received.to_string(), required.to_string(), write_type_str(write_type)])
        }
        DbError::ReadFailure { consistency, received, required, numfailures, data_present } => (
            "ReadFailure",
            vec![c(consistency), received.to_string(), required.to_string(), numfailures.to_string(), b01(*data_present)],
        ),
        DbError::WriteFailure { consistency, received, required, numfailures, write_type } => (
            "WriteFailure",
            vec![c(consistency), received.to_string(), required.to_string(), numfailures.to_string(), write_type_str(write_type)],
        ),
        DbError::Unprepared { statement_id } => ("Unprepared", vec![hex(statement_id)]),
        DbError::ServerError => ("ServerError", vec![]),
        DbError::ProtocolError => ("ProtocolError", vec![]),
        DbError::RateLimitReached { op_type, rejected_by_coordinator } => (
            "RateLimitReached",
            vec![
                match op_type {
                    OperationType::Read => "0".to_owned(),
                    OperationType::Write => "1".to_owned(),
                    OperationType::Other(n) => n.to_string(),
                },
                b01(*rejected_by_coordinator),
            ],
        ),
        DbError::Other(_) => ("Other", vec![]),
        _ => ("DbError?", vec![]),
    };
    (n.to_owned(), f)
}

fn schema_str(e: &SchemaChangeEvent) -> String {
    let ct = |c: &SchemaChangeType| match c {
        SchemaChangeType::Created => "C",
        SchemaChangeType::Updated => "U",
        SchemaChangeType::Dropped => "D",
        SchemaChangeType::Invalid => "I",
    };
    let args = |a: &Vec<String>| lst(&a.iter().map(|s| hexs(s)).collect::<Vec<_>>());
    match e {
        SchemaChangeEvent::KeyspaceChange { change_type, keyspace_name } => {
            format!("{} KEYSPACE {}", ct(change_type), hexs(keyspace_name))
        }
        SchemaChangeEvent::TableChange { change_type, keyspace_name, object_name } => {
            format!("{} TABLE {} {}", ct(change_type), hexs(keyspace_name), hexs(object_name))
        }
        SchemaChangeEvent::TypeChange { change_type, keyspace_name, type_name } => {
            format!("{} TYPE {} {}", ct(change_type), hexs(keyspace_name), hexs(type_name))
        }
        SchemaChangeEvent::FunctionChange { change_type, keyspace_name, function_name, arguments } => {
            format!("{} FUNCTION {} {} {}", ct(change_type), hexs(keyspace_name), hexs(function_name), args(arguments))
        }
        SchemaChangeEvent::AggregateChange { change_type, keyspace_name, aggregate_name, arguments } => {
            format!("{} AGGREGATE {} {} {}", ct(change_type), hexs(keyspace_name), hexs(aggregate_name), args(arguments))
        }
    }
}

fn event_str(e: &EventV2) -> String {
    match e {
        EventV2::TopologyChange(TopologyChangeEvent::NewNode(a)) => format!("TOPO {} {}", hexs("NEW_NODE"), addr_str(a)),
        EventV2::TopologyChange(TopologyChangeEvent::RemovedNode(a)) => {
            format!("TOPO {} {}", hexs("REMOVED_NODE"), addr_str(a))
        }
        EventV2::StatusChange(StatusChangeEvent::Up(a)) => format!("STATUS {} {}", hexs("UP"), addr_str(a)),
        EventV2::StatusChange(StatusChangeEvent::Down(a)) => format!("STATUS {} {}", hexs("DOWN"), addr_str(a)),
        EventV2::SchemaChange(s) => format!("SCHEMA {}", schema_str(s)),
        EventV2::ClientRoutesChange(ClientRoutesChangeEvent::UpdateNodes { connection_ids, host_ids }) => format!(
            "ROUTES {} {}",
            lst(&connection_ids.iter().map(|s| hexs(s)).collect::<Vec<_>>()),
            lst(&host_ids.iter().map(|u| hex(u.as_bytes())).collect::<Vec<_>>())
        ),
        _ => "EVENT?".into(),
    }
}

fn paging_str(p: &PagingStateResponse) -> String {
    match p {
        PagingStateResponse::NoMorePages => "none".into(),
        PagingStateResponse::HasMorePages { state } => match state.as_bytes_slice() {
            Some(b) => hex(b),
            None => "start".into(),
        },
    }
}

/// Second stage of a Rows result: metadata, rows count, raw cells; then the typed decoders (not printed).
fn rows_stage(raw: result::RawMetadataAndRawRows) -> String {
    let no_meta = raw.no_metadata();
    let dm = match raw.deserialize_metadata() {
        Ok(d) => d,
        Err(e) => return format!("err {}", dm_err(&e)),
    };
    let src = match dm.clone().into_metadata() {
        ResultMetadataHolder::SharedCached(_) => "cached",
        ResultMetadataHolder::SelfBorrowed(_) => {
            if no_meta { "empty" } else { "parsed" }
        }
    };
    let ncols = dm.metadata().col_specs().len();
    let mut rows: Vec<String> = Vec::new();
    let mut nrows = 0usize;
    let mut rowerr = String::new();
    let cap = if ncols == 0 { ZERO_COL_ROW_CAP } else { usize::MAX };
    match dm.rows_iter::<ColumnIterator>() {
        Err(_) => rowerr = " rowerr=typecheck".into(),
        Ok(it) => {
            for (ridx, r) in it.enumerate() {
                if nrows >= cap {
                    break;
                }
                let mut cells: Vec<String> = Vec::new();
                let mut failed: Option<(usize, String)> = None;
                match r {
                    Err(e) => failed = Some(row_err_pos(&e)),
                    Ok(cols) => {
                        for (cidx, c) in cols.enumerate() {
                            match c {
                                Ok(rc) => cells.push(match rc.slice {
                                    None => "null".into(),
                                    Some(s) => hex(s.as_slice()),
                                }),
                                Err(e) => {
                                    failed = Some((cidx, row_err_pos(&e).1));
                                    break;
                                }
                            }
                        }
                    }
                }
                if let Some((c, k)) = failed {
                    rowerr = format!(" rowerr={}:{}:{}", ridx, c, k);
                    break;
                }
                nrows += 1;
                if ncols > 0 {
                    rows.push(tup(&cells));
                }
            }
        }
    }
    // typed decoding into `Row` (dynamic `CqlValue`s), consumed until its first error: rows decoded, the kind of the
    // error, and a hash of the decoded values (C01's canonical value text) — all compared with the model
    let typed = {
        let mut n = 0usize;
        let mut failed: Option<String> = None;
        let mut text = String::new();
        if let Ok(it) = dm.rows_iter::<Row>() {
            for r in it {
                if n >= cap {
                    break;
                }
                match r {
                    Err(e) => {
                        failed = Some(row_typed_err_kind(&e));
                        break;
                    }
                    Ok(row) => {
                        let cells: Vec<String> = row
                            .columns
                            .iter()
                            .map(|c| match c {
                                None => "null".to_owned(),
                                Some(v) => crate::c01::val_str(&crate::c01::from_cql(v)),
                            })
                            .collect();
                        text.push_str(&cells.join(" "));
                        text.push('\n');
                        n += 1;
                    }
                }
            }
        }
        format!(
            " typed={}{} tv={:016x}",
            n,
            failed.map(|k| format!(":err:{}", k)).unwrap_or_default(),
            fnv(&text)
        )
    };
    // `VectorIterator::nth` with boundary arguments on the first row of a single vector column
    let nth_tok = nth_token(&dm);
    // both raw row iterators to the end of the announced rows, also past Err items (the paged path uses the
    // lending one): panic / hang oracle + they must agree
    let _ = both_row_iterators(&dm, cap.min(2000));
    // further typed targets: crash / hang / allocation oracle only
    typed_decoders(&dm, cap);
    let rows_s = if ncols == 0 { format!("rows0={}", nrows) } else { format!("rows={}", lst(&rows)) };
    format!("src={} {} rc={} {}{}{}{}", src, meta_str(dm.metadata()), dm.rows_count(), rows_s, rowerr, typed, nth_tok)
}

/// Kind of the error of one `rows_iter::<Row>()` item: the raw skip of the row failed, or a column's value did.
fn row_typed_err_kind(e: &scylla_cql::deserialize::DeserializationError) -> String {
    use scylla_cql::deserialize::row::{BuiltinDeserializationError, BuiltinDeserializationErrorKind};
    if let Some(b) = e.downcast_ref::<BuiltinDeserializationError>() {
        return match &b.kind {
            BuiltinDeserializationErrorKind::RawColumnDeserializationFailed { .. } => "RawCqlBytesReadError".to_owned(),
            BuiltinDeserializationErrorKind::ColumnDeserializationFailed { err, .. } => crate::c01::de_kind(err),
            _ => "OtherRow".to_owned(),
        };
    }
    crate::c01::de_kind(e)
}

fn row_err_pos(e: &scylla_cql::deserialize::DeserializationError) -> (usize, String) {
    use scylla_cql::deserialize::row::{BuiltinDeserializationError, BuiltinDeserializationErrorKind};
    if let Some(b) = e.downcast_ref::<BuiltinDeserializationError>() {
        if let BuiltinDeserializationErrorKind::RawColumnDeserializationFailed { column_index, err, .. } = &b.kind {
            let k = err.downcast_ref::<LowLevelDeserializationError>().map(ll).unwrap_or("ll?");
            return (*column_index, k.to_owned());
        }
    }
    (usize::MAX, "rowerr?".into())
}

/// One item of a raw row iterator, canonically: the cells of an Ok row, or the failing column and error kind.
fn raw_item_str(r: Result<ColumnIterator<'_, '_>, scylla_cql::deserialize::DeserializationError>) -> String {
    match r {
        Err(e) => {
            let (c, k) = row_err_pos(&e);
            format!("E{}:{}", c, k)
        }
        Ok(cols) => {
            let mut cells: Vec<String> = Vec::new();
            for c in cols {
                match c {
                    Ok(rc) => cells.push(match rc.slice {
                        None => "null".into(),
                        Some(s) => hex(s.as_slice()),
                    }),
                    Err(e) => {
                        cells.push(format!("E{}", row_err_pos(&e).1));
                        break;
                    }
                }
            }
            tup(&cells)
        }
    }
}

/// Every item (also after Err items, at most `cap`) of `RawRowIterator` and of `RawRowLendingIterator` (the paged
/// path) over the same result; oracle: the two sequences are the same.
fn both_row_iterators(dm: &result::DeserializedMetadataAndRawRows, cap: usize) -> (Vec<String>, Vec<String>) {
    let mut plain: Vec<String> = Vec::new();
    if let Ok(it) = dm.rows_iter::<ColumnIterator>() {
        for r in it.take(cap) {
            plain.push(raw_item_str(r));
        }
    }
    let mut lending: Vec<String> = Vec::new();
    let mut li = scylla_cql::deserialize::result::RawRowLendingIterator::new(dm.clone());
    while lending.len() < cap {
        match li.next() {
            None => break,
            Some(r) => lending.push(raw_item_str(r)),
        }
    }
    if plain != lending {
        let i = plain.iter().zip(lending.iter()).position(|(a, b)| a != b).unwrap_or(plain.len().min(lending.len()));
        ORACLE.with(|o| {
            o.borrow_mut().push(format!(
                "RawRowLendingIterator differs from RawRowIterator at item {}: `{}` vs `{}` ({} vs {} items)",
                i,
                lending.get(i).map(|s| &s[..s.len().min(80)]).unwrap_or("-"),
                plain.get(i).map(|s| &s[..s.len().min(80)]).unwrap_or("-"),
                lending.len(),
                plain.len()
            ))
        });
    }
    (plain, lending)
}

fn rle(items: &[String]) -> String {
    let mut out: Vec<(String, usize)> = Vec::new();
    for it in items.iter().filter(|s| s.starts_with('E')) {
        let d = it[1..].to_owned();
        match out.last_mut() {
            Some((last, n)) if *last == d => *n += 1,
            _ => out.push((d, 1)),
        }
    }
    lst(&out.iter().map(|(d, n)| format!("{}*{}", d, n)).collect::<Vec<_>>())
}

pub const NTH_ARGS: [usize; 8] = [0, 1, 2, 3, 9000, 65534, 65535, usize::MAX];

/// ` nth=[n:class:size_hint:class of the following next():hash of both items;…]` for a result whose single column is
/// a vector: `VectorIterator::<CqlValue>::nth(n)` on a fresh iterator over the first row's cell, then `size_hint().0`,
/// then one more `next()`.
fn nth_token(dm: &result::DeserializedMetadataAndRawRows) -> String {
    use scylla_cql::deserialize::value::VectorIterator;
    let specs = dm.metadata().col_specs();
    if specs.len() != 1 || dm.rows_count() == 0 {
        return String::new();
    }
    let ColumnType::Vector { .. } = specs[0].typ() else { return String::new() };
    let Ok(mut it) = dm.rows_iter::<(VectorIterator<CqlValue>,)>() else { return " nth=typecheck".into() };
    fn item(i: Option<Result<CqlValue, scylla_cql::deserialize::DeserializationError>>) -> (&'static str, String) {
        match i {
            None => ("none", "none".to_owned()),
            Some(Err(_)) => ("err", "err".to_owned()),
            Some(Ok(v)) => ("ok", crate::c01::val_str(&crate::c01::from_cql(&v))),
        }
    }
    match it.next() {
        None => String::new(),
        Some(Err(_)) => " nth=rowerr".into(),
        Some(Ok((vi,))) => {
            let mut out: Vec<String> = Vec::new();
            for n in NTH_ARGS {
                let mut c = vi.clone();
                let a = item(c.nth(n));
                let hint = c.size_hint();
                if hint.1 != Some(hint.0) {
                    ORACLE.with(|o| o.borrow_mut().push("VectorIterator::size_hint is not exact".into()));
                }
                let b = item(c.next());
                out.push(format!("{}:{}:{}:{}:{:016x}", n, a.0, hint.0, b.0, fnv(&format!("{}|{}", a.1, b.1))));
            }
            format!(" nth={}", lst(&out))
        }
    }
}

fn consume<T>(it: impl Iterator<Item = Result<T, scylla_cql::deserialize::DeserializationError>>, cap: usize) {
    let mut n = 0usize;
    // typed iterators are polled PAST their errors as well (a consumer may `filter_map(Result::ok)`): at most 8 errors
    let mut errs = 0usize;
    for r in it {
        n += 1;
        if r.is_err() {
            errs += 1;
        }
        if errs >= 8 || n >= cap {
            break;
        }
    }
}

// derive-generated row / UDT targets (scylla-macros: `expect("Typecheck should have prevented…")`, `unreachable!`
// behind the generated type check) under hostile bytes
#[derive(scylla::DeserializeValue, Debug)]
struct C08UdtByName {
    x: Option<i32>,
    y: Option<String>,
}
#[derive(scylla::DeserializeValue, Debug)]
#[scylla(flavor = "enforce_order", skip_name_checks)]
struct C08UdtInOrder {
    x: Option<i32>,
    y: Option<String>,
}
#[derive(scylla::DeserializeValue, Debug)]
#[scylla(forbid_excess_udt_fields)]
struct C08UdtLax {
    y: Option<String>,
    #[scylla(allow_missing)]
    #[scylla(default_when_null)]
    x: i32,
}
#[derive(scylla::DeserializeRow, Debug)]
struct C08RowByName {
    a: Option<i32>,
    b: Option<String>,
}
#[derive(scylla::DeserializeRow, Debug)]
#[scylla(flavor = "enforce_order", skip_name_checks)]
struct C08RowInOrder {
    a: Option<i32>,
    b: Option<String>,
}
#[derive(scylla::DeserializeRow, Debug)]
struct C08RowWithUdt {
    a: Option<i32>,
    u: Option<C08UdtByName>,
}
#[derive(scylla::DeserializeRow, Debug)]
#[scylla(flavor = "enforce_order", skip_name_checks)]
struct C08RowWithUdts {
    a: Option<i32>,
    u: Option<C08UdtInOrder>,
}
#[derive(scylla::DeserializeRow, Debug)]
#[scylla(flavor = "enforce_order", skip_name_checks)]
struct C08RowLaxUdt {
    u: Option<C08UdtLax>,
}

fn typed_decoders(dm: &result::DeserializedMetadataAndRawRows, cap: usize) {
    if let Ok(it) = dm.rows_iter::<Row>() {
        consume(it, cap);
    }
    // developer aid: VERIF_C08_STAT=1 prints to stderr which typed targets passed their type check
    let stat = std::env::var_os("VERIF_C08_STAT").is_some();
    macro_rules! try_t {
        ($t:ty) => {
            if let Ok(it) = dm.rows_iter::<$t>() {
                if stat {
                    eprintln!("typed-target {}", stringify!($t));
                }
                consume(it, cap);
            }
        };
    }
    try_t!(C08RowByName);
    try_t!(C08RowInOrder);
    try_t!(C08RowWithUdt);
    try_t!(C08RowWithUdts);
    try_t!(C08RowLaxUdt);
    try_t!((Option<C08UdtByName>,));
    try_t!((Option<Vec<Option<C08UdtInOrder>>>,));
    try_t!((Option<i32>,));
    try_t!((Option<i64>,));
    try_t!((Option<String>,));
    try_t!((Option<Vec<u8>>,));
    try_t!((Option<i32>, Option<String>));
    try_t!((Option<Vec<Option<i32>>>,));
    try_t!((Option<Vec<Option<String>>>,));
    try_t!((Option<HashMap<i32, Option<String>>>,));
    try_t!((Option<(Option<i32>, Option<String>)>,));
    try_t!((Option<Vec<Vec<i32>>>,));
    try_t!((Option<Vec<Vec<Vec<i32>>>>,));
    try_t!((Option<Vec<Vec<Vec<Vec<i64>>>>>,));
    // ordered / hashed collections (their decode collects from the lazy iterators), carriers of the other natives
    try_t!((Option<std::collections::BTreeMap<i32, Option<String>>>,));
    try_t!((Option<std::collections::BTreeMap<String, i64>>,));
    try_t!((Option<std::collections::BTreeSet<i32>>,));
    try_t!((Option<std::collections::BTreeSet<String>>,));
    try_t!((Option<std::collections::HashSet<i32>>,));
    try_t!((Option<std::collections::HashSet<String>>,));
    try_t!((Option<HashMap<String, Option<i32>>>,));
    try_t!((Option<HashMap<i64, Vec<Option<i32>>>>,));
    try_t!((Option<scylla_cql::value::MaybeEmpty<i32>>,));
    try_t!((Option<scylla_cql::value::MaybeEmpty<i64>>,));
    try_t!((Option<scylla_cql::value::CqlDecimal>,));
    try_t!((Option<scylla_cql::value::CqlVarint>,));
    try_t!((Option<std::net::IpAddr>,));
    try_t!((Option<uuid::Uuid>,));
    try_t!((Option<scylla_cql::value::CqlTimeuuid>,));
    try_t!((Option<scylla_cql::value::CqlTime>,));
    try_t!((Option<scylla_cql::value::CqlDate>,));
    try_t!((Option<scylla_cql::value::CqlTimestamp>,));
    try_t!((Option<scylla_cql::value::CqlDuration>,));
    try_t!((Option<scylla_cql::value::Counter>,));
    try_t!((Option<bool>, Option<f64>));
    try_t!((Option<i8>, Option<i16>, Option<f32>));
    // carriers of the external crates (their decoders do arithmetic on dates / big numbers)
    try_t!((Option<chrono_04::NaiveDate>,));
    try_t!((Option<chrono_04::NaiveTime>,));
    try_t!((Option<chrono_04::DateTime<chrono_04::Utc>>,));
    try_t!((Option<time_03::Date>,));
    try_t!((Option<time_03::Time>,));
    try_t!((Option<time_03::OffsetDateTime>,));
    try_t!((Option<bigdecimal_04::BigDecimal>,));
    try_t!((Option<num_bigint_04::BigInt>,));
    try_t!((Option<num_bigint_03::BigInt>,));
    // the lazy iterators themselves, polled PAST their errors (at most `cap` items per row)
    {
        use scylla_cql::deserialize::value::{ListlikeIterator, MapIterator, UdtIterator, VectorIterator};
        let per_row = cap.min(70_000);
        if let Ok(it) = dm.rows_iter::<(ListlikeIterator<CqlValue>,)>() {
            for r in it.take(cap.min(50)) {
                if let Ok((li,)) = r {
                    let _ = li.size_hint();
                    let mut n = 0usize;
                    for _ in li.take(per_row) {
                        n += 1;
                    }
                    let _ = n;
                }
            }
        }
        if let Ok(it) = dm.rows_iter::<(MapIterator<CqlValue, CqlValue>,)>() {
            for r in it.take(cap.min(50)) {
                if let Ok((mi,)) = r {
                    let _ = mi.size_hint();
                    for _ in mi.take(per_row) {}
                }
            }
        }
        if let Ok(it) = dm.rows_iter::<(VectorIterator<CqlValue>,)>() {
            for r in it.take(cap.min(50)) {
                if let Ok((vi,)) = r {
                    for _ in vi.take(per_row) {}
                }
            }
        }
        if let Ok(it) = dm.rows_iter::<(UdtIterator,)>() {
            for r in it.take(cap.min(50)) {
                if let Ok((ui,)) = r {
                    let _ = ui.size_hint();
                    for (_field, raw) in ui.take(per_row) {
                        let _ = raw.is_ok();
                    }
                }
            }
        }
    }
    try_t!((Option<CqlValue>,));
    try_t!((Option<CqlValue>, Option<CqlValue>));
    try_t!((Option<CqlValue>, Option<CqlValue>, Option<CqlValue>));
}

fn response_str(r: ResponseV2, rl: Option<i32>) -> String {
    match r {
        ResponseV2::Error(e) => {
            let (n, f) = db_error_str(&e.error);
            let code = error_code(&e.error, rl);
            format!("ERROR {} code={} reason={} {}", n, code, hexs(&e.reason), lst(&f))
        }
        ResponseV2::Ready => "READY".into(),
        ResponseV2::Authenticate(a) => format!("AUTHENTICATE {}", hexs(&a.authenticator_name)),
        ResponseV2::AuthSuccess(a) => format!("AUTH_SUCCESS {}", opt_hex(a.success_message.as_deref())),
        ResponseV2::AuthChallenge(a) => format!("AUTH_CHALLENGE {}", opt_hex(a.authenticate_message.as_deref())),
        ResponseV2::Supported(s) => {
            let kvs: Vec<(String, String)> =
                s.options.iter().map(|(k, v)| (hexs(k), tup(&v.iter().map(|x| hexs(x)).collect::<Vec<_>>()))).collect();
            format!("SUPPORTED {}", canon_map(&kvs))
        }
        ResponseV2::Event(e) => format!("EVENT {}", event_str(&e)),
        ResponseV2::Result(res) => match res {
            result::Result::Void => "RESULT VOID".into(),
            result::Result::SetKeyspace(k) => format!("RESULT SETKS {}", hexs(&k.keyspace_name)),
            result::Result::SchemaChange(s) => format!("RESULT SCHEMA {}", schema_str(&s.event)),
            result::Result::Prepared(p) => {
                let mut pk: Vec<(u16, u16)> = p.prepared_metadata.pk_indexes.iter().map(|x| (x.index, x.sequence)).collect();
                // oracle: the code promises pk_indexes sorted by index
                if pk.windows(2).any(|w| w[0].0 > w[1].0) {
                    ORACLE.with(|o| o.borrow_mut().push("prepared pk_indexes not sorted by index".into()));
                }
                pk.sort();
                format!(
                    "RESULT PREPARED id={} pm{{flags={} cc={} pk={} cols={}}} r{}",
                    hex(&p.id),
                    p.prepared_metadata.flags,
                    p.prepared_metadata.col_count,
                    lst(&pk.iter().map(|(i, s)| format!("{}:{}", i, s)).collect::<Vec<_>>()),
                    lst(&p.prepared_metadata.col_specs.iter().map(col_str).collect::<Vec<_>>()),
                    meta_str(&p.result_metadata)
                )
            }
            result::Result::Rows((raw, ps)) => format!("RESULT ROWS ps={} {}", paging_str(&ps), rows_stage(raw)),
        },
        _ => "RESPONSE?".into(),
    }
}

/// The protocol code of a decoded `DbError` (independent of the decoder's own table: from the CQL spec).
fn error_code(e: &DbError, rl: Option<i32>) -> i32 {
    match e {
        DbError::Other(c) => *c,
        DbError::RateLimitReached { .. } => rl.unwrap_or(-1),
        other => other.code(&ProtocolFeatures::default()),
    }
}

thread_local! {
    static ORACLE: std::cell::RefCell<Vec<String>> = const { std::cell::RefCell::new(Vec::new()) };
}

// ---------------------------------------------------------------------------------------------
// the pipeline
// ---------------------------------------------------------------------------------------------

pub struct FrameCase {
    pub features: ProtocolFeatures,
    pub rl: Option<i32>,
    pub cached: bool,
    pub comp: Option<Compression>,
    pub bytes: Vec<u8>,
}

fn cached_metadata() -> Arc<ResultMetadata<'static>> {
    static C: OnceLock<Arc<ResultMetadata<'static>>> = OnceLock::new();
    C.get_or_init(|| {
        // Rows, flags = global table spec, 2 columns ks.t.a int, ks.t.b text, 0 rows
        let mut b: Vec<u8> = vec![];
        b.extend_from_slice(&2i32.to_be_bytes());
        b.extend_from_slice(&1i32.to_be_bytes());
        b.extend_from_slice(&2i32.to_be_bytes());
        for s in ["ks", "t"] {
            b.extend_from_slice(&(s.len() as u16).to_be_bytes());
            b.extend_from_slice(s.as_bytes());
        }
        for (n, id) in [("a", 9u16), ("b", 13u16)] {
            b.extend_from_slice(&(n.len() as u16).to_be_bytes());
            b.extend_from_slice(n.as_bytes());
            b.extend_from_slice(&id.to_be_bytes());
        }
        b.extend_from_slice(&0i32.to_be_bytes());
        let r = result::deserialize_with_features(Bytes::from(b), None, &ProtocolFeatures::default()).unwrap();
        match r.deserialize_metadata().unwrap() {
            result::ResultWithDeserializedMetadata::Rows((dm, _)) => dm.into_metadata().make_owned_arced(),
            _ => unreachable!(),
        }
    })
    .clone()
}

/// Runs the real pipeline; returns (canonical line, oracle messages raised inside).
/// Model-independent oracle of `read_response_frame` (`bs` = everything handed to the reader, `left` = what the
/// reader still holds afterwards): with the header and at least `length` body bytes present it must return exactly
/// those `length` bytes and leave the rest untouched; with fewer it must report ConnectionClosed naming the number of
/// missing bytes and the announced length. Returns the complaints.
fn frame_read_oracle(
    bs: &[u8],
    left: usize,
    r: &Result<(frame::FrameParams, frame::response::ResponseOpcode, Bytes), FrameHeaderParseError>,
) -> Vec<String> {
    let mut out = vec![];
    if bs.len() < 9 {
        if r.is_ok() {
            out.push(format!("frame read: Ok from {} bytes (no complete header)", bs.len()));
        }
        return out;
    }
    let length = u32::from_be_bytes([bs[5], bs[6], bs[7], bs[8]]) as usize;
    let present = bs.len() - 9;
    match r {
        Ok((p, op, body)) => {
            if present < length {
                out.push(format!("frame read: Ok although only {} of the {} announced body bytes were present", present, length));
            } else {
                if body.len() != length {
                    out.push(format!("frame read: body of {} bytes returned, header announced {}", body.len(), length));
                } else if body[..] != bs[9..9 + length] {
                    out.push("frame read: returned body differs from the bytes sent".to_owned());
                }
                if left != present.saturating_sub(length) && body.len() == length {
                    out.push(format!("frame read: {} bytes left in the reader, expected {}", left, present - length));
                }
                if left + body.len() != present {
                    out.push(format!("frame read: consumed {} body bytes but returned {}", present - left, body.len()));
                }
            }
            if bs[0] & 0x80 == 0 || bs[0] & 0x7f != 4 || ![0x00u8, 0x02, 0x03, 0x06, 0x08, 0x0C, 0x0E, 0x10].contains(&bs[4]) {
                out.push(format!("frame read: Ok for the header {} (not a v4 response with a response opcode)", hex(&bs[..9])));
            }
            if p.version != bs[0] || p.flags != bs[1] || p.stream != i16::from_be_bytes([bs[2], bs[3]]) || *op as u8 != bs[4] {
                out.push("frame read: header fields differ from the bytes sent".to_owned());
            }
        }
        Err(FrameHeaderParseError::ConnectionClosed(missing, announced)) => {
            if present >= length {
                out.push(format!("frame read: ConnectionClosed although all {} announced body bytes were present ({} handed over)", length, present));
            } else if *missing != length - present || *announced != length {
                out.push(format!("frame read: ConnectionClosed({}, {}) but {} of {} bytes were missing", missing, announced, length - present, length));
            }
            if left != 0 && present < length {
                out.push(format!("frame read: EOF reported with {} bytes unread", left));
            }
        }
        Err(e) => {
            // header-level refusals must be justified by the header bytes
            let ok = match e {
                FrameHeaderParseError::FrameFromClient => bs[0] & 0x80 == 0,
                FrameHeaderParseError::VersionNotSupported(v) => bs[0] & 0x80 != 0 && bs[0] & 0x7f != 4 && *v == bs[0] & 0x7f,
                // CQL v4 §2.4: the response opcodes
                FrameHeaderParseError::UnknownResponseOpcode(_) => {
                    bs[0] & 0x80 != 0 && bs[0] & 0x7f == 4 && ![0x00u8, 0x02, 0x03, 0x06, 0x08, 0x0C, 0x0E, 0x10].contains(&bs[4])
                }
                _ => false,
            };
            if !ok {
                out.push(format!("frame read: error `{}` not justified by the header {}", hdr_err_kind(e), hex(&bs[..9])));
            }
        }
    }
    out
}

fn pipeline(c: &FrameCase) -> (String, Vec<String>) {
    ORACLE.with(|o| o.borrow_mut().clear());
    let line = pipeline_inner(c);
    (line, ORACLE.with(|o| std::mem::take(&mut *o.borrow_mut())))
}

fn pipeline_inner(c: &FrameCase) -> String {
    let bs = &c.bytes;
    let rt = tokio::runtime::Builder::new_current_thread().build().unwrap();
    let mut reader: &[u8] = &bs[..];
    let read = rt.block_on(frame::read_response_frame(&mut reader));
    for m in frame_read_oracle(bs, reader.len(), &read) {
        ORACLE.with(|o| o.borrow_mut().push(m));
    }
    let (params, opcode, body) = match read {
        Ok(x) => x,
        Err(e) => {
            return format!("err hdr.{}", hdr_err_kind(&e));
        }
    };
    let mut line = format!("h={},{},{}", params.flags, params.stream, opcode as u8);
    let compressed = params.flags & frame::flag::COMPRESSION != 0;
    let ext = match frame::parse_response_body_extensions(params.flags, c.comp, body.clone()) {
        Ok(x) => x,
        Err(e) => {
            let k = match e {
                FrameBodyExtensionsParseError::NoCompressionNegotiated => "ext.nocompression".to_owned(),
                FrameBodyExtensionsParseError::TraceIdParse(l) => {
                    if compressed { line.push_str(&z_token(c, &body)); }
                    format!("ext.trace.{}", ll(&l))
                }
                FrameBodyExtensionsParseError::WarningsListParse(l) => {
                    if compressed { line.push_str(&z_token(c, &body)); }
                    format!("ext.warnings.{}", ll(&l))
                }
                FrameBodyExtensionsParseError::CustomPayloadMapParse(l) => {
                    if compressed { line.push_str(&z_token(c, &body)); }
                    format!("ext.payload.{}", ll(&l))
                }
                FrameBodyExtensionsParseError::SnapDecompressError(_) => "ext.snap".to_owned(),
                FrameBodyExtensionsParseError::Lz4DecompressError(_) => "ext.lz4".to_owned(),
                _ => "ext?".to_owned(),
            };
            return format!("{} err {}", line, k);
        }
    };
    if compressed {
        line.push_str(&z_token(c, &body));
    }
    let payload = match &ext.custom_payload {
        None => "none".to_owned(),
        Some(m) => canon_map(&m.iter().map(|(k, v)| (hexs(k), hex(v))).collect::<Vec<_>>()),
    };
    line.push_str(&format!(
        " t={} w={} p={}",
        opt_hex(ext.trace_id.as_ref().map(|u| &u.as_bytes()[..])),
        lst(&ext.warnings.iter().map(|w| hexs(w)).collect::<Vec<_>>()),
        payload
    ));
    // tablets routing payload (`RawTablet::from_custom_payload`, decoded by the session when the key is present)
    if let Some(map) = &ext.custom_payload {
        let t = match scylla::verif_hooks::tablets::raw_tablet_from_payload(map) {
            None => "none".to_owned(),
            Some(Ok((a, b, reps))) => format!("ok:{}:{}:{}", a, b, reps.len()),
            Some(Err(k)) => format!("err:{}", k),
        };
        line.push_str(&format!(" tab={}", t));
    }
    let cached = if c.cached { Some(cached_metadata()) } else { None };
    // the legacy `Response` enum goes through the same decoders (EVENT without client routes): crash oracle only
    let _ = scylla_cql::frame::response::Response::deserialize(&c.features, opcode, ext.body.clone(), cached.as_ref());
    match ResponseV2::deserialize(&c.features, opcode, ext.body, cached.as_ref()) {
        Err(e) => format!("{} err {}", line, response_err(&e)),
        Ok(r) => format!("{} {}", line, response_str(r, c.rl)),
    }
}

fn hdr_err_kind(e: &FrameHeaderParseError) -> &'static str {
    match e {
        FrameHeaderParseError::HeaderIoError(_) => "io",
        FrameHeaderParseError::FrameFromClient => "fromclient",
        FrameHeaderParseError::FrameFromServer => "fromserver",
        FrameHeaderParseError::VersionNotSupported(_) => "version",
        FrameHeaderParseError::UnknownResponseOpcode(_) => "opcode",
        FrameHeaderParseError::BodyChunkIoError(_, _) => "bodyio",
        FrameHeaderParseError::ConnectionClosed(_, _) => "closed",
        _ => "hdr?",
    }
}

/// ` z=<decompressed body>`: decompression is a parameter of the model, so the harness hands it over.
fn z_token(c: &FrameCase, body: &Bytes) -> String {
    match c.comp.and_then(|comp| frame::decompress(body, comp).ok()) {
        Some(d) => format!(" z={}", hex(&d)),
        None => " z=?".to_owned(),
    }
}

pub fn parse_frame_case(w: &[&str]) -> Option<(FrameCase, String)> {
    // the optional 10th word is the class table of non-ASCII scalars (a parameter of the model only)
    if w.len() != 9 && w.len() != 10 {
        return None;
    }
    let rl: Option<i32> = if w[1] == "-" { None } else { Some(w[1].parse().ok()?) };
    let lwt: Option<u32> = if w[2] == "-" { None } else { Some(w[2].parse().ok()?) };
    let mut features = ProtocolFeatures::default();
    features.rate_limit_error = rl;
    features.lwt_optimization_meta_bit_mask = lwt;
    features.tablets_v1_supported = w[3] == "1";
    features.scylla_metadata_id_supported = w[4] == "1";
    let comp = match w[6] {
        "n" => None,
        "l" => Some(Compression::Lz4),
        "s" => Some(Compression::Snappy),
        _ => return None,
    };
    Some((FrameCase { features, rl, cached: w[5] == "1", comp, bytes: unhex(w[8])? }, w[7].to_owned()))
}

enum Outcome {
    Done(String, Vec<String>, u64, u64),
    Panic(String),
}

/// Canonical line of `map_string_to_cql_type` (through the hook, which returns the `Debug` text of the parsed type or
/// of the error): `ty <Debug text, UDT names in hex>` / `err <1-based position in characters> <reason>`.
fn schema_type_line(text: &str) -> String {
    fn unescape(s: &str) -> Vec<u8> {
        // Debug-escaped string -> its bytes (escapes that can occur: \u{..}, \", \\, \n, \r, \t, \0, \')
        let mut out = String::new();
        let mut it = s.chars().peekable();
        while let Some(c) = it.next() {
            if c != '\\' {
                out.push(c);
                continue;
            }
            match it.next() {
                Some('u') => {
                    let mut h = String::new();
                    it.next(); // {
                    for d in it.by_ref() {
                        if d == '}' {
                            break;
                        }
                        h.push(d);
                    }
                    out.push(u32::from_str_radix(&h, 16).ok().and_then(char::from_u32).unwrap_or('?'));
                }
                Some('n') => out.push('\n'),
                Some('r') => out.push('\r'),
                Some('t') => out.push('\t'),
                Some('0') => out.push('\0'),
                Some(o) => out.push(o),
                None => {}
            }
        }
        out.into_bytes()
    }
    match scylla::verif_hooks::fetching::parse_cql_type_string(text) {
        Ok(dbg) => {
            // UDT names are the only quoted strings; their characters are alphanumeric or one of `. _ $`, so a `"`
            // always delimits
            let mut out = String::from("ty ");
            let mut parts = dbg.split('"');
            let mut inside = false;
            for part in parts.by_ref() {
                if inside {
                    out.push_str(&hex(&unescape(part)));
                } else {
                    out.push_str(&part.replace(' ', ""));
                }
                inside = !inside;
            }
            out
        }
        Err(e) => {
            // `InvalidCqlType { typ: "…", position: N, reason: "…" }`
            let (Some(i), Some(j)) = (e.rfind(", position: "), e.rfind(", reason: \"")) else { return format!("err ? {}", e.len()) };
            let pos = &e[i + 12..j];
            let tail = e[j + 11..].trim_end_matches(" }");
            let reason = String::from_utf8_lossy(&unescape(tail.strip_suffix('"').unwrap_or(tail))).into_owned();
            format!("err {} {}", pos, reason.replace(' ', "_"))
        }
    }
}

/// The tokens every accepted `ShardInfo`'s sharder is asked about (Model/C08Shard.lean PROBE_TOKENS).
const PROBE_TOKENS: [i64; 7] = [i64::MIN, -1, 0, 1, i64::MAX, 0x0123_4567_89ab_cdef, 0xA5A5_A5A5_A5A5_A5A5u64 as i64];

/// What `open_connection` does next with the same option map: `ShardInfo::try_from(&options)`, and what every routed
/// request then does with the result: `Sharder::shard_of`.  `sh=<shard>,<nr>,<msb>,<shards of the probe tokens>` /
/// `sh=err:<label>`.  Oracle: every shard is below the announced shard count (a panic is caught by `guarded`).
fn shard_token(options: &HashMap<String, Vec<String>>, orc: &mut Vec<String>) -> String {
    match scylla::verif_hooks::sharding::shard_info_from_options(options) {
        Err(label) => format!("sh=err:{}", label),
        Ok((shard, nr, msb)) => {
            let Some(count) = std::num::NonZeroU16::new(nr) else {
                orc.push("ShardInfo::try_from accepted nr_shards = 0".to_owned());
                return "sh=zero".to_owned();
            };
            if shard >= nr {
                orc.push(format!("ShardInfo::try_from accepted shard {} of {}", shard, nr));
            }
            let sharder = scylla::routing::Sharder::new(count, msb);
            let shards: Vec<String> = PROBE_TOKENS
                .iter()
                .map(|t| {
                    let s = sharder.shard_of(scylla::routing::Token::new(*t));
                    if s >= nr as u32 {
                        orc.push(format!("shard_of(token {}) = {} with nr_shards = {}, msb_ignore = {}", t, s, nr, msb));
                    }
                    s.to_string()
                })
                .collect();
            format!("sh={},{},{},{}", shard, nr, msb, shards.join("/"))
        }
    }
}

/// Runs `f` on a helper thread with a 2 MiB stack, the allocation counter on, and a watchdog.
fn guarded(f: impl FnOnce() -> (String, Vec<String>) + Send + 'static) -> Option<Outcome> {
    let (tx, rx) = std::sync::mpsc::channel();
    let h = std::thread::Builder::new().stack_size(2 << 20).spawn(move || {
        c08alloc::start();
        let r = std::panic::catch_unwind(std::panic::AssertUnwindSafe(f));
        let (peak, maxreq) = c08alloc::stop();
        let _ = tx.send(match r {
            Ok((line, orc)) => Outcome::Done(line, orc, peak, maxreq),
            Err(e) => Outcome::Panic(
                e.downcast_ref::<String>().cloned().or_else(|| e.downcast_ref::<&str>().map(|s| s.to_string())).unwrap_or_default(),
            ),
        });
    });
    let h = h.expect("spawn");
    match rx.recv_timeout(std::time::Duration::from_secs(HANG_TIMEOUT_S)) {
        Ok(o) => {
            let _ = h.join();
            Some(o)
        }
        Err(_) => None, // the helper thread is leaked
    }
}

fn finish(o: Option<Outcome>, input_len: usize, expect: &str, ctx: &mut Ctx) -> String {
    match o {
        None => {
            ctx.fail(format!("hang: decoding did not finish within {} s", HANG_TIMEOUT_S));
            "HANG".to_owned()
        }
        Some(Outcome::Panic(m)) => {
            ctx.fail(format!("panic: {}", m.replace(['\n', '\t'], " ")));
            "PANIC".to_owned()
        }
        Some(Outcome::Done(line, orc, peak, maxreq)) => {
            for m in orc {
                ctx.fail(m);
            }
            let limit = 64 * input_len as u64 + (16 << 20);
            if peak > limit {
                ctx.fail(format!(
                    "allocation out of proportion: peak {} bytes requested (largest single request {}) for {} input bytes (limit {})",
                    peak, maxreq, input_len, limit
                ));
            }
            if expect != "-" {
                let want = u64::from_str_radix(expect, 16).unwrap_or(0);
                // the typed-decoding token is not part of what the independent encoder predicts
                let predicted: String = line.split(' ').filter(|w| !w.starts_with("typed=") && !w.starts_with("tv=") && !w.starts_with("tab=") && !w.starts_with("nth=")).collect::<Vec<_>>().join(" ");
                if fnv(&predicted) != want {
                    ctx.fail(format!("well-formed frame did not decode to what was encoded: got `{}`", &line[..line.len().min(300)]));
                }
            }
            line
        }
    }
}

pub fn run(case: &str, ctx: &mut Ctx) -> String {
    let w: Vec<&str> = case.split_whitespace().collect();
    match w.first().copied() {
        Some("f") => {
            let Some((fc, expect)) = parse_frame_case(&w) else { return "bad-case".into() };
            let n = fc.bytes.len();
            let o = guarded(move || pipeline(&fc));
            finish(o, n, &expect, ctx)
        }
        Some("p") if w.len() == 3 => {
            let Some(bs) = unhex(w[2]) else { return "bad-case".into() };
            let name = w[1].to_owned();
            let n = bs.len();
            let o = guarded(move || (crate::c08gen::run_prim(&name, &bs), vec![]));
            finish(o, n, "-", ctx)
        }
        // `a f <…9 words…>`: developer tool — prints the frame case with its class table appended (for corpus files)
        Some("a") if w.len() == 10 => match unhex(w[9]) {
            Some(bs) => format!("{} {}", w[1..10].join(" "), crate::c08gen::uni_table(&bs)),
            None => "bad-case".into(),
        },
        Some("a") if w.len() == 3 && w[1] == "t" => match if w[2] == "-" { Some(vec![]) } else { unhex(w[2]) } {
            Some(bs) => format!("t {} {}", w[2], crate::c08gen::uni_table(&bs)),
            None => "bad-case".into(),
        },
        // `h <frame hex>`: `read_response_frame` alone, WITHOUT the harness's oversize guard (allocation oracle on)
        Some("h") if w.len() == 2 => {
            let Some(bs) = unhex(w[1]) else { return "bad-case".into() };
            let n = bs.len();
            let o = guarded(move || {
                let rt = tokio::runtime::Builder::new_current_thread().build().unwrap();
                let mut reader: &[u8] = &bs[..];
                let before = c08alloc::peek().1;
                let read = rt.block_on(frame::read_response_frame(&mut reader));
                let orc = frame_read_oracle(&bs, reader.len(), &read);
                let r = match read {
                    Ok((p, op, body)) => format!("hdr ok {},{},{} len={} left={}", p.flags, p.stream, op as u8, body.len(), reader.len()),
                    Err(e) => format!("hdr err {}", hdr_err_kind(&e)),
                };
                // the largest single allocation request made while reading (the body buffer's capacity), compared
                // with the model when it is large enough to stand out from the runtime's own small allocations
                let maxreq = c08alloc::peek().1;
                let cap = if maxreq >= 65536 && maxreq > before { maxreq.to_string() } else { "small".to_owned() };
                (format!("{} cap={}", r, cap), orc)
            });
            finish(o, n, "-", ctx)
        }
        // `t <utf8 hex> [u=table]`: the type strings of the schema tables (`map_string_to_cql_type`, fetching.rs), on the
        // 2 MiB helper thread: a stack overflow kills the process and the runner names this case
        Some("t") if w.len() == 2 || w.len() == 3 => {
            let Some(bs) = (if w[1] == "-" { Some(vec![]) } else { unhex(w[1]) }) else { return "bad-case".into() };
            let Ok(text) = String::from_utf8(bs) else { return "skip not-utf8".into() };
            let n = text.len();
            let o = guarded(move || {
                // long renderings are compared by length + hash
                let l = schema_type_line(&text);
                let l = if l.len() > 1000 { format!("{}… len={} h={:016x}", l.chars().take(200).collect::<String>(), l.len(), fnv(&l)) } else { l };
                (l, vec![])
            });
            finish(o, n, "-", ctx)
        }
        // `s <SUPPORTED body hex>`: `Supported::deserialize`, then `ProtocolFeatures::parse_from_supported` (what every
        // connection negotiates from the option map when it opens)
        Some("s") if w.len() == 2 => {
            let Some(bs) = (if w[1] == "-" { Some(vec![]) } else { unhex(w[1]) }) else { return "bad-case".into() };
            let n = bs.len();
            let o = guarded(move || {
                let mut buf = &bs[..];
                let mut orc: Vec<String> = vec![];
                let line = match scylla_cql::frame::response::Supported::deserialize(&mut buf) {
                    Err(_) => "supported err".to_owned(),
                    Ok(sup) => {
                        let f = ProtocolFeatures::parse_from_supported(&sup.options);
                        format!(
                            "feat rl={} lwt={} tab={} mid={} {}",
                            f.rate_limit_error.map(|x| x.to_string()).unwrap_or("-".into()),
                            f.lwt_optimization_meta_bit_mask.map(|x| x.to_string()).unwrap_or("-".into()),
                            f.tablets_v1_supported as u8,
                            f.scylla_metadata_id_supported as u8,
                            shard_token(&sup.options, &mut orc)
                        )
                    }
                };
                (line, orc)
            });
            finish(o, n, "-", ctx)
        }
        // `r <n> <wire hex|->`: the real connection reader over the bytes, n requests in flight (c08reader.rs)
        Some("r") if w.len() == 3 => {
            let Some((n, wire)) = crate::c08reader::parse_r(&w) else { return "bad-case".into() };
            let len = wire.len();
            let o = guarded(move || crate::c08reader::run_r(n, wire));
            finish(o, len, "-", ctx)
        }
        // `R <n> <lo> <cnt>`: one connection per stream id of the range; `k <n> <lo> <cnt>`: the handler map's lookup
        Some(kind @ ("R" | "k")) if w.len() == 4 => {
            let Some((n, lo, cnt)) = crate::c08reader::parse_args(&w) else { return "bad-case".into() };
            let sweep = kind == "R";
            let o = guarded(move || if sweep { crate::c08reader::run_sweep(n, lo, cnt) } else { crate::c08reader::run_lookups(n, lo, cnt) });
            finish(o, 9 * cnt, "-", ctx)
        }
        // `e <cap> <frame hex>`: the error tail of the row iterator (items yielded after the first failing row)
        Some("e") if w.len() == 3 => {
            let (Ok(cap), Some(bs)) = (w[1].parse::<usize>(), unhex(w[2])) else { return "bad-case".into() };
            let n = bs.len();
            let o = guarded(move || (error_tail(&bs, cap), vec![]));
            finish(o, n, "-", ctx)
        }
        _ => "bad-case".to_owned(),
    }
}

/// Iterates a Rows result WITHOUT stopping at the first error (at most `cap` items): `RawRowIterator` keeps
/// yielding the error of the first failing row for every remaining announced row.
fn error_tail(bs: &[u8], cap: usize) -> String {
    if bs.len() < 9 {
        return "err short".into();
    }
    let r = match result::deserialize_with_features(Bytes::copy_from_slice(&bs[9..]), None, &ProtocolFeatures::default()) {
        Ok(r) => r,
        Err(_) => return "err result".into(),
    };
    let dm = match r.deserialize_metadata() {
        Ok(result::ResultWithDeserializedMetadata::Rows((dm, _))) => dm,
        Ok(_) => return "err notrows".into(),
        Err(_) => return "err meta".into(),
    };
    let (plain, lending) = both_row_iterators(&dm, cap);
    let ok = plain.iter().filter(|s| !s.starts_with('E')).count();
    let lok = lending.iter().filter(|s| !s.starts_with('E')).count();
    format!(
        "tail rc={} ok={} err={} errs={} lend={}:{}:{}",
        dm.rows_count(),
        ok,
        plain.len() - ok,
        rle(&plain),
        lok,
        lending.len() - lok,
        rle(&lending)
    )
}

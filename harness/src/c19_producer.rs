//! C19, producer side: `producer <op>;…` drives a REAL `MetadataWorker::work()` (hook
//! `verif_hooks::cluster_worker::ProducerRig`: real `ControlConnectionEstablisher`, real control connection to a mock
//! node, real `select!` loops `work_on_cc` / `work_without_cc`) deterministically: the mock node holds every full
//! metadata fetch at a gate (its `system.local` rows query) until the case releases it with a verdict.
//!
//! Ops: `q` a refresh request is made (`Cluster::refresh_metadata` up to the send); `o` the fetch in flight succeeds;
//! `e` it fails (on a control connection: the connection is given up and an establishment attempt follows at once; an
//! attempt tries the single node twice - as known peer, then as contact point -, so the first `e` inside an attempt
//! moves on to the second candidate and the second one fails the attempt: the pending request gets the error and the
//! next attempt follows - at once if a request waits, else within the repair interval); `t` the consumer takes the slot and answers every reply channel in it.
//! Output per op: `f=<fetches held at the node> took=<kind>/<reply channels>|- ok=<ids> err=<ids> drop=<ids>`.
//!
//! The harness keeps a REFERENCE of the request protocol written from the property (independent of the Lean model):
//! a request is picked up only when no fetch is running and then starts one; the fetch that succeeds carries exactly
//! the request it was started for into the slot; a failed attempt without a control connection answers it with the
//! error. The reference tells the harness what to WAIT for after each op (so a correct worker always reaches the
//! expected state; a deviating one is printed as it is after 10 s) and is the ORACLE: every request is answered
//! exactly once - `Ok` only by a take of an update whose fetch was STARTED after the request was made, `Err` only by a
//! failed attempt that was started for it -, none is dropped, none is answered by a fetch already in flight when it
//! was made.
use crate::e2e::common::*;
use crate::mockcluster::*;
use crate::rng::Rng;
use crate::{Ctx, Tier};
use scylla::verif_hooks::cluster_worker::ProducerRig;
use std::collections::VecDeque;
use std::time::{Duration, Instant};

const WAIT: Duration = Duration::from_secs(10);

fn ids(xs: &[u64]) -> String {
    if xs.is_empty() { "-".into() } else { xs.iter().map(|x| x.to_string()).collect::<Vec<_>>().join(",") }
}

#[derive(Default)]
struct Reference {
    waiting: VecDeque<u64>,
    pending: Option<u64>,
    fetching: bool,
    on_cc: bool,
    /// candidates left in the running establishment attempt (the single node is tried twice per attempt: as known
    /// peer, then as initial contact point - `establish_cc_and_fetch_metadata`)
    candidates: u8,
    /// requests whose reply channel is in the slot
    slot: Vec<u64>,
    slot_full: bool,
}

impl Reference {
    /// What the worker does on its own once it gets to run.
    fn settle(&mut self) {
        if !self.fetching {
            if let Some(r) = self.waiting.pop_front() {
                self.pending = Some(r);
                self.fetching = true;
                self.candidates = 2;
            } else if !self.on_cc {
                // no control connection: the next establishment attempt comes by itself (repair interval)
                self.fetching = true;
                self.candidates = 2;
            }
        }
    }
}

struct Resolved {
    ok: Vec<u64>,
    err: Vec<u64>,
    dropped: Vec<u64>,
}

/// The `iv=` word of a `producer` case: the worker's `cluster_metadata_refresh_interval`. `max` (Duration::MAX) and
/// `half` (u64::MAX / 2 seconds) overflow `Instant`: they mean "never" (`deadline_after` saturates; before /repo 3ab1ad9
/// it returned `Instant::now()`, the worker fetched back to back and never received a refresh request). The reference
/// behaviour is the SAME for all of them: no periodic fetch falls inside a case.
pub fn interval_of(word: &str) -> Option<Duration> {
    match word {
        "iv=600" => Some(Duration::from_secs(600)),
        "iv=max" => Some(Duration::MAX),
        "iv=half" => Some(Duration::from_secs(u64::MAX / 2)),
        _ => None,
    }
}

pub fn run_producer(body: &str, ctx: &mut Ctx) -> String {
    run_producer_iv(Duration::from_secs(600), body, ctx)
}

pub fn run_producer_iv(refresh_interval: Duration, body: &str, ctx: &mut Ctx) -> String {
    let ops: Vec<&str> = body.split(';').filter(|o| !o.is_empty()).collect();
    if ops.iter().filter(|o| **o == "q").count() > 24 {
        return "bad-case".into();
    }
    let Some(p) = Params::parse(&["n=1"]) else { return "bad-case".into() };
    let Some(shape) = Shape::parse(&p) else { return "bad-case".into() };
    let rt = runtime(2);
    rt.block_on(async {
        let cluster = MockCluster::start(shape.topology(), with_std_prepare(|_| vec![act_void()])).await;
        let mut rig = match ProducerRig::spawn(cluster.addr(0), refresh_interval, Duration::from_secs(600)).await {
            Ok(r) => r,
            Err(_) => return "e2e-skip producer-spawn-failed".to_owned(),
        };
        cluster.set_meta_gate(true);
        let mut rf = Reference { on_cc: true, ..Default::default() };
        let mut out: Vec<String> = Vec::new();
        for (i, op) in ops.iter().enumerate() {
            let mut res = Resolved { ok: vec![], err: vec![], dropped: vec![] };
            let mut expect_ok: Vec<u64> = vec![];
            let mut expect_err: Vec<u64> = vec![];
            let mut took = "-".to_string();
            let mut released = false;
            match *op {
                "q" => match rig.request() {
                    Ok(id) => {
                        rf.waiting.push_back(id);
                        rf.settle();
                    }
                    Err(()) => {
                        ctx.fail(format!("op {}: the refresh request could not be sent (metadata worker gone / channel full)", i));
                        return "request-failed".to_owned();
                    }
                },
                "o" | "e" => {
                    if rf.fetching {
                        cluster.release_meta(*op == "o");
                        released = true;
                        if *op == "o" {
                            if let Some(r) = rf.pending.take() {
                                rf.slot.push(r);
                            }
                            rf.slot_full = true;
                            rf.fetching = false;
                            rf.on_cc = true;
                        } else if rf.on_cc {
                            rf.on_cc = false; // the establishment attempt follows at once: still fetching
                            rf.candidates = 2;
                        } else if rf.candidates > 1 {
                            rf.candidates -= 1; // the attempt goes on with its next candidate
                        } else {
                            expect_err.extend(rf.pending.take());
                            rf.fetching = false;
                        }
                        rf.settle();
                    }
                }
                "t" => {
                    let t0 = Instant::now();
                    loop {
                        if let Some(u) = rig.take() {
                            took = format!("{}/{}", u.kind, u.replies);
                            if !rf.slot_full {
                                ctx.fail(format!("op {}: the slot held an update ({}) although no fetch has succeeded since the last take", i, took));
                            } else if u.replies != rf.slot.len() {
                                ctx.fail(format!(
                                    "op {}: the update taken holds {} reply channel(s); {} request(s) were picked up by fetches started after them and completed since the last take",
                                    i, u.replies, rf.slot.len()
                                ));
                            }
                            expect_ok = std::mem::take(&mut rf.slot);
                            rf.slot_full = false;
                            break;
                        }
                        if !rf.slot_full || t0.elapsed() > WAIT {
                            if rf.slot_full {
                                ctx.fail(format!("op {}: a fetch succeeded but no update reached the slot within 10 s", i));
                                rf.slot_full = false;
                                rf.slot.clear();
                            }
                            break;
                        }
                        tokio::time::sleep(Duration::from_micros(200)).await;
                    }
                }
                _ => return "bad-case".to_owned(),
            }
            // wait for the state the reference expects (a correct worker reaches it; 10 s otherwise)
            let t0 = Instant::now();
            loop {
                let (ok, err, dropped) = rig.poll_refresh();
                res.ok.extend(ok);
                res.err.extend(err);
                res.dropped.extend(dropped);
                let verdict_used = !released || !cluster.meta_verdict_pending();
                let held_ok = cluster.meta_held() == rf.fetching as usize;
                if verdict_used && held_ok && res.ok.len() >= expect_ok.len() && res.err.len() >= expect_err.len() {
                    break;
                }
                if t0.elapsed() > WAIT {
                    break;
                }
                tokio::time::sleep(Duration::from_micros(200)).await;
            }
            // a short grace period: nothing else may happen (e.g. a request answered or dropped out of turn)
            tokio::time::sleep(Duration::from_millis(2)).await;
            let (ok, err, dropped) = rig.poll_refresh();
            res.ok.extend(ok);
            res.err.extend(err);
            res.dropped.extend(dropped);
            let held = cluster.meta_held();
            // ------------------------------------------------------------------ oracle
            if !res.dropped.is_empty() {
                ctx.fail(format!("op {} `{}`: refresh request(s) {:?} dropped unanswered while both workers are alive", i, op, res.dropped));
            }
            if res.ok != expect_ok {
                ctx.fail(format!(
                    "op {} `{}`: requests answered Ok {:?}; expected {:?} (a request is answered Ok exactly when the update of the fetch STARTED for it is applied)",
                    i, op, res.ok, expect_ok
                ));
            }
            if res.err != expect_err {
                ctx.fail(format!("op {} `{}`: requests answered Err {:?}; expected {:?}", i, op, res.err, expect_err));
            }
            if held != rf.fetching as usize {
                ctx.fail(format!(
                    "op {} `{}`: {} metadata fetch(es) in flight at the node; expected {} (a request is picked up, and a fetch started for it, only when none is running)",
                    i, op, held, rf.fetching as usize
                ));
            }
            out.push(format!("f={} took={} ok={} err={} drop={}", held, took, ids(&res.ok), ids(&res.err), ids(&res.dropped)));
            if !ctx.oracle_failures.is_empty() {
                // the worker has left the protocol: every further wait would run into its 10 s bound
                out.push("aborted".into());
                break;
            }
        }
        out.join(";")
    })
}

// ---------------------------------------------------------------------------------------------
// generation
// ---------------------------------------------------------------------------------------------

/// Sequences over {q, o, e, t}; an `e;e` pair (error on the control connection, then failed re-establishment) costs up
/// to the repair interval (1 s) of wall time when no request waits, so it is rationed.
fn random_case(rng: &mut Rng, len: usize, errors: bool) -> String {
    let mut ops: Vec<&str> = Vec::new();
    let mut qs = 0;
    for _ in 0..len {
        let k = rng.below(10);
        ops.push(if k < 4 && qs < 20 {
            qs += 1;
            "q"
        } else if k < 7 {
            "o"
        } else if k < 8 && errors {
            "e"
        } else {
            "t"
        });
    }
    ops.extend(["o", "t", "o", "t"]);
    format!("producer {}", ops.join(";"))
}

pub fn generate(rng: &mut Rng, tier: Tier, emit: &mut dyn FnMut(String)) {
    let quick = tier == Tier::Quick;
    // exhaustive over {q, o, t} (no wall-clock waits), then everything drained
    let depth = if quick { 4 } else { 6 };
    let mut idx = vec![0usize; depth];
    loop {
        let ops: Vec<&str> = idx.iter().map(|i| ["q", "o", "t"][*i]).collect();
        emit(format!("producer {};o;t;o;t", ops.join(";")));
        let mut k = depth;
        loop {
            if k == 0 {
                break;
            }
            k -= 1;
            idx[k] += 1;
            if idx[k] < 3 {
                break;
            }
            idx[k] = 0;
        }
        if idx.iter().all(|i| *i == 0) {
            break;
        }
    }
    // the shapes that matter: requests arriving while a fetch is in flight; errors with and without a control connection
    for c in [
        "producer q;q;o;t;o;t",
        "producer q;q;q;o;o;t;o;t",
        "producer q;e;q;o;t;o;t",
        "producer q;e;e;q;o;t;o;t",
        "producer q;q;e;e;o;t;o;t",
        "producer q;e;q;e;q;o;t;o;t;o;t",
    ] {
        emit(c.to_string());
    }
    for _ in 0..(if quick { 40 } else { 600 }) {
        let len = rng.range(2, 14) as usize;
        emit(random_case(rng, len, false));
    }
    // the refresh interval: 600 s above; here intervals that overflow `Instant` ("never"). Same reference behaviour:
    // a worker that takes "overflow" for "now" fetches back to back and never picks a request up (oracle: `f=`, answers).
    for iv in ["iv=max", "iv=half"] {
        for c in [
            "q;o;t;o;t",
            "q;q;o;t;o;t",
            "o;q;o;t;q;o;t",
            "t;q;o;q;t;o;t",
            "q;e;q;o;t;o;t",
            "q;q;q;o;o;t;o;t",
        ] {
            emit(format!("producer {} {}", iv, c));
        }
    }
    {
        // exhaustive over {q, o, t} to depth 3 under Duration::MAX
        for a in ["q", "o", "t"] {
            for b in ["q", "o", "t"] {
                for c in ["q", "o", "t"] {
                    emit(format!("producer iv=max {};{};{};o;t;o;t", a, b, c));
                }
            }
        }
    }
    for k in 0..(if quick { 16 } else { 200 }) {
        let len = rng.range(2, 12) as usize;
        let c = random_case(rng, len, false);
        emit(c.replacen("producer ", if k % 2 == 0 { "producer iv=max " } else { "producer iv=half " }, 1));
    }
    for _ in 0..(if quick { 6 } else { 60 }) {
        let len = rng.range(3, 10) as usize;
        emit(random_case(rng, len, true));
    }
}

// ---------------------------------------------------------------------------------------------
// estab: re-establishment of the control connection over several candidates
// ---------------------------------------------------------------------------------------------

/// `estab <o0><o1><o2> <rej> <f>`: three mock nodes, all known peers after the initial fetch (host filter: reject
/// datacenter "dcX", which nobody is in at first). Then node `<rej>` (or `-`) is moved into "dcX" - so it is rejected
/// in the metadata it returns itself -, a refresh request is made and the control connection is broken. The real
/// `ControlConnectionEstablisher` now walks the (shuffled) known peers and, if none yields metadata, the contact point
/// (node 0 again); per node the script says `x` stopped (connection refused), `e` the fetch fails, `o` it succeeds;
/// `<f>` is the outcome of node 0's fetch when it is tried as contact point.
/// Output: `order=<nodes whose fetch was seen, in order> took=<kind>/<replies>|- ok= err= drop=`.
/// ORACLE (model-independent): if the fetch of ANY candidate tried succeeded, the metadata reaches the slot and the
/// pending request is answered Ok - never Err; it is answered Err iff no candidate yielded metadata; none is dropped.
pub fn run_estab(script: &str, rej: &str, fallback: &str, ctx: &mut Ctx) -> String {
    let outcomes: Vec<char> = script.chars().collect();
    if outcomes.len() != 3 || outcomes.iter().any(|c| !"oex".contains(*c)) || !(fallback == "o" || fallback == "e") {
        return "bad-case".into();
    }
    let rej: Option<usize> = match rej {
        "-" => None,
        r => match r.parse::<usize>() {
            Ok(k) if k < 3 => Some(k),
            _ => return "bad-case".into(),
        },
    };
    let Some(p) = Params::parse(&["n=3"]) else { return "bad-case".into() };
    let Some(shape) = Shape::parse(&p) else { return "bad-case".into() };
    let rt = runtime(2);
    rt.block_on(async {
        let cluster = MockCluster::start(shape.topology(), with_std_prepare(|_| vec![act_void()])).await;
        let mut rig = match ProducerRig::spawn_filtered(cluster.addr(0), Duration::from_secs(600), Duration::from_secs(600), Some("dcX".to_owned())).await {
            Ok(r) => r,
            Err(_) => return "e2e-skip producer-spawn-failed".to_owned(),
        };
        cluster.set_meta_gate(true);
        cluster.set_meta_fail_reset(true);
        if let Some(k) = rej {
            cluster.set_node_dc(k, "dcX");
        }
        let Ok(id) = rig.request() else { return "request-failed".to_owned() };
        // the fetch for the request is held on the control connection (node 0): break that connection
        let t0 = Instant::now();
        while cluster.meta_held() == 0 {
            if t0.elapsed() > WAIT {
                ctx.fail("no fetch was started for the refresh request within 10 s");
                return "nofetch".to_owned();
            }
            tokio::time::sleep(Duration::from_micros(200)).await;
        }
        // stop the refusing nodes first (node 0 last: stopping it breaks the control connection, which starts the
        // establishment at once), then break the control connection
        for k in [2usize, 1, 0] {
            if outcomes[k] == 'x' {
                cluster.stop_node(k).await;
            }
        }
        if outcomes[0] != 'x' {
            cluster.release_meta(false);
        } else {
            // the held fetch died with node 0's connections: wait until the gate has noticed
            let t0 = Instant::now();
            while cluster.meta_held_node() == Some(0) && t0.elapsed() < WAIT {
                tokio::time::sleep(Duration::from_micros(200)).await;
            }
        }
        // walk the establishment: decide every fetch that shows up at the gate
        let mut order: Vec<usize> = Vec::new();
        let mut any_ok = false;
        let mut took = "-".to_string();
        let (mut ok, mut err, mut dropped): (Vec<u64>, Vec<u64>, Vec<u64>) = (vec![], vec![], vec![]);
        let t0 = Instant::now();
        let mut first_released = outcomes[0] == 'x';
        loop {
            if let Some(u) = rig.take() {
                took = format!("{}/{}", u.kind, u.replies);
            }
            let (o, e, d) = rig.poll_refresh();
            ok.extend(o);
            err.extend(e);
            dropped.extend(d);
            if !ok.is_empty() || !err.is_empty() || !dropped.is_empty() {
                break;
            }
            if t0.elapsed() > WAIT {
                ctx.fail(format!("the refresh request was neither answered nor dropped within 10 s (candidates tried: {:?})", order));
                break;
            }
            if !cluster.meta_verdict_pending() {
                if !first_released {
                    // the verdict that broke the control connection has been consumed
                    first_released = true;
                } else if let Some(node) = cluster.meta_held_node() {
                    let as_contact_point = order.contains(&node);
                    order.push(node);
                    let good = if as_contact_point { fallback == "o" } else { outcomes[node] == 'o' };
                    any_ok |= good;
                    cluster.release_meta(good);
                }
            }
            tokio::time::sleep(Duration::from_micros(200)).await;
        }
        // ------------------------------------------------------------------ oracle
        if !dropped.is_empty() {
            ctx.fail(format!("refresh request {:?} dropped unanswered while both workers are alive", dropped));
        }
        if any_ok {
            if ok != vec![id] || !err.is_empty() {
                ctx.fail(format!(
                    "the metadata fetch succeeded on a candidate (tried in order {:?}, script {}, rejected node {:?}) but the request was answered Ok {:?} / Err {:?}: fetched metadata was thrown away",
                    order, script, rej, ok, err
                ));
            }
        } else if err != vec![id] || !ok.is_empty() {
            ctx.fail(format!("no candidate yielded metadata (order {:?}) but the request was answered Ok {:?} / Err {:?}", order, ok, err));
        }
        format!(
            "order={} took={} ok={} err={} drop={}",
            if order.is_empty() { "-".to_string() } else { order.iter().map(|n| n.to_string()).collect::<Vec<_>>().join(",") },
            took,
            ids(&ok),
            ids(&err),
            ids(&dropped)
        )
    })
}

pub fn generate_estab(tier: Tier, emit: &mut dyn FnMut(String)) {
    // the candidate order is a random shuffle inside the driver: every script is run several times
    let reps = if tier == Tier::Quick { 2 } else { 8 };
    for _ in 0..reps {
        for a in ['o', 'e', 'x'] {
            for b in ['o', 'e', 'x'] {
                for c in ['o', 'e', 'x'] {
                    for rej in ["-", "0", "1", "2"] {
                        for f in ["o", "e"] {
                            // with node 0 stopped the contact point is refused whatever `f` says: one variant is enough
                            if a == 'x' && f == "e" {
                                continue;
                            }
                            emit(format!("estab {}{}{} {} {}", a, b, c, rej, f));
                        }
                    }
                }
            }
        }
    }
}

//! C06 — a request not marked idempotent is never re-sent after it may have been applied.
//!
//! Two case kinds (line protocol, see `lean/ScyllaVerif/Drive/C06.lean`):
//!  * `dec <policy>/<i|n> - <cl>:<err>;…`   one REAL retry session (`policy.new_session()`) is fed the history,
//!    output = the decisions it returns;
//!  * `run <policy>/<i|n> <cl0>/<plan> <outcome>;…`  the REAL `run_request_no_side_effects` (through
//!    `verif_hooks::exec::run_request`) over synthetic targets with a scripted `run_request_once`; the retry
//!    policy is wrapped in a recording policy.  Output = attempt log, decisions, result, sessions created.
//!
//! The oracle is written from the property text only (it never looks at the model's answer).
use crate::rng::Rng;
use crate::{Ctx, Tier};
use scylla::errors::{
    BrokenConnectionErrorKind, CqlErrorParseError, CqlRequestSerializationError, CqlResponseKind,
    CqlResultParseError, DbError, FrameBodyExtensionsParseError, OperationType, RequestAttemptError,
    RequestError, SerializationError, WriteType,
};
use scylla::policies::load_balancing::DefaultPolicy;
use scylla::policies::retry::{
    DefaultRetryPolicy, DowngradingConsistencyRetryPolicy, FallthroughRetryPolicy, RequestInfo,
    RetryDecision, RetryPolicy, RetrySession,
};
use scylla::statement::Consistency;
use scylla::verif_hooks::exec as hooks;
use scylla_cql::frame::frame_errors::BatchSerializationError;
use std::cell::{Cell, RefCell};
use std::sync::{Arc, Mutex};

// ------------------------------------------------------------------------------------------------
// tokens
// ------------------------------------------------------------------------------------------------

const CLS: [(&str, Consistency); 11] = [
    ("any", Consistency::Any),
    ("one", Consistency::One),
    ("two", Consistency::Two),
    ("three", Consistency::Three),
    ("quorum", Consistency::Quorum),
    ("all", Consistency::All),
    ("localquorum", Consistency::LocalQuorum),
    ("eachquorum", Consistency::EachQuorum),
    ("localone", Consistency::LocalOne),
    ("serial", Consistency::Serial),
    ("localserial", Consistency::LocalSerial),
];

fn cl_name(c: Consistency) -> &'static str {
    CLS.iter().find(|(_, x)| *x == c).map(|(n, _)| *n).unwrap_or("?")
}

fn parse_cl(s: &str) -> Option<Consistency> {
    CLS.iter().find(|(n, _)| *n == s).map(|(_, c)| *c)
}

const WTS: [&str; 9] = ["simple", "batch", "unlogged", "counter", "batchlog", "cas", "view", "cdc", "other"];

fn parse_wt(s: &str) -> Option<WriteType> {
    Some(match s {
        "simple" => WriteType::Simple,
        "batch" => WriteType::Batch,
        "unlogged" => WriteType::UnloggedBatch,
        "counter" => WriteType::Counter,
        "batchlog" => WriteType::BatchLog,
        "cas" => WriteType::Cas,
        "view" => WriteType::View,
        "cdc" => WriteType::Cdc,
        "other" => WriteType::Other("VERIF_OTHER".to_owned()),
        _ => return None,
    })
}

fn wt_name(w: &WriteType) -> &'static str {
    match w {
        WriteType::Simple => "simple",
        WriteType::Batch => "batch",
        WriteType::UnloggedBatch => "unlogged",
        WriteType::Counter => "counter",
        WriteType::BatchLog => "batchlog",
        WriteType::Cas => "cas",
        WriteType::View => "view",
        WriteType::Cdc => "cdc",
        WriteType::Other(_) => "other",
    }
}

/// A consistency for the fields of a `DbError` that no policy reads (derived from the token, so replayable).
fn filler_cl(tok: &str) -> Consistency {
    let h: u32 = tok.bytes().map(|b| b as u32).sum();
    CLS[(h % 11) as usize].1
}

fn low_level() -> scylla_cql::frame::frame_errors::LowLevelDeserializationError {
    scylla_cql::frame::frame_errors::LowLevelDeserializationError::TooFewBytesReceived { expected: 4, received: 1 }
}

#[derive(Debug)]
struct HarnessErr;
impl std::fmt::Display for HarnessErr {
    fn fmt(&self, f: &mut std::fmt::Formatter<'_>) -> std::fmt::Result {
        write!(f, "harness")
    }
}
impl std::error::Error for HarnessErr {}

/// Builds the REAL error value named by a case token.
///
/// `<token>#<n>`: the same error with the `n`-th variation of every payload field that no policy reads (the
/// consistency inside the `DbError`, write type / numfailures / data_present of the failure errors, both
/// `rejected_by_coordinator` values and all operation types of `RateLimitReached`, error codes, strings, ids, …).
/// The model drops the selector: a decision that depended on such a field would show up as a disagreement.
fn parse_err(tok: &str) -> Option<RequestAttemptError> {
    let (tok, sel) = match tok.split_once('#') {
        Some((t, n)) => (t, Some(n.parse::<usize>().ok().filter(|n| *n < 1000)?)),
        None => (tok, None),
    };
    let n = sel.unwrap_or(0);
    let filler_cl = |t: &str| match sel {
        Some(n) => CLS[n % 11].1,
        None => filler_cl(t),
    };
    let p: Vec<&str> = tok.split('.').collect();
    let db = |e: DbError| Some(RequestAttemptError::DbError(e, format!("verif {}", tok)));
    let num = |s: &str| s.parse::<i32>().ok();
    match p.as_slice() {
        ["ser"] => Some(RequestAttemptError::SerializationError(SerializationError::new(HarnessErr))),
        ["reqser"] => Some(RequestAttemptError::CqlRequestSerialization(
            CqlRequestSerializationError::BatchSerialization(BatchSerializationError::TooManyStatements(70000)),
        )),
        ["alloc"] => Some(RequestAttemptError::UnableToAllocStreamId),
        ["broken"] => Some(RequestAttemptError::BrokenConnectionError(
            BrokenConnectionErrorKind::TooManyOrphanedStreamIds(5).into(),
        )),
        // every reason a connection can break for (the policies must not look at the reason: a request
        // already written may have been applied whatever broke the connection afterwards)
        ["broken", kind] => {
            let io = |k: std::io::ErrorKind| std::io::Error::new(k, "verif");
            let kind: BrokenConnectionErrorKind = match *kind {
                "write" => BrokenConnectionErrorKind::WriteError(io(std::io::ErrorKind::BrokenPipe)),
                "writereset" => BrokenConnectionErrorKind::WriteError(io(std::io::ErrorKind::ConnectionReset)),
                "header" => BrokenConnectionErrorKind::FrameHeaderParseError(
                    scylla::errors::FrameHeaderParseError::HeaderIoError(io(std::io::ErrorKind::UnexpectedEof)),
                ),
                "fromclient" => BrokenConnectionErrorKind::FrameHeaderParseError(
                    scylla::errors::FrameHeaderParseError::FrameFromClient,
                ),
                "event" => BrokenConnectionErrorKind::CqlEventHandlingError(scylla::errors::CqlEventHandlingError::SendError),
                "stream" => BrokenConnectionErrorKind::UnexpectedStreamId(7),
                "katimeout" => BrokenConnectionErrorKind::KeepaliveTimeout(std::net::IpAddr::from([127, 0, 0, 1])),
                "kareq" => BrokenConnectionErrorKind::KeepaliveRequestError(std::sync::Arc::new(HarnessErr)),
                "orphans" => BrokenConnectionErrorKind::TooManyOrphanedStreamIds(9 + n as u16),
                "channel" => BrokenConnectionErrorKind::ChannelError,
                _ => return None,
            };
            Some(RequestAttemptError::BrokenConnectionError(kind.into()))
        }
        ["bodyext"] => Some(RequestAttemptError::BodyExtensionsParseError(
            FrameBodyExtensionsParseError::NoCompressionNegotiated,
        )),
        ["resparse"] => Some(RequestAttemptError::CqlResultParseError(match n % 3 {
            0 => CqlResultParseError::UnknownResultId(77 + n as i32),
            1 => CqlResultParseError::ResultIdParseError(low_level()),
            _ => CqlResultParseError::UnknownResultId(-1),
        })),
        ["errparse"] => Some(RequestAttemptError::CqlErrorParseError(CqlErrorParseError::ErrorCodeParseError(
            low_level(),
        ))),
        ["unexpected"] => Some(RequestAttemptError::UnexpectedResponse(match n % 5 {
            0 => CqlResponseKind::Ready,
            1 => CqlResponseKind::Error,
            2 => CqlResponseKind::Authenticate,
            3 => CqlResponseKind::Supported,
            _ => CqlResponseKind::Result,
        })),
        ["repchanged"] => Some(RequestAttemptError::RepreparedIdChanged {
            statement: "s".repeat(n % 4),
            expected_id: vec![1; n % 3],
            reprepared_id: vec![2; (n + 1) % 3],
        }),
        ["repmissing"] => Some(RequestAttemptError::RepreparedIdMissingInBatch),
        ["paging"] => Some(RequestAttemptError::NonfinishedPagingState),
        ["db", "syntax"] => db(DbError::SyntaxError),
        ["db", "invalid"] => db(DbError::Invalid),
        ["db", "exists"] => db(DbError::AlreadyExists { keyspace: "k".repeat(n % 3), table: "t".repeat((n + 1) % 3) }),
        ["db", "funcfail"] => db(DbError::FunctionFailure {
            keyspace: "k".into(),
            function: "f".into(),
            arg_types: vec!["int".into(); n % 3],
        }),
        ["db", "auth"] => db(DbError::AuthenticationError),
        ["db", "unauthorized"] => db(DbError::Unauthorized),
        ["db", "config"] => db(DbError::ConfigError),
        ["db", "overloaded"] => db(DbError::Overloaded),
        ["db", "bootstrapping"] => db(DbError::IsBootstrapping),
        ["db", "truncate"] => db(DbError::TruncateError),
        ["db", "readfailure"] => db(DbError::ReadFailure {
            consistency: filler_cl(tok),
            received: [2, 0, 1, 3, -1, i32::MAX][n % 6],
            required: [1, 2, 1, 3, 0, 1][n % 6],
            numfailures: [1, 0, 2, i32::MAX][n % 4],
            data_present: n % 2 == 1,
        }),
        ["db", "writefailure"] => db(DbError::WriteFailure {
            consistency: filler_cl(tok),
            received: [1, 0, 2, 3, -1, i32::MAX][n % 6],
            required: [2, 1, 2, 3, 0, 1][n % 6],
            numfailures: [1, 0, 2, i32::MAX][n % 4],
            write_type: if sel.is_none() { WriteType::BatchLog } else { parse_wt(WTS[n % 9])? },
        }),
        ["db", "unprepared"] => db(DbError::Unprepared { statement_id: bytes::Bytes::from(vec![0xde; n % 20]) }),
        ["db", "server"] => db(DbError::ServerError),
        ["db", "protocol"] => db(DbError::ProtocolError),
        ["db", "ratelimit"] => db(DbError::RateLimitReached {
            op_type: if sel.is_none() {
                OperationType::Write
            } else {
                match n % 3 {
                    0 => OperationType::Read,
                    1 => OperationType::Write,
                    _ => OperationType::Other(n as u8),
                }
            },
            rejected_by_coordinator: sel.is_none() || (n / 3) % 2 == 1,
        }),
        ["db", "other"] => db(DbError::Other([0x124816, 0, -1, 0x1000, 0x1100, 0x1200, 0x1002, 0x2500, i32::MIN, i32::MAX][n % 10])),
        ["db", "unavailable", alive, required] => db(DbError::Unavailable {
            consistency: filler_cl(tok),
            required: num(required)?,
            alive: num(alive)?,
        }),
        ["db", "readtimeout", received, required, dp] => db(DbError::ReadTimeout {
            consistency: filler_cl(tok),
            received: num(received)?,
            required: num(required)?,
            data_present: match *dp {
                "1" => true,
                "0" => false,
                _ => return None,
            },
        }),
        ["db", "writetimeout", received, required, wt] => db(DbError::WriteTimeout {
            consistency: filler_cl(tok),
            received: num(received)?,
            required: num(required)?,
            write_type: parse_wt(wt)?,
        }),
        _ => None,
    }
}

/// Canonical name of a REAL error value: `full` = the case token (all fields), else the output token
/// (kind + the fields the model keeps).
fn err_name(e: &RequestAttemptError, full: bool) -> String {
    match e {
        RequestAttemptError::SerializationError(_) => "ser".into(),
        RequestAttemptError::CqlRequestSerialization(_) => "reqser".into(),
        RequestAttemptError::UnableToAllocStreamId => "alloc".into(),
        RequestAttemptError::BrokenConnectionError(b) => {
            // `full`: the canonical case token, which names the reason the connection broke for
            if !full {
                return "broken".into();
            }
            match b.downcast_ref::<BrokenConnectionErrorKind>() {
                Some(BrokenConnectionErrorKind::WriteError(io)) if io.kind() == std::io::ErrorKind::BrokenPipe => "broken.write".into(),
                Some(BrokenConnectionErrorKind::WriteError(_)) => "broken.writereset".into(),
                Some(BrokenConnectionErrorKind::FrameHeaderParseError(scylla::errors::FrameHeaderParseError::FrameFromClient)) => "broken.fromclient".into(),
                Some(BrokenConnectionErrorKind::FrameHeaderParseError(_)) => "broken.header".into(),
                Some(BrokenConnectionErrorKind::CqlEventHandlingError(_)) => "broken.event".into(),
                Some(BrokenConnectionErrorKind::UnexpectedStreamId(_)) => "broken.stream".into(),
                Some(BrokenConnectionErrorKind::KeepaliveTimeout(_)) => "broken.katimeout".into(),
                Some(BrokenConnectionErrorKind::KeepaliveRequestError(_)) => "broken.kareq".into(),
                Some(BrokenConnectionErrorKind::TooManyOrphanedStreamIds(5)) => "broken".into(),
                Some(BrokenConnectionErrorKind::TooManyOrphanedStreamIds(_)) => "broken.orphans".into(),
                Some(BrokenConnectionErrorKind::ChannelError) => "broken.channel".into(),
                _ => "broken".into(),
            }
        }
        RequestAttemptError::BodyExtensionsParseError(_) => "bodyext".into(),
        RequestAttemptError::CqlResultParseError(_) => "resparse".into(),
        RequestAttemptError::CqlErrorParseError(_) => "errparse".into(),
        RequestAttemptError::UnexpectedResponse(_) => "unexpected".into(),
        RequestAttemptError::RepreparedIdChanged { .. } => "repchanged".into(),
        RequestAttemptError::RepreparedIdMissingInBatch => "repmissing".into(),
        RequestAttemptError::NonfinishedPagingState => "paging".into(),
        RequestAttemptError::DbError(db, _) => match db {
            DbError::SyntaxError => "db.syntax".into(),
            DbError::Invalid => "db.invalid".into(),
            DbError::AlreadyExists { .. } => "db.exists".into(),
            DbError::FunctionFailure { .. } => "db.funcfail".into(),
            DbError::AuthenticationError => "db.auth".into(),
            DbError::Unauthorized => "db.unauthorized".into(),
            DbError::ConfigError => "db.config".into(),
            DbError::Overloaded => "db.overloaded".into(),
            DbError::IsBootstrapping => "db.bootstrapping".into(),
            DbError::TruncateError => "db.truncate".into(),
            DbError::ReadFailure { .. } => "db.readfailure".into(),
            DbError::WriteFailure { .. } => "db.writefailure".into(),
            DbError::Unprepared { .. } => "db.unprepared".into(),
            DbError::ServerError => "db.server".into(),
            DbError::ProtocolError => "db.protocol".into(),
            DbError::RateLimitReached { .. } => "db.ratelimit".into(),
            DbError::Other(_) => "db.other".into(),
            DbError::Unavailable { alive, required, .. } => {
                if full {
                    format!("db.unavailable.{}.{}", alive, required)
                } else {
                    format!("db.unavailable.{}", alive)
                }
            }
            DbError::ReadTimeout { received, required, data_present, .. } => {
                format!("db.readtimeout.{}.{}.{}", received, required, *data_present as u8)
            }
            DbError::WriteTimeout { received, required, write_type, .. } => {
                if full {
                    format!("db.writetimeout.{}.{}.{}", received, required, wt_name(write_type))
                } else {
                    format!("db.writetimeout.{}.{}", received, wt_name(write_type))
                }
            }
            _ => "db.unknown".into(),
        },
        _ => "unknown".into(),
    }
}

/// The oracle's OWN notion of "serial consistency", written from the CQL protocol (native_protocol_v4 §3:
/// SERIAL = 0x0008, LOCAL_SERIAL = 0x0009) - never the driver's `Consistency::is_serial()`, which is code under test.
fn oracle_is_serial(c: Consistency) -> bool {
    let by_variant = matches!(c, Consistency::Serial | Consistency::LocalSerial);
    let by_code = matches!(c as u16, 0x0008 | 0x0009);
    by_variant || by_code
}

/// The property's list, verbatim: "a failure that proves the previous attempt was not applied
/// (unavailable, bootstrapping, no free stream id on the client, read timeout)".
fn proves_not_applied(e: &RequestAttemptError) -> bool {
    matches!(
        e,
        RequestAttemptError::UnableToAllocStreamId
            | RequestAttemptError::DbError(DbError::Unavailable { .. }, _)
            | RequestAttemptError::DbError(DbError::IsBootstrapping, _)
            | RequestAttemptError::DbError(DbError::ReadTimeout { .. }, _)
    )
}

#[derive(Clone, Copy, PartialEq, Eq, Debug)]
enum Pol {
    Default,
    Downgrading,
    Fallthrough,
}

impl Pol {
    fn name(self) -> &'static str {
        match self {
            Pol::Default => "default",
            Pol::Downgrading => "downgrading",
            Pol::Fallthrough => "fallthrough",
        }
    }
    fn make(self) -> Box<dyn RetryPolicy> {
        match self {
            Pol::Default => Box::new(DefaultRetryPolicy::new()),
            Pol::Downgrading => Box::new(DowngradingConsistencyRetryPolicy::new()),
            Pol::Fallthrough => Box::new(FallthroughRetryPolicy::new()),
        }
    }
    /// "the policy's fixed number of same-node retries"
    fn same_node_retries(self) -> usize {
        match self {
            Pol::Default => 2,
            Pol::Downgrading => 1,
            Pol::Fallthrough => 0,
        }
    }
}

fn parse_policy(s: &str) -> Option<(Pol, bool)> {
    let (p, i) = s.split_once('/')?;
    let pol = match p {
        "default" => Pol::Default,
        "downgrading" => Pol::Downgrading,
        "fallthrough" => Pol::Fallthrough,
        _ => return None,
    };
    let idem = match i {
        "i" => true,
        "n" => false,
        _ => return None,
    };
    Some((pol, idem))
}

#[derive(Clone, Debug, PartialEq, Eq)]
enum Dec {
    Same(Option<Consistency>),
    Next(Option<Consistency>),
    Dont,
    Ignore,
    Unknown,
}

impl Dec {
    fn of(d: &RetryDecision) -> Dec {
        match d {
            RetryDecision::RetrySameTarget(c) => Dec::Same(*c),
            RetryDecision::RetryNextTarget(c) => Dec::Next(*c),
            RetryDecision::DontRetry => Dec::Dont,
            RetryDecision::IgnoreWriteError => Dec::Ignore,
            _ => Dec::Unknown,
        }
    }
    fn is_retry(&self) -> bool {
        matches!(self, Dec::Same(_) | Dec::Next(_))
    }
    fn new_cl(&self) -> Option<Consistency> {
        match self {
            Dec::Same(c) | Dec::Next(c) => *c,
            _ => None,
        }
    }
    fn name(&self) -> String {
        let opt = |c: &Option<Consistency>| c.map(|c| format!(":{}", cl_name(c))).unwrap_or_default();
        match self {
            Dec::Same(c) => format!("same{}", opt(c)),
            Dec::Next(c) => format!("next{}", opt(c)),
            Dec::Dont => "dont".into(),
            Dec::Ignore => "ignore".into(),
            Dec::Unknown => "unknown-decision".into(),
        }
    }
}

fn parse_dec(s: &str) -> Option<Dec> {
    let (k, c) = match s.split_once(':') {
        Some((k, c)) => (k, Some(parse_cl(c)?)),
        None => (s, None),
    };
    match (k, c) {
        ("dont", None) => Some(Dec::Dont),
        ("ignore", None) => Some(Dec::Ignore),
        ("same", c) => Some(Dec::Same(c)),
        ("next", c) => Some(Dec::Next(c)),
        _ => None,
    }
}

impl Dec {
    fn to_real(&self) -> RetryDecision {
        match self {
            Dec::Same(c) => RetryDecision::RetrySameTarget(*c),
            Dec::Next(c) => RetryDecision::RetryNextTarget(*c),
            Dec::Ignore => RetryDecision::IgnoreWriteError,
            Dec::Dont | Dec::Unknown => RetryDecision::DontRetry,
        }
    }
}

/// Test policy for `runx`: answers the i-th consultation of a session with the i-th scripted decision.
#[derive(Debug)]
struct ScriptedPolicy(Arc<Vec<Dec>>);
struct ScriptedSession(Arc<Vec<Dec>>, usize);
impl RetryPolicy for ScriptedPolicy {
    fn new_session(&self) -> Box<dyn RetrySession> {
        Box::new(ScriptedSession(Arc::clone(&self.0), 0))
    }
}
impl RetrySession for ScriptedSession {
    fn decide_should_retry(&mut self, _request_info: RequestInfo) -> RetryDecision {
        let d = self.0.get(self.1).map(|d| d.to_real()).unwrap_or(RetryDecision::DontRetry);
        self.1 += 1;
        d
    }
    fn reset(&mut self) {
        self.1 = 0;
    }
}

fn ops(s: &str) -> Vec<&str> {
    if s == "-" { vec![] } else { s.split(';').filter(|x| !x.is_empty()).collect() }
}

fn list_or_dash(xs: Vec<String>, sep: &str) -> String {
    if xs.is_empty() { "-".to_owned() } else { xs.join(sep) }
}

// ------------------------------------------------------------------------------------------------
// recording retry policy (delegates every call to the real policy)
// ------------------------------------------------------------------------------------------------

#[derive(Default)]
struct Recorded {
    sessions: usize,
    /// (error output token, error full token, is_idempotent, consistency, decision)
    calls: Vec<(String, bool, Consistency, Dec)>,
}

struct RecordingPolicy {
    inner: Box<dyn RetryPolicy>,
    rec: Arc<Mutex<Recorded>>,
}

impl std::fmt::Debug for RecordingPolicy {
    fn fmt(&self, f: &mut std::fmt::Formatter<'_>) -> std::fmt::Result {
        write!(f, "RecordingPolicy({:?})", self.inner)
    }
}

struct RecordingSession {
    inner: Box<dyn RetrySession>,
    rec: Arc<Mutex<Recorded>>,
}

impl RetryPolicy for RecordingPolicy {
    fn new_session(&self) -> Box<dyn RetrySession> {
        self.rec.lock().unwrap().sessions += 1;
        Box::new(RecordingSession { inner: self.inner.new_session(), rec: Arc::clone(&self.rec) })
    }
}

impl RetrySession for RecordingSession {
    fn decide_should_retry(&mut self, request_info: RequestInfo) -> RetryDecision {
        let tok = err_name(request_info.error, true);
        let idem = request_info.is_idempotent;
        let cl = request_info.consistency;
        let d = self.inner.decide_should_retry(request_info);
        self.rec.lock().unwrap().calls.push((tok, idem, cl, Dec::of(&d)));
        d
    }
    fn reset(&mut self) {
        self.inner.reset()
    }
}

// ------------------------------------------------------------------------------------------------
// runtime + dummy connection (one per thread, created on first use)
// ------------------------------------------------------------------------------------------------

struct Env {
    rt: tokio::runtime::Runtime,
    conn: hooks::DummyConnection,
    lbp: DefaultPolicy,
}

thread_local! {
    static ENV: Env = make_env();
}

fn make_env() -> Env {
    let rt = tokio::runtime::Builder::new_current_thread().enable_all().build().expect("tokio runtime");
    // A listener that accepts and holds; nothing is ever written on the connection.
    let listener = std::net::TcpListener::bind("127.0.0.1:0").expect("bind 127.0.0.1:0");
    let addr = listener.local_addr().unwrap();
    std::thread::spawn(move || {
        let mut held = Vec::new();
        while let Ok((s, _)) = listener.accept() {
            held.push(s);
        }
    });
    let conn = rt.block_on(hooks::dummy_connection(addr)).expect("dummy connection");
    Env { rt, conn, lbp: DefaultPolicy::default() }
}

// ------------------------------------------------------------------------------------------------
// run
// ------------------------------------------------------------------------------------------------

pub fn run(case: &str, ctx: &mut Ctx) -> String {
    // `wire retry k=v …`: the end-to-end run of harness/src/e2e/retry.rs (a real Session against the mock cluster,
    // frames counted at the nodes, UNPREPARED answers included), compared with the frame-level model
    if let Some(rest) = case.strip_prefix("wire retry ") {
        let words: Vec<&str> = rest.split(' ').collect();
        return crate::e2e::retry::run(&words, ctx);
    }
    let w: Vec<&str> = case.split_whitespace().collect();
    if w.len() != 4 {
        return "bad-case".to_owned();
    }
    let Some((pol, idem)) = parse_policy(w[1]) else { return "bad-case".to_owned() };
    match w[0] {
        "dec" => run_dec(pol, idem, w[3], ctx),
        "run" => run_exec(Some(pol), idem, w[2], w[3], ctx),
        "runx" if pol == Pol::Fallthrough => run_exec(None, idem, w[2], w[3], ctx),
        "spec" => run_spec(pol, idem, w[2], w[3], ctx),
        "tmo" => run_tmo(pol, idem, w[2], w[3], ctx),
        _ => "bad-case".to_owned(),
    }
}

fn run_dec(pol: Pol, idem: bool, steps: &str, ctx: &mut Ctx) -> String {
    let mut hist = Vec::new();
    for s in ops(steps) {
        let Some((c, e)) = s.split_once(':') else { return "bad-case".to_owned() };
        let (Some(cl), Some(err)) = (parse_cl(c), parse_err(e)) else { return "bad-case".to_owned() };
        if err_name(&err, true) != e.split('#').next().unwrap_or("") {
            return "bad-case".to_owned(); // non-canonical token (e.g. leading zeros)
        }
        hist.push((cl, err));
    }
    let policy = pol.make();
    let mut session = policy.new_session();
    let mut out = Vec::new();
    let mut same = 0usize;
    for (i, (cl, err)) in hist.iter().enumerate() {
        let d = Dec::of(&session.decide_should_retry(hooks::request_info(err, idem, *cl)));
        // ---- oracle (property text) ----
        if !idem && d.is_retry() && !proves_not_applied(err) {
            ctx.fail(format!(
                "{} policy: non-idempotent request would be re-sent ({}) after `{}`, which does not prove the attempt was not applied (step {})",
                pol.name(), d.name(), err_name(err, true), i
            ));
        }
        if pol == Pol::Default && oracle_is_serial(*cl) && d != Dec::Dont {
            ctx.fail(format!("default policy decided {} at serial consistency {} (step {})", d.name(), cl_name(*cl), i));
        }
        if pol == Pol::Fallthrough && d != Dec::Dont {
            ctx.fail(format!("fallthrough policy decided {} (step {})", d.name(), i));
        }
        if matches!(d, Dec::Same(_)) {
            same += 1;
            if same > pol.same_node_retries() {
                ctx.fail(format!(
                    "{} policy issued {} same-node retries in one session, fixed bound is {}",
                    pol.name(), same, pol.same_node_retries()
                ));
            }
        }
        if d == Dec::Unknown {
            ctx.fail("unknown RetryDecision variant".to_owned());
        }
        out.push(d.name());
    }
    list_or_dash(out, " ")
}

/// Minimal `tracing` subscriber: `run_request_no_side_effects` wraps every speculative fiber in a span named
/// "Speculative execution…" (`speculative_execution.rs:179,190`); the innermost entered span of that kind tells
/// which fiber is calling `run_request_once` (fibers are numbered in creation order; no such span = fiber 0).
#[derive(Default)]
struct FiberSpans {
    state: Mutex<FiberSpansState>,
}
#[derive(Default)]
struct FiberSpansState {
    next_id: u64,
    fiber_of_span: std::collections::HashMap<u64, usize>,
    entered: Vec<u64>,
}
impl FiberSpans {
    fn current_fiber(&self) -> usize {
        let st = self.state.lock().unwrap();
        st.entered.iter().rev().find_map(|id| st.fiber_of_span.get(id).copied()).unwrap_or(0)
    }
}
impl tracing::Subscriber for FiberSpans {
    fn enabled(&self, _m: &tracing::Metadata<'_>) -> bool {
        true
    }
    fn new_span(&self, attrs: &tracing::span::Attributes<'_>) -> tracing::span::Id {
        let mut st = self.state.lock().unwrap();
        st.next_id += 1;
        let id = st.next_id;
        if attrs.metadata().name().starts_with("Speculative execution") {
            let n = st.fiber_of_span.len();
            st.fiber_of_span.insert(id, n);
        }
        tracing::span::Id::from_u64(id)
    }
    fn record(&self, _: &tracing::span::Id, _: &tracing::span::Record<'_>) {}
    fn record_follows_from(&self, _: &tracing::span::Id, _: &tracing::span::Id) {}
    fn event(&self, _: &tracing::Event<'_>) {}
    fn enter(&self, id: &tracing::span::Id) {
        self.state.lock().unwrap().entered.push(id.into_u64());
    }
    fn exit(&self, id: &tracing::span::Id) {
        let mut st = self.state.lock().unwrap();
        if let Some(pos) = st.entered.iter().rposition(|x| *x == id.into_u64()) {
            st.entered.remove(pos);
        }
    }
}

struct ResumeClock;
impl Drop for ResumeClock {
    fn drop(&mut self) {
        tokio::time::resume();
    }
}

/// `spec <policy>/<i|n> <cl0>/<plan>/<m> <outcome>@<ms>;…` — the same entry point with a
/// `SimpleSpeculativeExecutionPolicy { max_retry_count: m, retry_interval: 100 ms }` on a paused clock; the k-th
/// `run_request_once` call (over all fibers) takes `<ms>` virtual milliseconds and returns `<outcome>`.
/// Several fibers interleave, so only interleaving-independent facts are printed and checked.
fn run_spec(pol: Pol, idem: bool, w2: &str, outs: &str, ctx: &mut Ctx) -> String {
    let p: Vec<&str> = w2.split('/').collect();
    // optional 4th part: a client-side request timeout (ms) around all the fibers
    if p.len() != 3 && p.len() != 4 {
        return "bad-case".to_owned();
    }
    let tmo: Option<u64> = match p.get(3) {
        Some(t) => match t.parse::<u64>() {
            Ok(t) if t <= 1_000_000 => Some(t),
            _ => return "bad-case".to_owned(),
        },
        None => None,
    };
    let (Some(cl0), Ok(m)) = (parse_cl(p[0]), p[2].parse::<usize>()) else { return "bad-case".to_owned() };
    if m > 8 {
        return "bad-case".to_owned();
    }
    let mut plan: Vec<usize> = Vec::new();
    if p[1] != "-" {
        for ch in p[1].chars() {
            match ch {
                '1' => plan.push(usize::MAX),
                '0' => plan.push(0),
                '2'..='9' => plan.push(ch as usize - '1' as usize),
                _ => return "bad-case".to_owned(),
            }
        }
    }
    let mut outcomes: Vec<(Option<RequestAttemptError>, u64)> = Vec::new();
    for o in ops(outs) {
        let Some((o, ms)) = o.split_once('@') else { return "bad-case".to_owned() };
        let Ok(ms) = ms.parse::<u64>() else { return "bad-case".to_owned() };
        if ms > 100_000 {
            return "bad-case".to_owned();
        }
        if o == "ok" {
            outcomes.push((None, ms));
        } else {
            let Some(e) = parse_err(o) else { return "bad-case".to_owned() };
            if err_name(&e, true) != o.split('#').next().unwrap_or("") {
                return "bad-case".to_owned();
            }
            outcomes.push((Some(e), ms));
        }
    }
    let rec = Arc::new(Mutex::new(Recorded::default()));
    let policy = RecordingPolicy { inner: pol.make(), rec: Arc::clone(&rec) };
    let spec = scylla::policies::speculative_execution::SimpleSpeculativeExecutionPolicy {
        max_retry_count: m,
        retry_interval: std::time::Duration::from_millis(100),
    };
    let log: RefCell<Vec<(usize, usize, Consistency)>> = RefCell::new(Vec::new());
    let finished: RefCell<Vec<bool>> = RefCell::new(Vec::new());
    let calls = Cell::new(0usize);
    let t0: Cell<Option<tokio::time::Instant>> = Cell::new(None);
    let started_at: RefCell<Vec<u64>> = RefCell::new(Vec::new());
    let spans = Arc::new(FiberSpans::default());
    let dispatch = tracing::Dispatch::new(ArcSubscriber(Arc::clone(&spans)));
    let result = ENV.with(|env| {
        let params = hooks::ExecParams {
            is_idempotent: idem,
            consistency: cl0,
            serial_consistency: None,
            retry_policy: &policy,
            load_balancing_policy: &env.lbp,
            speculative_policy: Some(&spec),
            request_timeout: tmo.map(std::time::Duration::from_millis),
        };
        let run_once = |target: usize, cl: Consistency| {
            if let Some(t0) = t0.get() {
                started_at.borrow_mut().push(t0.elapsed().as_millis() as u64);
            }
            log.borrow_mut().push((spans.current_fiber(), target, cl));
            finished.borrow_mut().push(false);
            let k = calls.get();
            calls.set(k + 1);
            let (res, ms): (Result<(), RequestAttemptError>, u64) = match outcomes.get(k) {
                Some((Some(e), ms)) => (Err(e.clone()), *ms),
                Some((None, ms)) => (Ok(()), *ms),
                None => (Ok(()), 7),
            };
            let finished = &finished;
            async move {
                tokio::time::sleep(std::time::Duration::from_millis(ms)).await;
                finished.borrow_mut()[k] = true;
                res
            }
        };
        tracing::dispatcher::with_default(&dispatch, || {
            env.rt.block_on(async {
                tokio::time::pause();
                let _resume = ResumeClock;
                t0.set(Some(tokio::time::Instant::now()));
                hooks::run_request_calls(params, &env.conn, plan.clone(), run_once).await
            })
        })
    });
    let finished = finished.into_inner();
    let fiber_log = log.into_inner();
    let log: RefCell<Vec<(usize, Consistency)>> = RefCell::new(fiber_log.iter().map(|(_, t, c)| (*t, *c)).collect());
    let attempts = log.into_inner();
    let n = attempts.len();
    let sessions = rec.lock().unwrap().sessions;
    let k = pol.same_node_retries();
    // ---- oracle: "for any request, attempts <= plan length + the policy's fixed number of same-node retries"
    //      (per fiber: each of the 1 + m fibers has its own retry session); non-idempotent requests never speculate
    let fibers = if idem { 1 + m } else { 1 };
    if n > plan.len() + fibers * k {
        ctx.fail(format!("{} attempts > plan length {} + {} fiber(s) x {} same-node retries of the {} policy", n, plan.len(), fibers, k, pol.name()));
    }
    if sessions > fibers {
        ctx.fail(format!("{} retry sessions for at most {} fiber(s)", sessions, fibers));
    }
    for t in 0..plan.len() {
        let on_t = attempts.iter().filter(|(x, _)| *x == t).count();
        if on_t > plan[t] || on_t > 1 + k {
            ctx.fail(format!("{} attempts on target {} (pool gave {} connections; one fiber may send at most 1 + {} there)", on_t, t, plan[t], k));
        }
    }
    if (pol == Pol::Fallthrough || (pol == Pol::Default && oracle_is_serial(cl0))) && n > fibers {
        ctx.fail(format!("{} attempts by at most {} fiber(s) of a policy that never retries here", n, fibers));
    }
    if !idem {
        for i in 0..n.saturating_sub(1) {
            match outcomes.get(i) {
                Some((Some(e), _)) if proves_not_applied(e) => {}
                _ => ctx.fail(format!("non-idempotent request re-sent (attempt {}) after attempt {} which does not prove non-application", i + 1, i)),
            }
        }
    }
    if let Some(tmo) = tmo {
        // every relative timer of the driver / the script is rounded up to tokio's 1 ms tick: allow that drift
        let slack = 2 + n as u64 + m as u64;
        for (i, at) in started_at.borrow().iter().enumerate() {
            if *at > tmo + slack {
                ctx.fail(format!("attempt {} was started at {} ms, after the request timeout of {} ms", i, at, tmo));
            }
        }
    }
    let r = match &result {
        Ok(hooks::ExecOutcome::Completed(_)) => "ok",
        Ok(hooks::ExecOutcome::IgnoredWriteError(_)) => "ignored",
        Err(_) => "err",
    };
    // every attempt in global `run_request_once` call order: fiber, target, consistency, finished / cancelled in flight
    let a = list_or_dash(
        fiber_log
            .iter()
            .zip(finished.iter())
            .map(|((f, t, c), fin)| format!("{}:{}:{}:{}", f, t, cl_name(*c), if *fin { '+' } else { '-' }))
            .collect(),
        ",",
    );
    if fiber_log.iter().any(|(f, _, _)| *f >= fibers) {
        ctx.fail(format!("an attempt was made by fiber {} but at most {} fiber(s) may run", fiber_log.iter().map(|x| x.0).max().unwrap_or(0), fibers));
    }
    format!("N={} S={} R={} A={}", n, sessions, r, a)
}

/// `Arc<FiberSpans>` as a subscriber (the harness keeps a handle to ask for the current fiber).
struct ArcSubscriber(Arc<FiberSpans>);
impl tracing::Subscriber for ArcSubscriber {
    fn enabled(&self, m: &tracing::Metadata<'_>) -> bool {
        self.0.enabled(m)
    }
    fn new_span(&self, a: &tracing::span::Attributes<'_>) -> tracing::span::Id {
        self.0.new_span(a)
    }
    fn record(&self, a: &tracing::span::Id, b: &tracing::span::Record<'_>) {
        self.0.record(a, b)
    }
    fn record_follows_from(&self, a: &tracing::span::Id, b: &tracing::span::Id) {
        self.0.record_follows_from(a, b)
    }
    fn event(&self, e: &tracing::Event<'_>) {
        self.0.event(e)
    }
    fn enter(&self, id: &tracing::span::Id) {
        self.0.enter(id)
    }
    fn exit(&self, id: &tracing::span::Id) {
        self.0.exit(id)
    }
}

/// `tmo <policy>/<i|n> <cl0>/<plan>/<timeout ms> <outcome>@<ms>;…` — one fiber under the client-side request
/// timeout (`request_timeout: Some(..)`, execution.rs:486-502) on a paused clock; the k-th `run_request_once` call
/// takes `<ms>` virtual milliseconds (attempts beyond the script: `ok@7`).
fn run_tmo(pol: Pol, idem: bool, w2: &str, outs: &str, ctx: &mut Ctx) -> String {
    let p: Vec<&str> = w2.split('/').collect();
    if p.len() != 3 {
        return "bad-case".to_owned();
    }
    let (Some(cl0), Ok(tmo)) = (parse_cl(p[0]), p[2].parse::<u64>()) else { return "bad-case".to_owned() };
    if tmo > 1_000_000 {
        return "bad-case".to_owned();
    }
    let mut plan: Vec<usize> = Vec::new();
    if p[1] != "-" {
        for ch in p[1].chars() {
            match ch {
                '1' => plan.push(usize::MAX),
                '0' => plan.push(0),
                '2'..='9' => plan.push(ch as usize - '1' as usize),
                _ => return "bad-case".to_owned(),
            }
        }
    }
    let mut outcomes: Vec<(Option<RequestAttemptError>, u64)> = Vec::new();
    for o in ops(outs) {
        let Some((o, ms)) = o.split_once('@') else { return "bad-case".to_owned() };
        let Ok(ms) = ms.parse::<u64>() else { return "bad-case".to_owned() };
        if ms > 100_000 {
            return "bad-case".to_owned();
        }
        if o == "ok" {
            outcomes.push((None, ms));
        } else {
            let Some(e) = parse_err(o) else { return "bad-case".to_owned() };
            if err_name(&e, true) != o.split('#').next().unwrap_or("") {
                return "bad-case".to_owned();
            }
            outcomes.push((Some(e), ms));
        }
    }
    let rec = Arc::new(Mutex::new(Recorded::default()));
    let policy = RecordingPolicy { inner: pol.make(), rec: Arc::clone(&rec) };
    // (target, consistency, virtual start time in ms)
    let log: RefCell<Vec<(usize, Consistency, u64)>> = RefCell::new(Vec::new());
    let calls = Cell::new(0usize);
    let result = ENV.with(|env| {
        let params = hooks::ExecParams {
            is_idempotent: idem,
            consistency: cl0,
            serial_consistency: None,
            retry_policy: &policy,
            load_balancing_policy: &env.lbp,
            speculative_policy: None,
            request_timeout: Some(std::time::Duration::from_millis(tmo)),
        };
        env.rt.block_on(async {
            tokio::time::pause();
            let _resume = ResumeClock;
            let t0 = tokio::time::Instant::now();
            // Attempts end at ABSOLUTE virtual instants (t0 + sum of the durations so far): tokio's timer rounds every
            // relative `sleep` up to its 1 ms tick, which would otherwise accumulate one extra millisecond per attempt.
            let planned = Cell::new(0u64);
            let run_once = |target: usize, cl: Consistency| {
                let k = calls.get();
                calls.set(k + 1);
                let (res, ms): (Result<(), RequestAttemptError>, u64) = match outcomes.get(k) {
                    Some((Some(e), ms)) => (Err(e.clone()), *ms),
                    Some((None, ms)) => (Ok(()), *ms),
                    None => (Ok(()), 7),
                };
                let start = planned.get();
                planned.set(start + ms);
                log.borrow_mut().push((target, cl, start));
                let until = t0 + std::time::Duration::from_millis(start + ms);
                async move {
                    tokio::time::sleep_until(until).await;
                    res
                }
            };
            hooks::run_request_calls(params, &env.conn, plan.clone(), run_once).await
        })
    });
    let attempts = log.into_inner();
    let n = attempts.len();
    let recd = rec.lock().unwrap();
    let decisions: Vec<Dec> = recd.calls.iter().map(|c| c.3.clone()).collect();
    // ---- oracle: the property's clauses hold for the cut-short history, and nothing is sent after the deadline
    for (i, (_, _, at)) in attempts.iter().enumerate() {
        if *at > tmo {
            ctx.fail(format!("attempt {} was started at {} ms, after the request timeout of {} ms", i, at, tmo));
        }
    }
    if !idem {
        for k in 0..n.saturating_sub(1) {
            match outcomes.get(k) {
                Some((Some(e), _)) if proves_not_applied(e) => {}
                _ => ctx.fail(format!("non-idempotent request re-sent (attempt {}) after attempt {} which does not prove non-application", k + 1, k)),
            }
        }
    }
    if n > plan.len() + pol.same_node_retries() {
        ctx.fail(format!("{} attempts > plan length {} + {} same-node retries", n, plan.len(), pol.same_node_retries()));
    }
    if pol == Pol::Default && oracle_is_serial(cl0) && n > 1 {
        ctx.fail(format!("default policy at {} consistency: {} attempts", cl_name(cl0), n));
    }
    if decisions.len() > n || n > decisions.len() + 1 {
        ctx.fail(format!("{} attempts but {} decisions", n, decisions.len()));
    }
    let timed_out = matches!(result, Err(RequestError::RequestTimeout(_)));
    let total: u64 = (0..n).map(|k| outcomes.get(k).map(|o| o.1).unwrap_or(7)).sum();
    if timed_out && total <= tmo {
        ctx.fail(format!("RequestTimeout({} ms) although all {} attempts together took {} ms", tmo, n, total));
    }
    let r = match &result {
        Ok(hooks::ExecOutcome::Completed(t)) => format!("ok:{}", t),
        Ok(hooks::ExecOutcome::IgnoredWriteError(t)) => format!("ignored:{}", t),
        Err(RequestError::LastAttemptError(e)) => format!("err:last:{}", err_name(e, false)),
        Err(RequestError::ConnectionPoolError(_)) => "err:pool".to_owned(),
        Err(RequestError::EmptyPlan) => "err:emptyplan".to_owned(),
        Err(RequestError::RequestTimeout(_)) => "err:timeout".to_owned(),
        Err(_) => "err:unknown".to_owned(),
    };
    let a = list_or_dash(attempts.iter().map(|(t, c, _)| format!("{}:{}", t, cl_name(*c))).collect(), ",");
    let d = list_or_dash(decisions.iter().map(|d| d.name()).collect(), ",");
    format!("A={} D={} R={} S={}", a, d, r, recd.sessions)
}

/// `pol = None`: the scripted test policy (`runx`), each failing outcome is written `<err>~<decision>`.
fn run_exec(pol: Option<Pol>, idem: bool, clplan: &str, outs: &str, ctx: &mut Ctx) -> String {
    let Some((c, pl)) = clplan.split_once('/') else { return "bad-case".to_owned() };
    let Some(cl0) = parse_cl(c) else { return "bad-case".to_owned() };
    // per target: how many `get_connection()` calls succeed (`0` never, `1` always, digit d >= 2: the first d-1)
    let mut plan: Vec<usize> = Vec::new();
    if pl != "-" {
        for ch in pl.chars() {
            match ch {
                '1' => plan.push(usize::MAX),
                '0' => plan.push(0),
                '2'..='9' => plan.push(ch as usize - '1' as usize),
                _ => return "bad-case".to_owned(),
            }
        }
    }
    let mut outcomes: Vec<Option<RequestAttemptError>> = Vec::new();
    let mut script: Vec<Dec> = Vec::new();
    for o in ops(outs) {
        if o == "ok" {
            outcomes.push(None);
            script.push(Dec::Dont);
        } else {
            let o = if pol.is_none() {
                let Some((e, d)) = o.split_once('~') else { return "bad-case".to_owned() };
                let Some(d) = parse_dec(d) else { return "bad-case".to_owned() };
                script.push(d);
                e
            } else {
                o
            };
            let Some(e) = parse_err(o) else { return "bad-case".to_owned() };
            if err_name(&e, true) != o.split('#').next().unwrap_or("") {
                return "bad-case".to_owned();
            }
            outcomes.push(Some(e));
        }
    }

    let rec = Arc::new(Mutex::new(Recorded::default()));
    let inner: Box<dyn RetryPolicy> = match pol {
        Some(p) => p.make(),
        None => Box::new(ScriptedPolicy(Arc::new(script.clone()))),
    };
    let policy = RecordingPolicy { inner, rec: Arc::clone(&rec) };
    let log: RefCell<Vec<(usize, Consistency)>> = RefCell::new(Vec::new());
    let calls = Cell::new(0usize);
    // A broken driver could loop forever on the same target: the script ends with successes, so it cannot.
    let result = ENV.with(|env| {
        let params = hooks::ExecParams {
            is_idempotent: idem,
            consistency: cl0,
            serial_consistency: None,
            retry_policy: &policy,
            load_balancing_policy: &env.lbp,
            speculative_policy: None,
            request_timeout: None,
        };
        let run_once = |target: usize, cl: Consistency| {
            log.borrow_mut().push((target, cl));
            let k = calls.get();
            calls.set(k + 1);
            let res: Result<(), RequestAttemptError> = match outcomes.get(k) {
                Some(Some(e)) => Err(e.clone()),
                _ => Ok(()),
            };
            async move { res }
        };
        env.rt.block_on(hooks::run_request_calls(params, &env.conn, plan.clone(), run_once))
    });

    let attempts = log.into_inner();
    let n = attempts.len();
    let recd = rec.lock().unwrap();
    let decisions: Vec<Dec> = recd.calls.iter().map(|c| c.3.clone()).collect();
    let outcome_err = |k: usize| -> Option<&RequestAttemptError> { outcomes.get(k).and_then(|o| o.as_ref()) };

    // ---------------- oracle (from the property statement; independent of the Lean model) ----------------
    // 1. a non-idempotent request is sent again only after a failure proving non-application
    //    (1.-3. speak about the built-in policies; the scripted test policy is checked by 4. only)
    if !idem && pol.is_some() {
        for k in 0..n.saturating_sub(1) {
            match outcome_err(k) {
                Some(e) if proves_not_applied(e) => {}
                Some(e) => ctx.fail(format!(
                    "non-idempotent request re-sent (attempt {} on target {}) after attempt {} failed with `{}`, which does not prove it was not applied",
                    k + 1, attempts[k + 1].0, k, err_name(e, true)
                )),
                None => ctx.fail(format!("request re-sent (attempt {}) after attempt {} succeeded", k + 1, k)),
            }
        }
    }
    // 2. the default policy never retries at serial consistency
    if pol == Some(Pol::Default) && oracle_is_serial(cl0) && n > 1 {
        ctx.fail(format!("default policy at {} consistency: {} attempts", cl_name(cl0), n));
    }
    if pol == Some(Pol::Fallthrough) && n > 1 {
        ctx.fail(format!("fallthrough policy: {} attempts", n));
    }
    // 3. attempts <= plan length + the policy's fixed number of same-node retries
    if let Some(pol) = pol {
        if n > plan.len() + pol.same_node_retries() {
            ctx.fail(format!(
                "{} attempts > plan length {} + {} same-node retries of the {} policy",
                n, plan.len(), pol.same_node_retries(), pol.name()
            ));
        }
    }
    // 4. the driver sends exactly the attempts the policy decided
    let completed = matches!(result, Ok(hooks::ExecOutcome::Completed(_)));
    let failed_attempts = n - (completed as usize);
    if decisions.len() != failed_attempts {
        ctx.fail(format!("{} failed attempts but the retry session was consulted {} times", failed_attempts, decisions.len()));
    }
    let retries = decisions.iter().filter(|d| d.is_retry()).count();
    if n > 1 + retries || (n == 0 && !decisions.is_empty()) {
        ctx.fail(format!("{} attempts sent but the policy decided only {} retries", n, retries));
    }
    if n >= 1 && n < 1 + retries {
        // fewer attempts than decided: only legitimate when the plan ran out after a RetryNextTarget, or after a
        // RetrySameTarget on a target whose pool gave no connection any more
        let last = attempts[n - 1].0;
        let on_last = attempts.iter().filter(|(t, _)| *t == last).count();
        let ran_out = (matches!(decisions.last(), Some(Dec::Next(_)))
            || (matches!(decisions.last(), Some(Dec::Same(_))) && on_last >= plan[last]))
            && retries == n
            && result.is_err()
            && plan.iter().skip(last + 1).all(|ok| *ok == 0);
        if !ran_out {
            ctx.fail(format!("policy decided {} retries but only {} attempts were sent although the plan had not run out", retries, n));
        }
    }
    for (i, (tok, ri_idem, ri_cl, d)) in recd.calls.iter().enumerate() {
        if i >= n {
            break;
        }
        if *ri_idem != idem || *ri_cl != attempts[i].1 {
            ctx.fail(format!("retry session was told idempotent={} consistency={} for attempt {} (sent idempotent={} at {})",
                ri_idem, cl_name(*ri_cl), i, idem, cl_name(attempts[i].1)));
        }
        if outcome_err(i).map(|e| err_name(e, true)).as_deref() != Some(tok.as_str()) {
            ctx.fail(format!("retry session was shown error `{}` for attempt {}, the attempt failed with {:?}", tok, i, outcome_err(i).map(|e| err_name(e, true))));
        }
        if i + 1 < n {
            let (t0, c0) = attempts[i];
            let (t1, c1) = attempts[i + 1];
            if c1 != d.new_cl().unwrap_or(c0) {
                ctx.fail(format!("attempt {} sent at {} but the policy decided {} after an attempt at {}", i + 1, cl_name(c1), d.name(), cl_name(c0)));
            }
            // successful get_connection calls made on t0 so far = attempts on t0 so far
            let used = attempts[..=i].iter().filter(|(t, _)| *t == t0).count();
            let pool_dry = used >= plan[t0];
            match d {
                Dec::Same(_) if !pool_dry && t1 != t0 => ctx.fail(format!("RetrySameTarget after attempt {} on target {}, but attempt {} went to target {}", i, t0, i + 1, t1)),
                Dec::Same(_) if pool_dry && (t1 <= t0 || plan[t0 + 1..t1].iter().any(|ok| *ok > 0)) => ctx.fail(format!(
                    "RetrySameTarget after attempt {} on target {} whose pool gives no connection any more, but attempt {} went to target {}", i, t0, i + 1, t1)),
                Dec::Next(_) if t1 <= t0 || plan[t0 + 1..t1].iter().any(|ok| *ok > 0) => ctx.fail(format!(
                    "RetryNextTarget after attempt {} on target {}, but attempt {} went to target {}", i, t0, i + 1, t1)),
                Dec::Dont | Dec::Ignore | Dec::Unknown => ctx.fail(format!("attempt {} sent after decision {}", i + 1, d.name())),
                _ => {}
            }
        }
    }
    if n >= 1 {
        let first = plan.iter().position(|ok| *ok > 0);
        if attempts[0].1 != cl0 || Some(attempts[0].0) != first {
            ctx.fail(format!("first attempt on target {} at {}, expected first connectable target {:?} at {}", attempts[0].0, cl_name(attempts[0].1), first, cl_name(cl0)));
        }
    }
    for t in 0..plan.len() {
        if attempts.iter().filter(|(x, _)| *x == t).count() > plan[t] {
            ctx.fail(format!("more attempts on target {} than its pool gave connections", t));
        }
    }
    if attempts.iter().any(|(t, _)| *t >= plan.len()) {
        ctx.fail("attempt on a target outside the plan".to_owned());
    }
    if recd.sessions > 1 || (recd.sessions == 0) != decisions.is_empty() {
        ctx.fail(format!("{} retry sessions created for one request with {} decisions", recd.sessions, decisions.len()));
    }

    // ---------------- canonical line ----------------
    let r = match &result {
        Ok(hooks::ExecOutcome::Completed(t)) => {
            if n == 0 || *t != attempts[n - 1].0 || outcome_err(n - 1).is_some() {
                ctx.fail(format!("Completed({}) but the last attempt did not succeed on that target", t));
            }
            format!("ok:{}", t)
        }
        Ok(hooks::ExecOutcome::IgnoredWriteError(t)) => {
            if decisions.last() != Some(&Dec::Ignore) || n == 0 || *t != attempts[n - 1].0 {
                ctx.fail(format!("IgnoredWriteError({}) without an IgnoreWriteError decision on that target", t));
            }
            format!("ignored:{}", t)
        }
        Err(RequestError::LastAttemptError(e)) => {
            if n == 0 || outcome_err(n - 1).map(|x| err_name(x, true)) != Some(err_name(e, true)) {
                ctx.fail(format!("returned error `{}` is not the error of the last attempt", err_name(e, true)));
            }
            format!("err:last:{}", err_name(e, false))
        }
        Err(RequestError::ConnectionPoolError(_)) => "err:pool".to_owned(),
        Err(RequestError::EmptyPlan) => "err:emptyplan".to_owned(),
        Err(RequestError::RequestTimeout(_)) => "err:timeout".to_owned(),
        Err(_) => "err:unknown".to_owned(),
    };
    let a = list_or_dash(attempts.iter().map(|(t, c)| format!("{}:{}", t, cl_name(*c))).collect(), ",");
    let d = list_or_dash(decisions.iter().map(|d| d.name()).collect(), ",");
    format!("A={} D={} R={} S={}", a, d, r, recd.sessions)
}

// ------------------------------------------------------------------------------------------------
// generators
// ------------------------------------------------------------------------------------------------

fn i32_class(rng: &mut Rng, class: usize) -> i32 {
    // 0: negative, 1..=4: the values 0..=3, 5: > 3
    match class {
        0 => {
            let r = -(rng.range(1, 1000) as i32);
            *rng.pick(&[-1, -2, i32::MIN, r])
        }
        1 => 0,
        2 => 1,
        3 => 2,
        4 => 3,
        _ => {
            let r = rng.range(4, 100000) as i32;
            *rng.pick(&[4, 5, 100, i32::MAX, r])
        }
    }
}

fn small_req(rng: &mut Rng) -> i32 {
    *rng.pick(&[0, 1, 2, 3, 5, -1, i32::MAX])
}

/// One token per abstraction class of the error universe, with concrete random fields.
fn err_classes(rng: &mut Rng) -> Vec<String> {
    let mut v: Vec<String> = [
        "ser", "reqser", "alloc", "broken", "broken.write", "broken.writereset", "broken.header", "broken.fromclient",
        "broken.event", "broken.stream", "broken.katimeout", "broken.kareq", "broken.orphans", "broken.channel", "bodyext", "resparse", "errparse", "unexpected", "repchanged",
        "repmissing", "paging", "db.syntax", "db.invalid", "db.exists", "db.funcfail", "db.auth", "db.unauthorized",
        "db.config", "db.overloaded", "db.bootstrapping", "db.truncate", "db.readfailure", "db.writefailure",
        "db.unprepared", "db.server", "db.protocol", "db.ratelimit", "db.other",
    ]
    .iter()
    .map(|s| s.to_string())
    .collect();
    for c in 0..6 {
        v.push(format!("db.unavailable.{}.{}", i32_class(rng, c), small_req(rng)));
    }
    for dp in 0..2 {
        // received < required, every class of `received`
        for c in 0..6 {
            let r = i32_class(rng, c);
            let q = if r == i32::MAX { r } else { r.saturating_add(*rng.pick(&[1, 1, 2, 1000])) };
            if r < q {
                v.push(format!("db.readtimeout.{}.{}.{}", r, q, dp));
            }
        }
        // received == required, received > required
        for c in 0..6 {
            let r = i32_class(rng, c);
            v.push(format!("db.readtimeout.{}.{}.{}", r, r, dp));
            if r > i32::MIN {
                let q = r.saturating_sub(*rng.pick(&[1, 1, 2, 1000]));
                v.push(format!("db.readtimeout.{}.{}.{}", r, q, dp));
            }
        }
    }
    for wt in WTS {
        for c in 0..6 {
            v.push(format!("db.writetimeout.{}.{}.{}", i32_class(rng, c), small_req(rng), wt));
        }
    }
    // payload fields no policy reads: every variation for the payload-heavy kinds, a random one for half of the rest
    for t in v.iter_mut() {
        if rng.bool() {
            *t = format!("{}#{}", t, rng.below(40));
        }
    }
    for kind in ["db.ratelimit", "db.readfailure", "db.writefailure", "db.other", "unexpected", "resparse"] {
        for n in 0..(if kind == "db.writefailure" { 9 } else { 6 }) {
            v.push(format!("{}#{}", kind, n));
        }
    }
    for kind in ["db.exists", "db.funcfail", "db.unprepared", "repchanged", "broken.orphans"] {
        for n in 0..3 {
            v.push(format!("{}#{}", kind, n));
        }
    }
    v
}

/// Errors that change (or probe) the session flags — the alphabet of the prefixes.
const PREFIX_DEFAULT: [&str; 3] =
    ["quorum:db.unavailable.1.2", "quorum:db.readtimeout.2.2.0", "one:db.writetimeout.1.2.batchlog"];
const PREFIX_DOWNGRADING: [&str; 5] = [
    "quorum:db.unavailable.2.3",
    "quorum:db.readtimeout.1.2.0",
    "all:db.readtimeout.2.2.0",
    "quorum:db.writetimeout.1.2.batchlog",
    "serial:db.unavailable.1.2",
];
const PREFIX_FALLTHROUGH: [&str; 1] = ["quorum:db.unavailable.1.2"];

fn prefixes(alpha: &[&str], max_len: usize) -> Vec<Vec<String>> {
    let mut all: Vec<Vec<String>> = vec![vec![]];
    let mut frontier: Vec<Vec<String>> = vec![vec![]];
    for _ in 0..max_len {
        let mut next = Vec::new();
        for p in &frontier {
            for a in alpha {
                let mut q = p.clone();
                q.push(a.to_string());
                next.push(q);
            }
        }
        all.extend(next.iter().cloned());
        frontier = next;
    }
    all
}

/// The outcomes that matter most for the fiber loop (every decision kind of every policy is reachable).
const ALPHABET: [&str; 17] = [
    "ok",
    "db.unavailable.2.3",
    "db.unavailable.0.1",
    "db.readtimeout.2.2.0",
    "db.readtimeout.1.2.0",
    "db.writetimeout.0.1.batchlog",
    "db.writetimeout.1.2.simple",
    "db.writetimeout.3.4.unlogged",
    "broken",
    "broken.write",
    "broken.header",
    "broken.channel",
    "db.overloaded",
    "db.bootstrapping",
    "alloc",
    "db.syntax",
    "db.server",
];

/// Turns some always-connectable targets into targets whose pool dries up after 1..3 `get_connection()` calls.
fn flaky(rng: &mut Rng, plan: String) -> String {
    plan.chars()
        .map(|c| if c == '1' && rng.chance(1, 4) { *rng.pick(&['2', '2', '3', '4']) } else { c })
        .collect()
}

fn plan_str(plan: &[bool]) -> String {
    if plan.is_empty() { "-".to_owned() } else { plan.iter().map(|b| if *b { '1' } else { '0' }).collect() }
}

fn all_plans(max_len: usize) -> Vec<Vec<bool>> {
    let mut v = Vec::new();
    for len in 0..=max_len {
        for bits in 0..(1u32 << len) {
            v.push((0..len).map(|i| bits >> i & 1 == 1).collect());
        }
    }
    v
}

pub fn generate(rng: &mut Rng, tier: Tier, emit: &mut dyn FnMut(String)) {
    // The `wire` cases (a real Session against a mock cluster each) are slow; the runner cuts the case list into
    // contiguous chunks, one per core: spread them evenly over the whole list.
    let mut all: Vec<String> = Vec::new();
    generate_all(rng, tier, &mut |l| all.push(l));
    let (slow, fast): (Vec<String>, Vec<String>) = all.into_iter().partition(|l| l.starts_with("wire "));
    let every = if slow.is_empty() { usize::MAX } else { (fast.len() / slow.len()).max(1) };
    let mut slow_it = slow.into_iter();
    for (i, l) in fast.into_iter().enumerate() {
        if i % every == 0 {
            if let Some(w) = slow_it.next() {
                emit(w);
            }
        }
        emit(l);
    }
    for w in slow_it {
        emit(w);
    }
}

fn generate_all(rng: &mut Rng, tier: Tier, emit: &mut dyn FnMut(String)) {
    let quick = tier == Tier::Quick;
    let pols = [Pol::Default, Pol::Downgrading, Pol::Fallthrough];

    // (a) decision tables: every error class x idem x every consistency x every session state reachable by a
    //     history of length <= 3 (quick: <= 2 plus sampled length 3)
    let reps = if quick { 1 } else { 3 };
    for _ in 0..reps {
        for pol in pols {
            let (alpha, max_len): (&[&str], usize) = match pol {
                Pol::Default => (&PREFIX_DEFAULT, 3),
                Pol::Downgrading => (&PREFIX_DOWNGRADING, if quick { 2 } else { 3 }),
                Pol::Fallthrough => (&PREFIX_FALLTHROUGH, 1),
            };
            let mut pres = prefixes(alpha, max_len);
            if quick && pol == Pol::Downgrading {
                // a sample of the longer prefixes
                let longer = prefixes(alpha, 3);
                for _ in 0..10 {
                    pres.push(rng.pick(&longer).clone());
                }
            }
            for pre in &pres {
                for idem in [true, false] {
                    let classes = err_classes(rng);
                    for (cname, _) in CLS {
                        for e in &classes {
                            let mut steps = pre.clone();
                            steps.push(format!("{}:{}", cname, e));
                            emit(format!("dec {}/{} - {}", pol.name(), if idem { "i" } else { "n" }, steps.join(";")));
                        }
                    }
                }
            }
        }
    }
    // random longer histories through one session (random consistencies at every step)
    for _ in 0..(if quick { 20000 } else { 200000 }) {
        let pol = *rng.pick(&pols);
        let classes = err_classes(rng);
        let len = rng.range(1, 7) as usize;
        let steps: Vec<String> = (0..len)
            .map(|_| {
                let e = if rng.chance(1, 2) { rng.pick(&ALPHABET[1..]).to_string() } else { rng.pick(&classes).clone() };
                format!("{}:{}", rng.pick(&CLS).0, e)
            })
            .collect();
        emit(format!("dec {}/{} - {}", pol.name(), if rng.bool() { "i" } else { "n" }, steps.join(";")));
    }

    // (b) the execution loop
    // exhaustive: all plans of length <= 3, all outcome sequences of length <= 2 (thorough: <= 3) over ALPHABET
    let seq_len = if quick { 2 } else { 3 };
    let mut seqs: Vec<Vec<&str>> = vec![vec![]];
    let mut frontier: Vec<Vec<&str>> = vec![vec![]];
    for _ in 0..seq_len {
        let mut next = Vec::new();
        for p in &frontier {
            if p.last() == Some(&"ok") {
                continue; // nothing is sent after a success
            }
            for a in ALPHABET {
                let mut q = p.clone();
                q.push(a);
                next.push(q);
            }
        }
        seqs.extend(next.iter().cloned());
        frontier = next;
    }
    let cls_small: &[&str] = &["quorum", "eachquorum", "serial"];
    for plan in all_plans(3) {
        for pol in pols {
            for idem in ["i", "n"] {
                for cl in cls_small {
                    for s in &seqs {
                        if pol == Pol::Fallthrough && s.len() > 1 && quick {
                            continue;
                        }
                        if !plan.iter().any(|ok| *ok) && !s.is_empty() {
                            continue; // nothing is ever sent: one case per plan is enough
                        }
                        emit(format!("run {}/{} {}/{} {}", pol.name(), idem, cl, plan_str(&plan), list_or_dash(s.iter().map(|x| x.to_string()).collect(), ";")));
                    }
                }
            }
        }
    }
    // directed: the same error for every attempt (plan + 3 outcomes): a one-shot flag that is not set, or a
    // next-target decision that stays on the target, shows up as too many attempts
    let classes = err_classes(rng);
    for pol in pols {
        for idem in ["i", "n"] {
            for plan_len in 1..=4usize {
                for cl in ["quorum", "eachquorum", "serial", "localserial", "two"] {
                    for e in ALPHABET[1..].iter().map(|s| s.to_string()).chain(classes.iter().filter(|_| !quick).cloned()) {
                        let outs = vec![e; plan_len + 3];
                        emit(format!("run {}/{} {}/{} {}", pol.name(), idem, cl, "1".repeat(plan_len), outs.join(";")));
                    }
                }
            }
        }
    }
    // directed: orders of the flag-setting errors followed by repeats (maximal same-node retry chains)
    let setters = ["db.readtimeout.2.2.0", "db.writetimeout.0.1.batchlog", "db.unavailable.2.3", "db.readtimeout.1.2.0", "db.writetimeout.3.4.unlogged"];
    for pol in pols {
        for idem in ["i", "n"] {
            for a in setters {
                for b in setters {
                    for c in setters {
                        for plan in ["1", "11", "101"] {
                            emit(format!("run {}/{} quorum/{} {};{};{};{};{}", pol.name(), idem, plan, a, b, c, a, b));
                        }
                    }
                }
            }
        }
    }
    // directed: targets whose pool dries up between two same-target attempts (get_connection is called again
    // before every attempt): every plan of length <= 3 over {0, 1, 2, 3} x orders of the same-node-retry errors
    let digits = ['0', '1', '2', '3'];
    let mut fplans: Vec<String> = Vec::new();
    for a in digits {
        fplans.push(a.to_string());
        for b in digits {
            fplans.push(format!("{}{}", a, b));
            for c in digits {
                fplans.push(format!("{}{}{}", a, b, c));
            }
        }
    }
    fplans.retain(|p| p.contains('2') || p.contains('3'));
    for plan in &fplans {
        for pol in [Pol::Default, Pol::Downgrading] {
            for idem in ["i", "n"] {
                for a in setters {
                    for b in setters {
                        emit(format!("run {}/{} quorum/{} {};{};{};db.bootstrapping;{}", pol.name(), idem, plan, a, b, a, b));
                    }
                }
            }
        }
        for d0 in ["same", "same:one", "next"] {
            for d1 in ["same", "next:two", "dont", "ignore"] {
                emit(format!("runx fallthrough/i quorum/{} broken~{};broken~{};broken~same;broken~same;ok", plan, d0, d1));
            }
        }
    }

    // (d) speculative execution (several fibers, each with its own retry session, one shared plan iterator):
    //     the combined bound plan + (1 + m) x same-node retries on the real code
    for _ in 0..(if quick { 6000 } else { 60000 }) {
        let pol = *rng.pick(&[Pol::Default, Pol::Default, Pol::Downgrading, Pol::Downgrading, Pol::Fallthrough]);
        let idem = !rng.chance(1, 6);
        let m = rng.range(0, 3) as usize;
        let plan_len = rng.range(0, 5) as usize;
        let plan: Vec<bool> = (0..plan_len).map(|_| !rng.chance(1, 6)).collect();
        let ps = plan_str(&plan);
        let ps = if rng.chance(1, 4) { flaky(rng, ps) } else { ps };
        let len = plan_len + 3 * (m + 1) + 1;
        let outs: Vec<String> = (0..len)
            .map(|i| {
                let ms = *rng.pick(&[7u64, 17, 47, 137, 157, 257, 377]);
                let o = if i + 1 == len || rng.chance(1, 12) {
                    "ok".to_string()
                } else if rng.chance(3, 4) {
                    rng.pick(&["db.readtimeout.2.2.0", "db.writetimeout.0.1.batchlog", "db.readtimeout.1.2.0", "db.unavailable.2.3",
                        "db.writetimeout.3.4.unlogged", "db.bootstrapping", "broken", "db.overloaded"]).to_string()
                } else {
                    rng.pick(&ALPHABET[1..]).to_string()
                };
                format!("{}@{}", o, ms)
            })
            .collect();
        let cl0 = if rng.chance(1, 10) { "serial" } else { *rng.pick(&["quorum", "eachquorum", "all", "one"]) };
        // a third of them under a client-side request timeout that cuts all the fibers
        let tm = if rng.chance(1, 3) { format!("/{}", *rng.pick(&[0u64, 50, 100, 150, 250, 400, 700, 1200])) } else { String::new() };
        emit(format!("spec {}/{} {}/{}/{}{} {}", pol.name(), if idem { "i" } else { "n" }, cl0, ps, m, tm, outs.join(";")));
    }

    // (e) the client-side request timeout: attempts of 7..377 virtual ms against deadlines around their sums
    for _ in 0..(if quick { 8000 } else { 80000 }) {
        let pol = *rng.pick(&[Pol::Default, Pol::Default, Pol::Downgrading, Pol::Downgrading, Pol::Fallthrough]);
        let idem = rng.chance(2, 5);
        let plan_len = rng.range(0, 4) as usize;
        let plan: Vec<bool> = (0..plan_len).map(|_| !rng.chance(1, 6)).collect();
        let ps = plan_str(&plan);
        let ps = if rng.chance(1, 4) { flaky(rng, ps) } else { ps };
        let len = plan_len + 3;
        let mut sum = 0u64;
        let mut sums = vec![0u64];
        let outs: Vec<String> = (0..len)
            .map(|i| {
                let ms = *rng.pick(&[0u64, 1, 7, 40, 40, 100, 137, 377]);
                sum += ms;
                sums.push(sum);
                let o = if i + 1 == len || rng.chance(1, 10) {
                    "ok".to_string()
                } else if idem {
                    rng.pick(&["broken", "db.overloaded", "db.bootstrapping", "alloc", "db.unavailable.2.3", "db.readtimeout.2.2.0",
                        "db.writetimeout.0.1.batchlog", "db.readtimeout.1.2.0", "db.syntax"]).to_string()
                } else {
                    rng.pick(&["db.bootstrapping", "alloc", "db.unavailable.2.3", "db.readtimeout.2.2.0", "db.readtimeout.1.2.0",
                        "broken", "db.writetimeout.0.1.batchlog"]).to_string()
                };
                format!("{}@{}", o, ms)
            })
            .collect();
        // deadlines: exactly at, just before, just after the end of some attempt; 0; far beyond
        let base = *rng.pick(&sums);
        let tmo = match rng.below(6) {
            0 => base,
            1 => base.saturating_sub(1),
            2 => base + 1,
            3 => 0,
            4 => sum + 1000,
            _ => rng.below(sum + 50),
        };
        let cl0 = if rng.chance(1, 10) { *rng.pick(&["serial", "localserial"]) } else { *rng.pick(&["quorum", "eachquorum", "all", "one"]) };
        emit(format!("tmo {}/{} {}/{}/{} {}", pol.name(), if idem { "i" } else { "n" }, cl0, ps, tmo, outs.join(";")));
    }
    // (f) frame level, end to end (harness/src/e2e/retry.rs with UNPREPARED answers): a real Session against the mock
    //     cluster; the k-th statement frame of a request is answered with the k-th outcome of its script
    let n_wire = if quick { 200 } else { 2000 };
    // the last fifth: DIRECTED at profiles derived through to_builder() / pointee_to_builder() (the policy lives on the
    // base profile only) and at "nothing configured": the policies that differ most from the built-in default,
    // non-idempotent and idempotent alike
    let n_directed = n_wire / 4;
    for i in 0..(n_wire + n_directed) {
        let directed = i >= n_wire;
        let n = 1 + rng.below(3);
        let pol = if directed { *rng.pick(&["fall", "fall", "down", "def"]) } else { *rng.pick(&["def", "def", "down", "down", "fall"]) };
        let idem = if i % 3 == 2 { 1 } else { 0 };
        let kind = *rng.pick(&["exec", "exec", "batch", "batch", "query", "qvals", "qvals", "batchv", "batchv", "itere", "itere", "iterq", "itere", "ctl"]);
        let iter_kind = kind == "itere" || kind == "iterq" || kind == "ctl";
        let via = if i % 4 == 1 && !iter_kind && kind != "qvals" && kind != "batchv" { "caching" } else { "session" };
        // the consistency matters on the wire: the downgrading policy lowers ALL / EACH_QUORUM
        let cl = if pol == "def" && rng.chance(1, 8) {
            *rng.pick(&["serial", "localserial"])
        } else if pol == "down" && rng.chance(2, 3) {
            *rng.pick(&["all", "eachquorum"])
        } else {
            *rng.pick(&["q", "q", "all"])
        };
        // where policy and consistency are configured (statement / session profile / statement's profile handle /
        // statement with decoys on both profiles)
        let cfg = if via == "caching" || kind == "ctl" {
            "stmt"
        } else if directed {
            *rng.pick(&["dprofile", "dhandle", "dprofile", "dhandle", "none"])
        } else {
            *rng.pick(&["stmt", "stmt", "profile", "handle", "both", "dprofile", "dhandle", "none"])
        };
        // nothing configured: the default policy at the default consistency, no timeout
        let (pol, cl) = if cfg == "none" { ("def", "q") } else { (pol, cl) };
        let der = if cfg == "dprofile" || cfg == "dhandle" { format!(" der={}", crate::e2e::retry::gen_der(rng)) } else { String::new() };
        let pages = 2 + rng.below(3);
        // a request timeout (statement- or profile-level) against an answer that takes 400 ms
        let tmo = if via == "session" && kind != "ctl" && cfg != "none" && rng.chance(1, 6) { Some((*rng.pick(&[100u64, 150, 1500]), *rng.pick(&["stmt", "profile"]))) } else { None };
        let n_req = if tmo.is_some() { 2 } else { 3 + rng.below(3) };
        let mut scripts = Vec::new();
        for _ in 0..n_req {
            let len = 1 + rng.below(n + 4) + if iter_kind { pages } else { 0 };
            let mut sv: Vec<&str> = Vec::new();
            let mut oks = 0;
            for k in 0..len {
                let o = if k + 1 == len && rng.bool() {
                    "ok"
                } else if iter_kind && rng.chance(2, 5) {
                    "ok"
                } else if tmo.is_some() && rng.chance(1, 3) {
                    "slow"
                } else if rng.chance(1, 3) && !(iter_kind && kind == "iterq") {
                    if rng.chance(1, 5) { "unpx" } else { "unp" }
                } else if rng.chance(1, 2) {
                    *rng.pick(&["un", "bs", "rt", "rtd"])
                } else {
                    *rng.pick(&["ov", "se", "tr", "wt", "wtb", "inv", "cl", "un", "bs", "gres", "gerr", "gsup"])
                };
                // a closed connection leaves that node's pool empty for an unknown time: which targets of the NEXT page's
                // plan have a connection is then a matter of timing - not scripted for the pagers in the compared cases
                // (the oracle-only `e2e retry` cases do it)
                let o = if iter_kind && o == "cl" { "se" } else { o };
                sv.push(o);
                if o == "ok" || o == "slow" {
                    oks += 1;
                    if oks >= if iter_kind { pages } else { 1 } {
                        break;
                    }
                }
            }
            let mut sc = sv.join(".");
            // answers to the PREPARE frames sent during the request (re-prepare after UNPREPARED, the per-attempt
            // PREPARE of qvals / batchv): ok with another id, errors, a closed connection
            if via == "session" && rng.chance(1, 2) {
                let np = 1 + rng.below(4);
                let pv: Vec<&str> =
                    (0..np).map(|_| *rng.pick(&["p", "p", "p", "pc", "pov", "pbs", "pcl"])).map(|p| if iter_kind && p == "pcl" { "pov" } else { p }).collect();
                sc = format!("{}~{}", sc, pv.join("."));
            }
            scripts.push(sc);
        }
        // the same text executed by callers with DIFFERENT idempotence flags (a cache must not keep the first one's)
        let idems = if via == "caching" || rng.chance(1, 4) {
            format!(" idems={}", (0..scripts.len()).map(|_| *rng.pick(&['1', '0', '0', '-'])).collect::<String>())
        } else {
            String::new()
        };
        let extra = format!(
            "{}{}{}",
            idems,
            if iter_kind { format!(" pages={}", pages) } else { String::new() },
            match tmo {
                Some((t, at)) => format!(" tmo={} tmoat={}", t, at),
                None => String::new(),
            }
        );
        // "not marked idempotent" = the setter was never called
        let idem_s = if idem == 0 && rng.chance(1, 3) { "-".to_owned() } else { idem.to_string() };
        emit(format!(
            "wire retry n={} sh=0 pol={} idem={} kind={} cl={} via={} cfg={}{}{} seed={} scripts={}",
            n, pol, idem_s, kind, cl, via, cfg, der, extra, rng.below(1 << 32), scripts.join("/")
        ));
    }

    // (c) the loop under a scripted test policy: every decision arm with every consistency (the built-in policies
    //     never return RetryNextTarget(Some(_)), IgnoreWriteError only in one cell, ...)
    let dec_alpha = ["dont", "ignore", "same", "next", "same:one", "next:two", "next:serial", "same:eachquorum"];
    for plan in all_plans(3) {
        if !plan.iter().any(|ok| *ok) {
            continue;
        }
        for idem in ["i", "n"] {
            for d0 in dec_alpha {
                emit(format!("runx fallthrough/{} quorum/{} broken~{}", idem, plan_str(&plan), d0));
                for d1 in dec_alpha {
                    emit(format!("runx fallthrough/{} quorum/{} db.syntax~{};db.bootstrapping~{}", idem, plan_str(&plan), d0, d1));
                    emit(format!("runx fallthrough/{} all/{} db.syntax~{};alloc~{};ok", idem, plan_str(&plan), d0, d1));
                }
            }
        }
    }
    for _ in 0..(if quick { 40000 } else { 400000 }) {
        let plan_len = rng.range(1, 5) as usize;
        let plan: Vec<bool> = (0..plan_len).map(|_| !rng.chance(1, 5)).collect();
        let len = rng.below(plan_len as u64 + 4) as usize;
        let outs: Vec<String> = (0..len)
            .map(|i| {
                if i + 1 == len && rng.chance(1, 2) {
                    "ok".to_string()
                } else {
                    let d = match rng.below(12) {
                        0 => "dont".to_string(),
                        1 => "ignore".to_string(),
                        2..=4 => "same".to_string(),
                        5..=7 => "next".to_string(),
                        8 | 9 => format!("same:{}", rng.pick(&CLS).0),
                        _ => format!("next:{}", rng.pick(&CLS).0),
                    };
                    format!("{}~{}", rng.pick(&ALPHABET[1..]), d)
                }
            })
            .collect();
        let ps = plan_str(&plan);
        let ps = if rng.bool() { flaky(rng, ps) } else { ps };
        emit(format!(
            "runx fallthrough/{} {}/{} {}",
            if rng.bool() { "i" } else { "n" },
            rng.pick(&CLS).0,
            ps,
            list_or_dash(outs, ";")
        ));
    }
    // random histories: plans of 0..5 targets incl. connection failures, outcomes of length <= plan + 3.
    // Half of them draw mostly from the errors after which a retry is plausible (long runs).
    const FRIENDLY_IDEM: [&str; 16] = [
        "broken.write", "broken.katimeout", "broken.stream", "broken.kareq", "broken", "db.overloaded", "db.server", "db.truncate", "db.bootstrapping", "alloc", "db.unavailable.2.3",
        "db.unavailable.1.1", "db.readtimeout.2.2.0", "db.readtimeout.1.3.1", "db.writetimeout.0.1.batchlog",
        "db.writetimeout.2.3.unlogged",
    ];
    const FRIENDLY_NONIDEM: [&str; 8] = [
        "db.bootstrapping", "alloc", "db.unavailable.2.3", "db.unavailable.3.4", "db.unavailable.0.1",
        "db.readtimeout.2.2.0", "db.readtimeout.1.3.1", "db.readtimeout.0.1.0",
    ];
    for _ in 0..(if quick { 120000 } else { 800000 }) {
        let pol = match rng.below(7) {
            0 => Pol::Fallthrough,
            1..=3 => Pol::Default,
            _ => Pol::Downgrading,
        };
        let idem = rng.chance(2, 5);
        let friendly = rng.bool();
        let plan_len = if friendly || !rng.chance(1, 4) { rng.range(1, 5) as usize } else { rng.below(6) as usize };
        let plan: Vec<bool> = (0..plan_len).map(|_| !rng.chance(1, if friendly { 6 } else { 4 })).collect();
        let cl0 = if rng.chance(1, 8) { *rng.pick(&["serial", "localserial"]) } else { rng.pick(&CLS).0 };
        let len = if friendly { plan_len + 3 - rng.below(2) as usize } else { rng.below(plan_len as u64 + 4) as usize };
        let classes = err_classes(rng);
        let outs: Vec<String> = (0..len)
            .map(|i| {
                if i + 1 == len && rng.chance(1, 3) {
                    "ok".to_string()
                } else if friendly && !rng.chance(1, 6) {
                    if idem { rng.pick(&FRIENDLY_IDEM).to_string() } else { rng.pick(&FRIENDLY_NONIDEM).to_string() }
                } else {
                    match rng.below(10) {
                        0..=5 => rng.pick(&ALPHABET[1..]).to_string(),
                        6 => "ok".to_string(),
                        _ => rng.pick(&classes).clone(),
                    }
                }
            })
            .collect();
        let ps = plan_str(&plan);
        let ps = if rng.chance(1, 3) { flaky(rng, ps) } else { ps };
        emit(format!(
            "run {}/{} {}/{} {}",
            pol.name(),
            if idem { "i" } else { "n" },
            cl0,
            ps,
            list_or_dash(outs, ";")
        ));
    }
}
